"""C06 — Backmapping places rigid, centred, same-handed copies of the residue template.

Statement (properties.jsonl, fixed):
  "For every backmapped residue the centre of geometry of its atoms equals the residue position, and its
   atom coordinates are the residue's template turned by a proper rotation and scaled by the backmapping
   factor, so all copies of a residue type are congruent and keep the template's handedness. Atoms take the
   template position of their own atom name in their own residue only."

Implementation side: the real `polyply.src.linalg_functions.rotate_xyz` and the real
`polyply.src.backmap.Backmap().run_molecule / run_system` on generated meta molecules (vermouth molecules,
`make_residue_graph`, `MetaMolecule`), with the L-BFGS optimiser of `orient_template` LIVE.  The angles the
optimiser settled on are read by interposing (attribute assignment, harness process only) on
`backmap.rotate_xyz` / `backmap.orient_template`.

Model side (`Model/Rotation.lean` through `Drivers/C06.lean`):
  * `rotateXYZ` / `placeInitCoords` on exact rationals — the doubles `np.cos θ`, `np.sin θ`, the template
    vectors, the residue positions and the factor are shipped as exact fractions, the model answers exactly
    and the answer is compared with the doubles the real code wrote (relative 1e-9);
  * the specification (`specCentre`, `specRigid`, `specHanded`, own-name lookup) evaluated by the Lean driver
    on the coordinates the REAL code wrote, tolerance 1e-6 (after trig + optimiser).

Stream `objective`: the REAL `orient_template` is called for one residue with `scipy.optimize.minimize` replaced
(harness process only) by a function that evaluates the objective it receives (`fun(x, *args)`) at the start
angles and two dyadic angle triples; `Rot.objective` (Model/RotationAngles.lean) is evaluated on the pairs the
input defines (template vector of the own bonded atom; neighbour ATOM position if that residue is in
`built_nodes`, else neighbour RESIDUE position; both minus the own residue position) with the same cos/sin values
shipped exactly — 0-4 connecting edges, built and not built neighbours mixed, shared resids (1e-9).

Trusted / partial: IEEE rounding and `np.sin/np.cos` (c²+s²=1 only to rounding); `scipy.optimize.minimize`
is an arbitrary angle oracle (the theorems hold for every angle triple); vermouth's `make_residue_graph`
builds the residue fragments.
"""
import collections
import json
import os

import numpy as np

import common
from common import frac, rat_str

RULE = ("stream 1: rotate_xyz on 3xN dyadic objects (N=0..6) with special and random angle triples; "
        "stream 2: Backmap().run_molecule / run_system on generated molecules: 1..5 (thorough ..9) residues, "
        "1..3 template types per molecule with 1..7 atoms (single atom, collinear, planar, chiral), template "
        "key order shuffled against atom order, 0..n bonded neighbours over trees and rings of residues with "
        "1..2 atom-level bonds per residue edge, neighbours built before / after / never (backmap=False), "
        "pairs of residue nodes sharing one resid (different residue names, equal or foreign atom names, bonded "
        "neighbours included), left-over atom coordinates on residues to be backmapped, a second backmapping pass after "
        "the residue positions moved, "
        "fudge_coords in {0.4, 1, 0.25, 0.7, 2, 1.5}; stream 3 (thorough and a few quick): templates from the real "
        "GenerateTemplates (with virtual sites) fed to Backmap.  A case is non-trivial when a backmapped "
        "residue has >= 2 atoms; distinct = (stream, generator seed).")

TOL_CORR = 1e-9
TOL_SPEC = "1/1000000"
EPS_PLANAR = "1/1000000000"
FUDGES = [0.4, 1.0, 0.25, 0.7, 2.0, 1.5]


FINDING_SHAPES = ()
# fixed in /repo, therefore always generated: shared-resid-neighbour-crashes (dea35af)
_OVERRIDE = None


def enabled(shape):
    """shapes of documented findings stay out of the default stream until known_findings.txt lists them
    (or VERIF_C06_PROBE=<shape>|all asks for them); a replay carries its own setting"""
    if _OVERRIDE is not None:
        return shape in _OVERRIDE
    probe = os.environ.get("VERIF_C06_PROBE", "")
    if probe == "all" or shape in probe.split(","):
        return True
    return any(k["property"] == "C06" and k["shape"] == shape for k in common.load_known_findings())


def v3(vec):
    return [rat_str(vec[0]), rat_str(vec[1]), rat_str(vec[2])]


def angle_req(theta_x, theta_y, theta_z):
    """cos/sin as the real code computes them (np.cos/np.sin on the double), shipped exactly"""
    return [rat_str(np.cos(theta_x)), rat_str(np.sin(theta_x)),
            rat_str(np.cos(theta_y)), rat_str(np.sin(theta_y)),
            rat_str(np.cos(theta_z)), rat_str(np.sin(theta_z))]


def close(a, b, tol=TOL_CORR):
    a, b = float(a), float(b)
    return abs(a - b) <= tol * (1.0 + max(abs(a), abs(b)))


def vec_close(impl, model, tol=TOL_CORR):
    return len(impl) == len(model) and all(close(x, common.rat_parse(y), tol) for x, y in zip(impl, model))


# ------------------------------------------------------------------------------------------ generators

def dy(rng, lo, hi, bits=6):
    return float(common.dyadic(rng, lo, hi, bits))


def gen_template(rng, kind, natoms, prefix):
    """atom-name -> vector from the centre of geometry; exact zero sum (dyadic, last = -sum of the others)"""
    names = ["%s%d" % (prefix, i) for i in range(natoms)]
    if natoms == 1:
        vecs = [np.zeros(3)]
    else:
        vecs = []
        for _ in range(natoms - 1):
            if kind == "collinear":
                vecs.append(np.array([dy(rng, -2, 2), 0.0, 0.0]))
            elif kind == "planar":
                vecs.append(np.array([dy(rng, -2, 2), dy(rng, -2, 2), 0.0]))
            else:
                vecs.append(np.array([dy(rng, -2, 2), dy(rng, -2, 2), dy(rng, -2, 2)]))
        vecs.append(-sum(vecs))
    order = list(range(natoms))
    rng.shuffle(order)           # dict order differs from the atom order in the residue
    return {names[i]: vecs[i] for i in order}, names


def gen_molecule_spec(rng, thorough):
    """a JSON-able description of one meta molecule (so that a replay rebuilds exactly the same input)"""
    ntypes = rng.randint(1, 3)
    types = []
    for t in range(ntypes):
        natoms = rng.choice([1, 2, 3, 4, 4, 5, 6, 7]) if rng.random() < 0.85 else rng.randint(1, 3)
        kind = rng.choice(["chiral", "chiral", "planar", "collinear"])
        template, names = gen_template(rng, kind, natoms, "ABCDEFG"[t])
        types.append(dict(key="T%d" % t, kind=kind, names=names,
                          template=[[k, [float(x) for x in v]] for k, v in template.items()]))
    nres = rng.randint(1, 9 if thorough else 5)
    residues = []
    for r in range(nres):
        typ = rng.randrange(ntypes)
        names = list(types[typ]["names"])
        rng.shuffle(names)
        residues.append(dict(type=typ, resid=r + 1, atom_names=names,
                             backmap=rng.random() < 0.8,
                             pos=[dy(rng, 0, 8), dy(rng, 0, 8), dy(rng, 0, 8)]))
    if not any(r["backmap"] for r in residues):
        residues[rng.randrange(nres)]["backmap"] = True
    # residue-level connectivity: random tree (possibly a forest) + extra edges
    res_edges = set()
    for r in range(1, nres):
        if rng.random() < 0.9:
            res_edges.add((rng.randrange(r), r))
    for _ in range(rng.randint(0, 2)):
        if nres >= 3:
            a, b = rng.sample(range(nres), 2)
            res_edges.add((min(a, b), max(a, b)))
    bonds = []
    for a, b in sorted(res_edges):
        for _ in range(rng.choice([1, 1, 2])):
            bonds.append([a, rng.randrange(len(residues[a]["atom_names"])),
                          b, rng.randrange(len(residues[b]["atom_names"]))])
    # two residue nodes may carry the same resid (the residue graph is keyed on (resid, resname): several
    # chains in one moleculetype, cofactors, restarted numbering), bonded neighbours included.
    if ntypes >= 2 and nres >= 2 and rng.random() < 0.3:
        pairs = [(a, b) for a in range(nres) for b in range(a + 1, nres) if residues[a]["type"] != residues[b]["type"]]
        if pairs:
            a, b = rng.choice(pairs)
            residues[b]["resid"] = residues[a]["resid"]
            # (before fix dea35af orient_template told atoms and built neighbours apart by resid and raised as
            # soon as such a residue had a bonded neighbour: shape shared-resid-neighbour-crashes)
            if rng.random() < 0.6:
                # same atom names in both (think BB/SC1): each one's names are keys of the other's template
                ta, tb = types[residues[a]["type"]], types[residues[b]["type"]]
                if len(ta["names"]) == len(tb["names"]):
                    ren = dict(zip(tb["names"], ta["names"]))
                    tb["template"] = [[ren[k], v] for k, v in tb["template"]]
                    tb["names"] = [ren[k] for k in tb["names"]]
                    for res in residues:
                        if types[res["type"]] is tb:
                            res["atom_names"] = [ren[k] for k in res["atom_names"]]
    out = dict(types=types, residues=residues, bonds=bonds, fudge=rng.choice(FUDGES),
               via=rng.choice(["run_molecule", "run_system"]))
    # left-over atom coordinates on residues that ARE to be backmapped (rebuilt residues, centre-only input whose
    # atoms had coordinates) and a second backmapping pass after the residue positions moved
    if rng.random() < 0.3:
        for res in residues:
            if res["backmap"] and rng.random() < 0.6:
                res["stale"] = True
    if rng.random() < 0.25:
        out["second_pass"] = [[dy(rng, 0, 8), dy(rng, 0, 8), dy(rng, 0, 8)] for _ in residues]
    return out


def build_meta(spec):
    """the real objects: vermouth Molecule -> make_residue_graph -> MetaMolecule (as tests/test_backmap.py)"""
    import networkx as nx
    import vermouth
    from vermouth.graph_utils import make_residue_graph
    from polyply import MetaMolecule
    molecule = vermouth.molecule.Molecule()
    key = 0
    atom_keys = []
    for res in spec["residues"]:
        keys = []
        for idx, name in enumerate(res["atom_names"]):
            attrs = dict(resname="R%d" % res["type"], resid=res["resid"], atomname=name)
            if not res["backmap"]:
                # atoms of residues that are not backmapped already have coordinates
                attrs["position"] = np.array(res["pos"]) + np.array([0.125 * idx, 0.25, -0.5])
            elif res.get("stale"):
                # old coordinates that the backmapping has to replace
                attrs["position"] = np.array(res["pos"]) + np.array([1.5 - 0.25 * idx, -0.75, 0.125 * idx])
            molecule.add_node(key, **attrs)
            if keys:
                molecule.add_edge(keys[-1], key)
            keys.append(key)
            key += 1
        atom_keys.append(keys)
    for a, i, b, j in spec["bonds"]:
        molecule.add_edge(atom_keys[a][i], atom_keys[b][j])
    graph = make_residue_graph(molecule, attrs=("resid", "resname"))
    meta = MetaMolecule(graph)
    meta.molecule = molecule
    by_resid = {(meta.nodes[n]["resid"], meta.nodes[n]["resname"]): n for n in meta.nodes}
    for res in spec["residues"]:
        node = by_resid[(res["resid"], "R%d" % res["type"])]
        nx.set_node_attributes(meta, {node: {"resname": "R%d" % res["type"],
                                             "template": spec["types"][res["type"]]["key"],
                                             "position": np.array(res["pos"], dtype=spec.get("pos_dtype", "float64")),
                                             "resid": res["resid"], "backmap": res["backmap"]}})
    meta.templates = {t["key"]: {k: np.array(v, dtype=float) for k, v in t["template"]} for t in spec["types"]}
    return meta


class Recorder:
    """interposition on backmap.rotate_xyz / backmap.orient_template (harness process only)"""

    def __init__(self):
        self.last_angles = None
        self.per_node = []      # (current_node, (tx, ty, tz) or None)

    def __enter__(self):
        import polyply.src.backmap as backmap
        self.backmap = backmap
        self.orig_rot = backmap.rotate_xyz
        self.orig_orient = backmap.orient_template

        def rot(obj, tx, ty, tz):
            self.last_angles = (float(tx), float(ty), float(tz))
            return self.orig_rot(obj, tx, ty, tz)

        def orient(meta_molecule, current_node, template, built_nodes):
            self.last_angles = None
            out = self.orig_orient(meta_molecule, current_node, template, built_nodes)
            self.per_node.append((current_node, self.last_angles, list(built_nodes)))
            return out

        backmap.rotate_xyz = rot
        backmap.orient_template = orient
        return self

    def __exit__(self, *exc):
        self.backmap.rotate_xyz = self.orig_rot
        self.backmap.orient_template = self.orig_orient
        return False


class FakeSystem:  # what Processor.run_system needs
    def __init__(self, molecules):
        self.molecules = molecules


def run_backmap(meta, fudge, via, np_seed, second_pass=None):
    """one pass, or two passes with the residue positions moved in between (judged on the last one)"""
    from polyply.src.backmap import Backmap
    np.random.seed(np_seed)      # random start angles of orient_template
    before = {n: (None if "position" not in meta.molecule.nodes[n] else np.array(meta.molecule.nodes[n]["position"]))
              for n in meta.molecule.nodes}
    per_node, err = [], None
    for moved in ([None] if second_pass is None else [None, second_pass]):
        if moved is not None:
            for node, pos in zip(meta.nodes, moved):
                meta.nodes[node]["position"] = np.array(pos, dtype=np.asarray(meta.nodes[node]["position"]).dtype)
        with Recorder() as rec:
            try:
                if via == "run_system":
                    Backmap(fudge_coords=fudge).run_system(FakeSystem([meta]))
                else:
                    Backmap(fudge_coords=fudge).run_molecule(meta)
            except Exception as exc:  # pylint: disable=broad-except
                err = "%s: %s" % (type(exc).__name__, exc)
        per_node = rec.per_node
        if err is not None:
            break
    return before, per_node, err


# ------------------------------------------------------------------------------------------ one backmap case

def backmap_case(ctx, stream, replay, meta, fudge, via, np_seed, second_pass=None):
    """runs the real code; returns (requests, judge(answers))"""
    before, per_node, err = run_backmap(meta, fudge, via, np_seed, second_pass)
    mol = meta.molecule
    nodes = list(meta.nodes)
    res_info = []
    for node in nodes:
        data = meta.nodes[node]
        atoms = [[int(a), mol.nodes[a]["atomname"]] for a in data["graph"].nodes]
        res_info.append(dict(node=node, backmap=bool(data["backmap"]), template=data["template"],
                             pos=data["position"], resid=int(data["resid"]), atoms=atoms))
    if err is not None:
        def judge_err(_answers):
            shape = "backmap-raises"
            shared = len({r["resid"] for r in res_info}) < len(res_info)
            if shared and meta.number_of_edges() and ("ref_resid" in err or "KeyError: 'position'" in err):
                shape = "shared-resid-neighbour-crashes"
            ctx.oracle_fail(shape, "Backmap raised %s on a valid molecule (%s)" % (err, replay), replay)
            ctx.case(None, stream=stream, outcome="raises")
        return [], judge_err
    angles = {node: ang for node, ang, _ in per_node}
    captured = all(angles.get(r["node"]) is not None for r in res_info if r["backmap"])
    reqs = []
    if captured:
        residues = []
        for r in res_info:
            ang = angles.get(r["node"]) or (0.0, 0.0, 0.0)
            residues.append(dict(backmap=r["backmap"], template=r["template"], pos=v3(r["pos"]), node=int(r["node"]),
                                 atoms=r["atoms"], ang=angle_req(*ang)))
        reqs.append(dict(op="place", f=rat_str(fudge),
                         templates=[[k, [[n, v3(vec)] for n, vec in t.items()]] for k, t in meta.templates.items()],
                         residues=residues))
    spec_of = []
    unplaced = []
    for r in res_info:
        if not r["backmap"]:
            continue
        missing = [(a, name) for a, name in r["atoms"] if mol.nodes[a].get("position") is None]
        if missing:
            # an atom of a backmapped residue without coordinates: judged as such, nothing else can be said about it
            unplaced.append((r, missing))
            continue
        placed = [[name, v3(mol.nodes[a]["position"])] for a, name in r["atoms"]]
        reqs.append(dict(op="spec", tol=TOL_SPEC, eps=EPS_PLANAR, f=rat_str(fudge),
                         template=[[n, v3(vec)] for n, vec in meta.templates[r["template"]].items()],
                         pos=v3(r["pos"]), atoms=placed))
        spec_of.append(r)

    def judge(answers):
        idx = 0
        for r, missing in unplaced:
            ctx.oracle_fail("atom-not-placed", "after backmapping, atoms %s of residue resid=%d (template %s, atoms %s) "
                            "have no coordinates; input %s" % (missing, r["resid"], r["template"],
                                                               [n for _, n in r["atoms"]], replay), replay)
        if captured:
            ans = answers[idx]
            idx += 1
            if not ans["ok"]:
                ctx.correspond("place_init_coords", dict(ok=True), dict(ok=False, err=ans.get("err")), replay)
            else:
                model = {}
                for key, vec in ans["out"]:
                    model[key] = vec
                agree = True
                detail = None
                expected_keys = sorted(a for r in res_info if r["backmap"] for a, _ in r["atoms"])
                if sorted(model) != expected_keys:
                    agree, detail = False, "model wrote atoms %s, expected %s" % (sorted(model), expected_keys)
                for key in expected_keys:
                    if agree and mol.nodes[key].get("position") is None:
                        agree, detail = False, "atom %d has no coordinates" % key
                    if agree and not vec_close(mol.nodes[key]["position"], model[key]):
                        agree = False
                        detail = "atom %d: impl %s model %s" % (key, list(map(float, mol.nodes[key]["position"])),
                                                               [float(common.rat_parse(x)) for x in model[key]])
                # built_nodes as the real code kept it: what the last orient_template call was handed, plus that node
                built_impl = ([int(x) for x in per_node[-1][2]] + [int(per_node[-1][0])]) if per_node else []
                ctx.correspond("place_init_coords", dict(close=True, built=built_impl),
                               dict(close=agree, built=ans["built"], **({"detail": detail} if detail else {})), replay)
        else:
            ctx.tally(angles_uncaptured=True)
        # residues that are not backmapped keep what they had ("in their own residue only")
        for r in res_info:
            if r["backmap"]:
                continue
            for a, _ in r["atoms"]:
                now = mol.nodes[a].get("position")
                was = before[a]
                same = (now is None and was is None) or (now is not None and was is not None and np.array_equal(now, was))
                if not same:
                    ctx.oracle_fail("touches-unmapped-residue",
                                    "atom %d of residue %d (backmap=False) changed from %s to %s (%s)"
                                    % (a, r["resid"], was, now, replay), replay)
        nontrivial = False
        for r in spec_of:
            ans = answers[idx]
            idx += 1
            what = "residue resid=%d template=%s fudge=%s atoms=%s" % (r["resid"], r["template"], fudge,
                                                                      [n for _, n in r["atoms"]])
            if not ans["ok"]:
                raise common.DriverError("spec request failed: %s" % ans)
            if not ans["own"]:
                ctx.oracle_fail("atom-name-not-in-template", "an atom name has no template entry: " + what, replay)
                continue
            # the centre of geometry is the residue position when every template entry is used equally often by the
            # residue's atoms (once each — C06_centre — or k times each); a residue that repeats only SOME atom
            # names has its centre elsewhere by construction (counted, not judged)
            counts = collections.Counter(n for _, n in r["atoms"])
            balanced = set(counts) == set(meta.templates[r["template"]]) and len(set(counts.values())) == 1
            if not balanced:
                ctx.tally(centre_not_demanded="atom names repeated unevenly")
            if not ans["centre"] and balanced:
                ctx.oracle_fail("centre-off", "centre of geometry of the placed atoms differs from the residue "
                                "position by more than 1e-6: %s; input %s" % (what, replay), replay)
            if not ans["rigid"]:
                ctx.oracle_fail("not-rigid", "an intra-residue distance differs from fudge x the template distance "
                                "of the two atom names by more than 1e-6: %s; input %s" % (what, replay), replay)
            if not ans["handed"]:
                ctx.oracle_fail("handedness", "a signed 4-atom volume is not fudge^3 x the template's (sign or size): "
                                "%s; input %s" % (what, replay), replay)
            if len(r["atoms"]) >= 2:
                nontrivial = True
        nres = len(res_info)
        built_seen = {node: built for node, _, built in per_node}
        with_built = sum(1 for r in res_info if r["backmap"] and any(
            nb in built_seen.get(r["node"], []) for nb in meta.neighbors(r["node"])))
        with_unbuilt = sum(1 for r in res_info if r["backmap"] and any(
            nb not in built_seen.get(r["node"], []) for nb in meta.neighbors(r["node"])))
        ctx.tally(residues_with_built_neighbour=with_built > 0, residues_with_unbuilt_neighbour=with_unbuilt > 0)
        maxdeg = max([meta.degree(n) for n in nodes] + [0])
        kmax = max(len(r["atoms"]) for r in res_info)
        ctx.traces += 1
        ctx.case((stream, json.dumps(replay, sort_keys=True)) if nontrivial else None,
                 sample=dict(stream=stream, input=replay if len(json.dumps(replay)) < 600 else "(%d residues)" % nres,
                             residues=nres, fudge=fudge),
                 stream=stream, residues=nres if nres <= 3 else "4+", max_neighbours=maxdeg if maxdeg <= 2 else "3+",
                 max_atoms=kmax if kmax <= 4 else "5+", fudge=fudge, via=via,
                 unmapped=sum(1 for r in res_info if not r["backmap"]) > 0,
                 shared_resid=len({r["resid"] for r in res_info}) < nres,
                 stale_atom_positions=any(b is not None for r in res_info if r["backmap"] for a, _ in r["atoms"]
                                          for b in [before[a]]),
                 passes=1 if second_pass is None else 2)
    return reqs, judge


# ------------------------------------------------------------------------------------------ rotate_xyz stream

SPECIAL_ANGLES = [0.0, np.pi / 2, np.pi, -np.pi / 2, 2 * np.pi, 1.0, -2.5, 7.0]


def rotate_case(ctx, replay):
    from polyply.src.linalg_functions import rotate_xyz
    obj = np.array(replay["obj"], dtype=float).reshape(3, -1) if replay["obj"] else np.zeros((3, 0))
    tx, ty, tz = replay["angles"]
    reqs = [dict(op="rotate", obj=[v3(obj[:, j]) for j in range(obj.shape[1])], ang=angle_req(tx, ty, tz))]
    try:
        out = rotate_xyz(obj, tx, ty, tz)
        impl = [[float(x) for x in out[:, j]] for j in range(out.shape[1])]
        err = None
    except Exception as exc:  # pylint: disable=broad-except
        impl, err = None, "%s: %s" % (type(exc).__name__, exc)

    def judge(answers):
        ans = answers[0]
        ncol = obj.shape[1]
        if err is not None:
            # an empty object makes `_matrix_multiplication` well defined (3x0); anything else is a crash
            ctx.correspond("rotate_xyz", dict(ok=False, err=err), dict(ok=True), replay)
        else:
            agree = len(impl) == len(ans["out"]) and all(vec_close(i, m) for i, m in zip(impl, ans["out"]))
            ctx.correspond("rotate_xyz", dict(close=True), dict(close=agree, impl=impl,
                           model=[[float(common.rat_parse(x)) for x in v] for v in ans["out"]]) if not agree
                           else dict(close=True), replay)
        ctx.case(("rotate", json.dumps(replay)) if ncol >= 1 else None,
                 sample=dict(stream="rotate_xyz", input=replay), stream="rotate_xyz",
                 columns=ncol if ncol <= 2 else "3+")
    return reqs, judge


def gen_rotate(ctx):
    rng = ctx.rng
    out = []
    for n in range(ctx.budget(40, 600)):
        ncol = rng.choice([0, 1, 1, 2, 3, 4, 6]) if n > 2 else n
        obj = [[dy(rng, -4, 4) for _ in range(ncol)] for _ in range(3)]
        if rng.random() < 0.4:
            angles = [rng.choice(SPECIAL_ANGLES) for _ in range(3)]
        else:
            angles = [rng.uniform(-7, 7) for _ in range(3)]
        out.append(dict(stream="rotate", obj=obj if ncol else [], angles=angles))
    return out


# ------------------------------------------------------------------------------------------ pipeline stream

def pipeline_case(ctx, replay):
    """templates made by the real GenerateTemplates (C15's topology generator, virtual sites included)
    handed to the real Backmap"""
    import random
    import c15
    rng = random.Random(replay["seed"])
    spec = c15.gen_topology_spec(rng, small=True, build_file=False)
    topology, _ = c15.build_topology(spec)
    from polyply.src.generate_templates import GenerateTemplates
    np.random.seed(replay["seed"] % (2 ** 31))
    GenerateTemplates(topology=topology, max_opt=10, skip_filter=False).run_system(topology)
    meta = topology.molecules[rng.randrange(len(topology.molecules))]
    for node in meta.nodes:
        meta.nodes[node]["position"] = np.array([dy(rng, 0, 8), dy(rng, 0, 8), dy(rng, 0, 8)])
        meta.nodes[node]["backmap"] = True
    return backmap_case(ctx, "pipeline", replay, meta, replay["fudge"], "run_molecule", replay["seed"] % 1000)


# ------------------------------------------------------------------------------------------ driver

def objective_case(ctx, replay):
    """the objective `orient_template` hands to the optimiser, evaluated at a few angle triples: the REAL
    orient_template is called for one residue with `scipy.optimize.minimize` replaced (harness process only) by a
    function that evaluates the objective it is given (`fun(x, *args)`) and returns the start angles; the model
    computes `Rot.objective` from the pairs (template atom of the residue's own bonded atom, reference point) that
    the input itself defines: the neighbour's atom if that residue counts as built, else the neighbour residue"""
    import random
    import scipy.optimize
    import polyply.src.backmap as backmap
    spec = replay["spec"]
    rng = random.Random(replay["np_seed"])
    meta = build_meta(spec)
    mol = meta.molecule
    offsets, key = [], 0
    for res in spec["residues"]:
        offsets.append(key)
        key += len(res["atom_names"])
    node_of = {}
    for node in meta.nodes:
        for atom in meta.nodes[node]["graph"].nodes:
            node_of[atom] = node
    cur_idx = replay["residue"] % len(spec["residues"])
    cur = node_of[offsets[cur_idx]]
    others = [r for r in range(len(spec["residues"])) if r != cur_idx]
    built_idx = [r for r in others if rng.random() < 0.5]
    for r in built_idx:                     # a built residue has atom coordinates (dyadic)
        for i in range(len(spec["residues"][r]["atom_names"])):
            mol.nodes[offsets[r] + i]["position"] = np.array([dy(rng, 0, 8), dy(rng, 0, 8), dy(rng, 0, 8)])
    built_nodes = [node_of[offsets[r]] for r in built_idx]
    rng.shuffle(built_nodes)
    template = meta.templates[meta.nodes[cur]["template"]]
    probes = [[dy(rng, 0, 6, 3), dy(rng, 0, 6, 3), dy(rng, 0, 6, 3)] for _ in range(2)]
    seen = dict(values=[], angles=[], calls=0)
    orig = scipy.optimize.minimize

    def fake(fun, x0, args=(), **_kwargs):
        seen["calls"] += 1
        for x in [list(np.asarray(x0, dtype=float))] + probes:
            seen["angles"].append([float(c) for c in x])
            seen["values"].append(float(fun(np.array(x, dtype=float), *args)))
        return scipy.optimize.OptimizeResult(x=np.asarray(x0, dtype=float), success=True)
    scipy.optimize.minimize = fake
    np.random.seed(replay["np_seed"] % 100000)
    try:
        backmap.orient_template(meta, cur, template, built_nodes)
    finally:
        scipy.optimize.minimize = orig
    own = meta.nodes[cur]["position"]
    pairs = []
    for a, i, b, j in spec["bonds"]:
        if (a == cur_idx) == (b == cur_idx):
            continue
        (mine, k), (other, l) = ((a, i), (b, j)) if a == cur_idx else ((b, j), (a, i))
        name = spec["residues"][mine]["atom_names"][k]
        other_node = node_of[offsets[other]]
        is_built = other_node in built_nodes
        pairs.append(dict(opt=v3(template[name]), built=is_built, cg=v3(meta.nodes[other_node]["position"]),
                          atom=v3(mol.nodes[offsets[other] + l]["position"]) if is_built else None))
    # several bonds between the same two atoms are one edge of the molecule graph
    uniq = []
    keys = set()
    for (a, i, b, j), pair in zip([bd for bd in spec["bonds"] if (bd[0] == cur_idx) != (bd[2] == cur_idx)], pairs):
        k = frozenset([(a, i), (b, j)])
        if k not in keys:
            keys.add(k)
            uniq.append(pair)
    req = dict(op="objective", own=v3(own), pairs=uniq, angles=[angle_req(*x) for x in seen["angles"]])

    def judge(answers):
        ans = answers[0]
        if seen["calls"] != 1 or not ans.get("ok"):
            ctx.tie_broken("correspondence", "objective:setup", "minimize called %d times; driver: %s"
                           % (seen["calls"], str(ans)[:200]), replay)
            return
        impl = ["%.12g" % v for v in seen["values"]]
        model = ["%.12g" % float(common.rat_parse(v)) for v in ans["values"]]
        if all(close(x, common.rat_parse(y)) for x, y in zip(seen["values"], ans["values"])):
            model = impl
        ctx.correspond("orient_template-objective", impl, model, replay)
        ctx.case(("objective", json.dumps(replay, sort_keys=True)) if uniq else None, stream="objective",
                 objective_pairs=min(len(uniq), 4), objective_built=sum(1 for q in uniq if q["built"]) > 0)
    return [req], judge


def make_case(ctx, replay):
    stream = replay["stream"]
    if stream == "rotate":
        return rotate_case(ctx, replay)
    if stream == "objective":
        return objective_case(ctx, replay)
    if stream == "pipeline":
        return pipeline_case(ctx, replay)
    meta = build_meta(replay["spec"])
    return backmap_case(ctx, "backmap", replay, meta, replay["spec"]["fudge"], replay["spec"]["via"], replay["np_seed"],
                        replay["spec"].get("second_pass"))


def gen_backmap(ctx):
    import random
    rng = ctx.rng
    out = []
    for _ in range(ctx.budget(160, 6000)):
        seed = rng.randint(0, 10 ** 9)
        out.append(dict(stream="backmap", spec=gen_molecule_spec(random.Random(seed), ctx.thorough),
                        np_seed=seed % 100000, probe=sorted(s for s in FINDING_SHAPES if enabled(s))))
    return out


def gen_objective(ctx):
    """own generator (the cases of the older streams for a given VERIF_SEED stay what they were)"""
    import random
    rng = random.Random(("objective", ctx.seed, ctx.pid).__repr__())
    out = []
    for _ in range(ctx.budget(150, 3000)):
        seed = rng.randint(0, 10 ** 9)
        spec = gen_molecule_spec(random.Random(seed), ctx.thorough)
        out.append(dict(stream="objective", spec=spec, np_seed=seed, residue=rng.randrange(64)))
    return out


def gen_backmap_repeated(ctx):
    """residues in which an atom name occurs more than once (legal in GROMACS; the template is keyed by atom name, so
    such atoms share one template entry and get the same position): every name twice, or only some names repeated.
    Own generator: the cases of the older streams for a given VERIF_SEED stay what they were."""
    import random
    rng = random.Random(("repeated-names", ctx.seed, ctx.pid).__repr__())
    out = []
    for _ in range(ctx.budget(40, 800)):
        seed = rng.randint(0, 10 ** 9)
        spec = gen_molecule_spec(random.Random(seed), ctx.thorough)
        spec.pop("second_pass", None) if rng.random() < 0.5 else None
        for res in spec["residues"]:
            roll = rng.random()
            names = list(res["atom_names"])
            if roll < 0.4:
                extra = list(names)                      # every name twice: the centre is still the residue position
            elif roll < 0.7:
                extra = [rng.choice(names) for _ in range(rng.randint(1, 2))]
            else:
                continue
            rng.shuffle(extra)
            where = rng.choice(["end", "mixed"])
            res["atom_names"] = names + extra
            if where == "mixed":
                # keep the atoms the bonds refer to at their indices, shuffle only the tail in
                tail = res["atom_names"][len(names):]
                rng.shuffle(tail)
                res["atom_names"] = names + tail
        out.append(dict(stream="backmap", spec=spec, np_seed=seed % 100000, repeated_names=True,
                        probe=sorted(s for s in FINDING_SHAPES if enabled(s))))
    return out


def gen_backmap_dtype(ctx):
    """the residue positions as arrays of another dtype than float64 (int64 — as polyply's own backmapping test hands
    them in —, float32, int32): the atom coordinates are real numbers whatever the dtype of the residue position.
    Own generator."""
    import random
    rng = random.Random(("pos-dtype", ctx.seed, ctx.pid).__repr__())
    out = []
    for _ in range(ctx.budget(40, 600)):
        seed = rng.randint(0, 10 ** 9)
        spec = gen_molecule_spec(random.Random(seed), ctx.thorough)
        spec["pos_dtype"] = rng.choice(["int64", "int64", "int32", "float32"])
        if spec["pos_dtype"].startswith("int"):
            for res in spec["residues"]:
                res["pos"] = [float(int(round(x))) for x in res["pos"]]
            if "second_pass" in spec:
                spec["second_pass"] = [[float(int(round(x))) for x in p] for p in spec["second_pass"]]
        out.append(dict(stream="backmap", spec=spec, np_seed=seed % 100000, pos_dtype=spec["pos_dtype"],
                        probe=sorted(s for s in FINDING_SHAPES if enabled(s))))
    return out


def gen_pipeline(ctx):
    rng = ctx.rng
    if not os.path.exists(os.path.join(common.HERE, "c15.py")):
        return []
    return [dict(stream="pipeline", seed=rng.randint(0, 10 ** 9), fudge=rng.choice(FUDGES))
            for _ in range(ctx.budget(6, 300))]


def corpus_cases():
    path = os.path.join(common.VERIF, "corpus", "C06")
    out = []
    if os.path.isdir(path):
        for name in sorted(os.listdir(path)):
            data = json.load(open(os.path.join(path, name)))
            out.append(data.get("input", data))
    return out


def run_cases(ctx, replays):
    global _OVERRIDE  # pylint: disable=global-statement
    reqs, judges = [], []
    for replay in replays:
        _OVERRIDE = set(replay["probe"]) if "probe" in replay else None
        try:
            r, judge = make_case(ctx, replay)
        finally:
            _OVERRIDE = None
        reqs_start = len(reqs)
        reqs += r
        judges.append((judge, reqs_start, len(reqs)))
    answers = ctx.driver.ask(reqs)
    for judge, lo, hi in judges:
        judge(answers[lo:hi])


def shrink(ctx):
    """minimise the first failing backmap input of every shape: one residue of the molecule alone (no bonds);
    the smaller input replaces the reported one only if it fails with the same shape"""
    import copy
    first = {}
    for fail in ctx.failures:
        first.setdefault(fail["shape"], fail)
    cands = []
    for shape, fail in first.items():
        rep = fail["replay"]
        if not isinstance(rep, dict) or rep.get("stream") != "backmap" or len(rep["spec"]["residues"]) < 2:
            continue
        for idx, res in enumerate(rep["spec"]["residues"]):
            for keep in ([idx], [j for j, other in enumerate(rep["spec"]["residues"])
                                 if j == idx or other["resid"] == res["resid"]]):
                small = copy.deepcopy(rep["spec"])
                small["residues"] = [copy.deepcopy(rep["spec"]["residues"][j]) for j in keep]
                small["bonds"] = []
                cand = dict(stream="backmap", spec=small, np_seed=rep["np_seed"])
                if cand not in cands:
                    cands.append(cand)
    if not cands:
        return
    tmp = common.Ctx(ctx.pid, ctx.tier, ctx.seed)
    tmp.driver = ctx.driver
    try:
        run_cases(tmp, cands[:60])
    except Exception:  # pylint: disable=broad-except
        return
    for shape, fail in first.items():
        smaller = [f for f in tmp.failures if f["shape"] == shape]
        if smaller:
            best = min(smaller, key=lambda f: len(json.dumps(f["replay"])))
            original = len(fail["replay"]["spec"]["residues"])
            fail["replay"] = best["replay"]
            fail["what"] = best["what"] + "  [minimised from a %d-residue molecule]" % original


def run(ctx):
    ctx.extra["rule"] = RULE
    ctx.extra["trusted"] = [
        "IEEE double arithmetic and np.sin/np.cos (c^2+s^2=1 only to rounding; model = exact rationals, compared at 1e-9)",
        "scipy.optimize.minimize(L-BFGS-B) in orient_template: modelled as an arbitrary angle oracle",
        "vermouth make_residue_graph (builds the residue fragments the placement iterates over)",
    ]
    ctx.assumptions += [
        "partial: sin^2+cos^2=1 holds only to rounding in doubles; oracle tolerance 1e-6",
        "the optimiser (L-BFGS-B, random start angles) is an ORACLE: theorems hold for every angle triple, the "
        "check reads the angles it returned by interposing on backmap.rotate_xyz",
        "backmapping factor f > 0 for the sign of signed volumes (f^3 scaling is proved for every f)",
        "documented findings kept out of the default stream until listed in known_findings.txt: "
        + ", ".join(s for s in FINDING_SHAPES if not enabled(s)),
    ]
    ctx.extra["explanation"] = ("correspondence: rotate_xyz and _place_init_coords vs the Lean model on exact "
                                "rationals (1e-9); oracle: Lean spec (centre, rigid by own atom name, handedness) on "
                                "the coordinates the real Backmap wrote (1e-6)")
    replays = corpus_cases() + gen_rotate(ctx) + gen_backmap(ctx) + gen_pipeline(ctx)
    run_cases(ctx, replays)
    run_cases(ctx, gen_objective(ctx))
    run_cases(ctx, gen_backmap_repeated(ctx))
    run_cases(ctx, gen_backmap_dtype(ctx))
    if ctx.failures:
        shrink(ctx)


def replay(ctx, data):
    if data.get("kind") == "no-failing-input-found":
        print("replay names obligations that no longer check:")
        for item in data.get("no_longer_checks", []):
            print("  ", item["name"], "-", item["detail"][:300])
        inputs = [i["input"] for i in data.get("no_longer_checks", []) if i.get("input")]
    else:
        inputs = [data.get("input") or {}]
    run_cases(ctx, inputs)
    for b in ctx.broken:
        print("REPLAY-DISAGREES", b["name"], b["detail"][:400])
