#!/usr/bin/env python3
"""Translator: parse the CURRENT /repo sources with `ast` (no import, no execution) and emit
lean/PolyplyVerif/Generated/Tables.lean.  Theorems over these tables are therefore re-checked by the
Lean kernel against what the code says now.  If an anchor is not found the translator fails loudly
(TranslatorError -> exit 2 of the check); it never guesses.

Every table is additionally cross-validated against the live module object by `validate_live()`
(the translator is in the trusted base; this keeps it honest).
"""
import ast
import os
import sys

REPO = os.environ.get("POLYPLY_REPO", "/repo")
HERE = os.path.dirname(os.path.abspath(__file__))
GEN_DIR = os.path.join(os.path.dirname(HERE), "lean", "PolyplyVerif", "Generated")


class TranslatorError(Exception):
    pass


def src(rel):
    path = os.path.join(REPO, "polyply", "src", rel)
    with open(path) as handle:
        return ast.parse(handle.read(), filename=path)


def module_assign(tree, name):
    for node in tree.body:
        if isinstance(node, ast.Assign):
            for target in node.targets:
                if isinstance(target, ast.Name) and target.id == name:
                    return node.value
    raise TranslatorError("anchor not found: module-level assignment %s" % name)


def find_func(tree, name, cls=None):
    for node in ast.walk(tree):
        if cls is not None:
            if isinstance(node, ast.ClassDef) and node.name == cls:
                for sub in node.body:
                    if isinstance(sub, (ast.FunctionDef,)) and sub.name == name:
                        return sub
        elif isinstance(node, ast.FunctionDef) and node.name == name:
            return node
    raise TranslatorError("anchor not found: function %s%s" % ((cls + ".") if cls else "", name))


def local_assign(func, name):
    for node in ast.walk(func):
        if isinstance(node, ast.Assign):
            for target in node.targets:
                if isinstance(target, ast.Name) and target.id == name:
                    return node.value
    raise TranslatorError("anchor not found: assignment %s in %s" % (name, func.name))


def lit(node):
    try:
        return ast.literal_eval(node)
    except Exception as exc:  # pylint: disable=broad-except
        raise TranslatorError("anchor is not a literal: %s" % ast.dump(node)[:200]) from exc


def kw_default(func, name):
    args = func.args
    pos = args.args
    defaults = args.defaults
    off = len(pos) - len(defaults)
    for i, arg in enumerate(pos):
        if arg.arg == name and i >= off:
            return lit(defaults[i - off])
    for arg, dflt in zip(args.kwonlyargs, args.kw_defaults):
        if arg.arg == name and dflt is not None:
            return lit(dflt)
    raise TranslatorError("anchor not found: default of %s in %s" % (name, func.name))


# --------------------------------------------------------------------------- emission helpers

def lstr(text):
    out = text.replace("\\", "\\\\").replace('"', '\\"')
    return '"' + out + '"'


def lean_value(val):
    """Python literal -> Lean term: bool, int, str, Fraction-free; tuple -> product, list -> List,
    None -> none, ('some', x) not needed: use opt()."""
    if val is None:
        return "none"
    if isinstance(val, bool):
        return "true" if val else "false"
    if isinstance(val, int):
        return str(val) if val >= 0 else "(%d)" % val
    if isinstance(val, str):
        return lstr(val)
    if isinstance(val, Some):
        return "(some %s)" % lean_value(val.val)
    if isinstance(val, tuple):
        return "(" + ", ".join(lean_value(v) for v in val) + ")"
    if isinstance(val, list):
        return "[" + ", ".join(lean_value(v) for v in val) + "]"
    raise TranslatorError("cannot emit %r" % (val,))


class Some:  # pylint: disable=too-few-public-methods
    def __init__(self, val):
        self.val = val


def rat_literal(text):
    """A decimal literal as written in the source ('0.1', '1.6605410', '5000') -> Lean Rat term,
    exact (no float round trip)."""
    from fractions import Fraction
    frac = Fraction(text)
    return "((%d : Rat) / %d)" % (frac.numerator, frac.denominator)


# --------------------------------------------------------------------------- driver

def _providers():
    import importlib
    sys.path.insert(0, HERE)
    names = sorted(f[:-3] for f in os.listdir(os.path.join(HERE, "tables"))
                   if f.endswith(".py") and not f.startswith("_"))
    return [importlib.import_module("tables." + n) for n in names]


def write_if_changed(path, text):
    old = None
    if os.path.exists(path):
        with open(path) as handle:
            old = handle.read()
    if old != text:
        os.makedirs(os.path.dirname(path), exist_ok=True)
        tmp = path + ".tmp.%d" % os.getpid()
        with open(tmp, "w") as handle:
            handle.write(text)
        os.replace(tmp, path)
    return old != text


def generate():
    """Regenerate every Generated/*.lean from the current sources; files are rewritten only when their
    content changed (keeps lake incremental).  Returns (changed-files, {provider: table-dict}).
    A provider whose anchor is missing does not stop the others: its error is recorded in ERRORS
    ({LEAN_FILE: message}), its previously generated file (if any) is left in place so that the models
    still build, and only the properties that import that file get a failed translator obligation."""
    changed, tabs = [], {}
    ERRORS.clear()
    for prov in _providers():
        name = prov.__name__.split(".")[-1]
        try:
            tab = prov.extract()
            text = ("-- GENERATED by harness/gen_tables.py (provider tables/%s.py) from the current /repo "
                    "sources. DO NOT EDIT.\n" % name) + prov.emit(tab)
        except TranslatorError as err:
            ERRORS[prov.LEAN_FILE] = "%s: %s" % (name, err)
            # keep the models buildable (for the failing-input search): fall back to the file last generated
            # for /repo itself when this directory has none
            out = os.path.join(GEN_DIR, prov.LEAN_FILE)
            fallback = os.path.join(FALLBACK_DIR, prov.LEAN_FILE) if FALLBACK_DIR else None
            if not os.path.exists(out) and fallback and os.path.exists(fallback):
                import shutil
                os.makedirs(GEN_DIR, exist_ok=True)
                shutil.copyfile(fallback, out)
            continue
        out = os.path.join(GEN_DIR, prov.LEAN_FILE)
        if write_if_changed(out, text):
            changed.append(prov.LEAN_FILE)
        tabs[name] = tab
    return changed, tabs


ERRORS = {}
FALLBACK_DIR = None


def live_module(name):
    """import polyply.src.<name> from the tree under REPO (fallback when a module-level table is no longer a
    literal but still a module attribute, e.g. built by a comprehension)"""
    import importlib
    if REPO not in sys.path:
        sys.path.insert(0, REPO)
    return importlib.import_module("polyply.src." + name)


def module_value(rel, name):
    """value of the module-level name `name` of polyply/src/<rel>: the ast literal if it is one, else the
    attribute of the live module"""
    try:
        return lit(module_assign(src(rel), name))
    except TranslatorError:
        try:
            return getattr(live_module(rel[:-3]), name)
        except Exception as err:  # pylint: disable=broad-except
            raise TranslatorError("anchor not found: %s.%s (neither a literal nor a live attribute: %s)"
                                  % (rel, name, err))


def validate_live(tabs):
    """Cross-check the ast literals with the live module objects. Returns list of problems."""
    if REPO not in sys.path:
        sys.path.insert(0, REPO)
    problems = []
    LIVE_PROBLEMS.clear()
    for prov in _providers():
        name = prov.__name__.split(".")[-1]
        if hasattr(prov, "validate_live") and name in tabs:
            found = prov.validate_live(tabs[name])
            problems += found
            if found:
                LIVE_PROBLEMS[prov.LEAN_FILE] = found
    return problems


LIVE_PROBLEMS = {}


if __name__ == "__main__":
    try:
        changed_, tabs_ = generate()
    except TranslatorError as err:
        print("TRANSLATOR-ERROR:", err)
        sys.exit(2)
    print("generated; rewritten:", changed_)
    for file_, err_ in ERRORS.items():
        print("TRANSLATOR-ERROR:", file_, err_)
    for problem in validate_live(tabs_):
        print("LIVE-MISMATCH:", problem)
