"""C02 — links are applied exactly where their definition matches.

properties.jsonl: "An inter-residue interaction, bond edge or atom-attribute replacement appears in the
generated molecule if and only if a link of the force field matches: residues connected as in the
link's residue pattern, with matching residue names, relative residue order and edge labels, in which
every link atom identifies exactly one atom and no forbidden edge or failing pattern vetoes it; the
interaction then carries the link's parameters on exactly those atoms. If several matches define the
same atoms and version the one from the link defined last wins, and dangling interactions in monomer
.itp files behave as the equivalent next-residue links (present for every window that fits inside the
chain, absent at its end)."

Implementation side: force-field text files (.ff links and blocks, polyply .itp blocks with dangling
interactions) written by `ffgen_c02`, read by the repository's `load_ff_library`; a real `MetaMolecule`;
the real `MapToMolecule.run_molecule` (its result is dumped: the INPUT of the link model) and the real
`ApplyLinks.run_molecule`.  Model side (`Model/Links.lean` through `Driver/C02.lean`):
  * `applyLinks` (mirrors the code)                       -> correspondence stream `applyLinks`
  * `specOutput` with the independent enumeration `specMatches` (RHS of `C02_iff`, the flush condition
    as the PROPERTY states it: atoms only)                 -> oracle on the real output
  * `matchOrder` vs vermouth `match_order` on a grid       -> correspondence stream `matchOrder`
  * `splitDangling` / `tagVersions` vs the real parser     -> correspondence stream `dangling-split`
  * `danglingWindows` (present for every window that fits) -> oracle on linear chains
  * dangling .itp interactions vs the equivalent explicit `+` links, both through the real pipeline
                                                           -> metamorphic oracle `dangling-equivalence`
Modelled, not verified: networkx VF2 (exhaustive enumeration of induced subgraph isomorphisms stands for
it; its enumeration ORDER is not modelled: cases in which two matches of the SAME link write one key with
different values are counted and skipped), vermouth `attributes_match`/`Choice` and the file parsers.
"""
import copy
import json
import os
import random
import tempfile

import common
import ffgen_c02 as G

RULE = ("random force fields (1-3 blocks of 1-4 atoms in .ff or polyply .itp syntax, dangling interactions "
        "spanning +1/+2 residues incl. multi-term dihedrals; 0-4 links of 1-4 residues derived from the residue "
        "graph and perturbed: orders from {0,+n,-n,>,>>,<,<<,*,**}, resname single / A|B choice / absent, extra "
        "atom attributes, atomname choices, replace incl. atomname:null, [edges] with linktype, [non-edges], "
        "[patterns], versions, a repeated link with other parameters) x random connected residue graphs (paths, "
        "trees, one ring; 1-7 residues quick, up to 10 thorough; mixed resnames; labelled edges; resids along the "
        "graph or permuted; shuffled node insertion); a case is non-trivial when at least one link application is "
        "accepted; distinct = distinct abstract case")
WITHHELD_SHAPES = ("link-without-resname-skipped",)


# ------------------------------------------------------------------------------------------ real pipeline

def run_real(case, order=("ff", "itp")):
    """-> (input dump after mapping, canonical output after link application)"""
    from polyply.src.map_to_molecule import MapToMolecule
    from polyply.src.apply_links import ApplyLinks
    with tempfile.TemporaryDirectory() as tmp:
        force_field, meta = G.build(case, tmp, order=order)
    MapToMolecule(force_field).run_molecule(meta)
    inp = G.dump_input(meta)
    ApplyLinks().run_molecule(meta)
    return inp, G.dump_output(meta), meta


def canon_model(out):
    return dict(atoms=sorted([a[0], sorted(a[1])] for a in out["atoms"]),
                edges=sorted(sorted(e) for e in out["edges"]),
                ixns=sorted([i[0], i[1], i[2], i[3], sorted(i[4])] for i in out["ixns"]))


def drop_resid(atoms):
    return [[key, [kv for kv in attrs if kv[0] != "resid"]] for key, attrs in atoms]


def compare_with_spec(impl, spec, removed):
    """differences between the real output and a specification output, as (shape, text) pairs"""
    impl_ix = {(i[0], tuple(i[1]), i[2]): (i[3], i[4]) for i in impl["ixns"]}
    spec_ix = {(i[0], tuple(i[1]), i[2]): (i[3], i[4]) for i in spec["ixns"]}
    failures = []
    for key in sorted(set(spec_ix) - set(impl_ix)):
        if removed and key[2] in removed and not any(a in removed for a in key[1]):
            failures.append(("removed-atom-key-equals-version",
                             "interaction %s %s (version %d) is missing although none of its atoms was removed: a link "
                             "removed the atom with node key %d, which equals the version number" % (key[0], list(key[1]), key[2], key[2])))
        else:
            failures.append(("link-interaction-missing", "interaction %s %s version %d with parameters %s is required by a "
                             "matching link (or block) but absent" % (key[0], list(key[1]), key[2], spec_ix[key][0])))
    for key in sorted(set(impl_ix) - set(spec_ix)):
        failures.append(("interaction-without-matching-link", "interaction %s %s version %d %s is present but no block or "
                         "matching link defines it" % (key[0], list(key[1]), key[2], impl_ix[key][0])))
    for key in sorted(set(impl_ix) & set(spec_ix)):
        if impl_ix[key] != spec_ix[key]:
            failures.append(("wrong-parameters", "interaction %s %s version %d carries %s, the last matching definition says %s"
                             % (key[0], list(key[1]), key[2], impl_ix[key], spec_ix[key])))
    if impl["edges"] != spec["edges"]:
        extra = [e for e in impl["edges"] if e not in spec["edges"]]
        missing = [e for e in spec["edges"] if e not in impl["edges"]]
        failures.append(("edge-mismatch", "bond edges differ from those of block + matching links: extra %s missing %s" % (extra, missing)))
    a_impl = drop_resid(impl["atoms"]) if removed else impl["atoms"]
    a_spec = drop_resid(spec["atoms"]) if removed else spec["atoms"]
    if a_impl != a_spec:
        diff = [(x, y) for x, y in zip(a_impl, a_spec) if x != y][:3]
        failures.append(("attribute-mismatch", "atom attributes differ from block attributes + replacements of matching "
                         "links (atoms present: %d, expected %d): %s" % (len(a_impl), len(a_spec), diff)))
    return failures


# ------------------------------------------------------------------------------------------ main stream

def judge_main(ctx, case, inp, impl, apply_ans, spec_ans, known_shapes, stream="main"):
    replay = dict(stream=stream, case=case)
    if not apply_ans.get("ok") or not spec_ans.get("ok"):
        ctx.tally(model_rejects=(apply_ans.get("err") or spec_ans.get("err") or "?")[:60])
        ctx.case(None)
        return
    collisions = apply_ans["collisions"]
    nevents = apply_ans["nevents"]
    if collisions:
        # the result depends on the order in which VF2 enumerates the matches of one link: not modelled
        ctx.tally(order_dependent_cases_skipped=True)
        ctx.case(None, syntax=case_syntax(case))
        return
    model = canon_model(apply_ans["out"])
    if "out_prefilter" in spec_ans and canon_model(spec_ans["out_prefilter"]) != model:
        # two Lean evaluations of the same input that differ only in the ORDER in which the matches of a link are
        # visited (resMatches vs specMatches; C02_matches_iff proves they are the same set): the input's result depends
        # on that order (e.g. a `replace` of one match decides a `[ patterns ]` veto of another match of the same link)
        ctx.tally(order_dependent_cases_skipped=True)
        ctx.case(None, syntax=case_syntax(case))
        return
    ctx.correspond("applyLinks", impl, model, replay)
    ctx.traces += 1
    removed = apply_ans["out"]["removed"]
    # ---- oracle: the property's statement on the real output.  Two readings of "a link of the force field":
    # `out` = every link (the property); `out_prefilter` = the links the code's residue-name pre-filter keeps.
    # They differ only when a link has no residue name at all (shape link-without-resname-skipped).
    failures = compare_with_spec(impl, canon_model(spec_ans["out"]), removed)
    if failures and "out_prefilter" in spec_ans:
        narrowed = compare_with_spec(impl, canon_model(spec_ans["out_prefilter"]), removed)
        no_resname = any(not any(k == "resname" for atom in link["atoms"] for k, _t in atom["attrs"]) for link in inp["links"])
        if not narrowed and no_resname:
            failures = [("link-without-resname-skipped", "a link none of whose atoms names a residue matches (pattern, orders, atoms) "
                         "but is never considered by the code; first consequence: " + failures[0][1])]
        elif narrowed:
            failures = narrowed
    seen = set()
    for shape, what in failures:
        if shape in seen:
            continue
        seen.add(shape)
        if shape in WITHHELD_SHAPES and shape not in known_shapes:
            ctx.tally(withheld_shape=shape)
            continue
        ctx.oracle_fail(shape, what + " | graph=%s" % (case["graph"],), replay)
    key = json.dumps(case, sort_keys=True) if nevents >= 1 else None
    nres = len(case["graph"]["nodes"])
    ctx.case(key, sample=dict(graph=case["graph"], nlinks=len(inp["links"]), accepted=nevents,
                              interactions=len(impl["ixns"])),
             syntax=case_syntax(case), nres=("1" if nres == 1 else "2-4" if nres <= 4 else "5-7" if nres <= 7 else "8+"),
             accepted=("0" if nevents == 0 else "1-3" if nevents <= 3 else "4+"),
             removal=bool(removed), nlinks=min(len(inp["links"]), 6))
    feats = set()
    for link in inp["links"]:
        for atom in link["atoms"]:
            feats.add("order-" + atom["order"][0])
            if atom["removes"]:
                feats.add("replace-null")
            elif atom["replace"]:
                feats.add("replace")
            for _k, tmpl in atom["attrs"]:
                if "choice" in tmpl:
                    feats.add("choice")
        if link["nonedges"]:
            feats.add("non-edges")
        if link["patterns"]:
            feats.add("patterns")
        if any(e[2] is not None for e in link["edges"]):
            feats.add("linktype")
        if any(i["version"] != 1 for i in link["ixns"]):
            feats.add("version")
    for feat in feats:
        ctx.tally(feature=feat)


def case_syntax(case):
    kinds = {b.get("syntax", "ff") for b in case["blocks"]}
    return "mixed" if len(kinds) > 1 else kinds.pop()


def run_main(ctx, cases, known_shapes, stream="main"):
    done = []
    for case in cases:
        try:
            inp, impl, _meta = run_real(case)
        except G.Unsupported as err:
            ctx.tally(unsupported=str(err)[:40])
            continue
        except Exception as err:  # pylint: disable=broad-except
            # the generator only writes valid force fields (the unchanged tree reads and applies all of them):
            # a crash of parser / mapping / link application means no link of this input is applied at all
            ctx.oracle_fail("pipeline-raises", "load_ff_library / MapToMolecule / ApplyLinks raised %s: %s on a valid force "
                            "field and residue graph %s" % (type(err).__name__, str(err)[:200], case["graph"]),
                            dict(stream=stream, case=case))
            ctx.tally(real_code_raised=type(err).__name__)
            continue
        done.append((case, inp, impl))
    reqs = [dict(op="apply", input=inp) for _c, inp, _o in done] + [dict(op="spec", input=inp) for _c, inp, _o in done]
    answers = ctx.driver.ask(reqs) if reqs else []
    n = len(done)
    for idx, (case, inp, impl) in enumerate(done):
        judge_main(ctx, case, inp, impl, answers[idx], answers[n + idx], known_shapes, stream=stream)


# ------------------------------------------------------------------------------------------ match_order

def run_match_order(ctx):
    from vermouth.processors.do_links import match_order
    tokens = [0, 1, 2, -1, -2, ">", ">>", "<", "<<", "*", "**"]
    resids = [1, 2, 3, 5]
    combos = [(o1, r1, o2, r2) for o1 in tokens for o2 in tokens for r1 in resids for r2 in resids]
    reqs = [dict(op="order", o1=G.enc_order(o1), r1=r1, o2=G.enc_order(o2), r2=r2) for o1, r1, o2, r2 in combos]
    answers = ctx.driver.ask(reqs)
    impl = [bool(match_order(o1, r1, o2, r2)) for o1, r1, o2, r2 in combos]
    model = [a.get("match") for a in answers]
    bad = [c for c, i, m in zip(combos, impl, model) if i != m][:5]
    ctx.correspond("matchOrder", impl, model, dict(stream="matchOrder", first_differences=bad))
    ctx.tally(match_order_grid=len(combos))


# ------------------------------------------------------------------------------------------ dangling

def flat_ixns(block):
    return [[sec, list(atoms), list(params)] for sec, atoms, params, _meta in block["ixns"]]


def real_split(case, block_name):
    """parse with the real polyply parser -> (links as dumped by the code, kept block interactions)"""
    with tempfile.TemporaryDirectory() as tmp:
        force_field, _meta = G.build(case, tmp)
    block = force_field.blocks[block_name]
    names = [block.nodes[n]["atomname"] for n in block.nodes]
    links = []
    for link in force_field.links:
        atoms = []
        for key in link.nodes:
            attrs = dict(link.nodes[key])
            order = attrs.pop("order")
            src = [n for n in block.nodes if dict(block.nodes[n]) == attrs]
            atoms.append([str(key), int(order), (int(src[0]) if len(src) == 1 else -1)])
        ixns, tagged = [], []
        for section, lst in link.interactions.items():
            for ixn in lst:
                ixns.append([section, [str(a) for a in ixn.atoms], [str(p) for p in ixn.parameters]])
                tagged.append([section, [str(a) for a in ixn.atoms], int(ixn.meta.get("version", -1)), [str(p) for p in ixn.parameters]])
        links.append(dict(atoms=atoms, ixns=ixns, tagged=tagged))
    kept = []
    for section, lst in block.interactions.items():
        for ixn in lst:
            kept.append([section, [int(a) for a in ixn.atoms], [str(p) for p in ixn.parameters]])
    return names, links, kept


def equivalent_links(block):
    """the explicit `+` links a block's dangling interactions stand for (one link per run on equal atoms)"""
    n = len(block["atoms"])
    links, prev = [], None
    for section, atoms, params, _meta in block["ixns"]:
        if not any(a >= n for a in atoms):
            continue
        if atoms != prev:
            links.append(dict(atoms=[], ixns=[], edges=[], nonedges=[], patterns=[]))
            prev = atoms
        link = links[-1]
        keys = []
        for a in atoms:
            atom = block["atoms"][a % n]
            key = "+" * (a // n) + atom["name"]
            keys.append(key)
            if key not in [k for k, _ in link["atoms"]]:
                link["atoms"].append([key, {"resname": block["name"], "atype": atom["atype"]}])
        link["ixns"].append([section, keys, list(params), {}])
    return links


def gen_dangling_item(ctx):
    rng = ctx.rng
    block = G.gen_blocks(rng, 1, "itp", dangling=True, max_atoms=4)[0]
    other = G.gen_blocks(rng, 2, "itp", dangling=False, max_atoms=3)[1]      # a second block named B without dangling
    nres = rng.randint(1, ctx.budget(7, 12))
    chain = dict(nodes=[[i, i + 1, block["name"]] for i in range(nres)], edges=[[i, i + 1, None] for i in range(nres - 1)])
    mixed = G.gen_graph(rng, rng.randint(2, ctx.budget(6, 9)), [block["name"], block["name"], other["name"]])
    return dict(stream="dangling", block=block, other=other, chain=chain, mixed=mixed)


def run_dangling_items(ctx, items):
    reqs, todo = [], []
    for replay in items:
        block, other, chain, mixed = replay["block"], replay["other"], replay["chain"], replay["mixed"]
        case = dict(blocks=[block], links=[], graph=chain)
        try:
            names, links, kept = real_split(case, block["name"])
            _inp, out_chain, _ = run_real(case)
            explicit_blocks = [dict(copy.deepcopy(block), ixns=[x for x in block["ixns"] if not any(a >= len(block["atoms"]) for a in x[1])])]
            out_mixed_a = run_real(dict(blocks=[block, other], links=[], graph=mixed))[1]
            out_mixed_b = run_real(dict(blocks=explicit_blocks + [other], links=equivalent_links(block), graph=mixed))[1]
            out_chain_b = run_real(dict(blocks=explicit_blocks, links=equivalent_links(block), graph=chain))[1]
        except Exception as err:  # pylint: disable=broad-except
            ctx.oracle_fail("pipeline-raises", "polyply .itp block with dangling interactions: parser / pipeline raised %s: %s"
                            % (type(err).__name__, str(err)[:200]), replay)
            ctx.tally(dangling_real_code_raised=type(err).__name__)
            continue
        reqs.append(dict(op="dangling", names=names, ixns=flat_ixns(block)))
        reqs.append(dict(op="windows", n=len(block["atoms"]), nres=len(chain["nodes"]), ixns=flat_ixns(block)))
        todo.append((replay, links, kept, out_chain, out_chain_b, out_mixed_a, out_mixed_b))
    answers = ctx.driver.ask(reqs) if reqs else []
    for idx, (replay, links, kept, out_chain, out_chain_b, out_mixed_a, out_mixed_b) in enumerate(todo):
        block, chain = replay["block"], replay["chain"]
        split, windows = answers[2 * idx], answers[2 * idx + 1]
        model_links = [dict(atoms=l["atoms"], ixns=l["ixns"], tagged=l["tagged"]) for l in split["links"]]
        ctx.correspond("dangling-split", dict(links=links, kept=kept), dict(links=model_links, kept=split["kept"]), replay)
        n = len(block["atoms"])
        # windows oracle: every dangling interaction at every residue where it fits, nowhere else
        expected = sorted([sec, atoms, params] for sec, atoms, params in windows["expected"])
        inter_res = sorted([i[0], i[1], i[3]] for i in out_chain["ixns"] if len({a // n for a in i[1]}) > 1)
        if inter_res != expected:
            missing = [x for x in expected if x not in inter_res][:3]
            extra = [x for x in inter_res if x not in expected][:3]
            ctx.oracle_fail("dangling-window", "chain of %d residues of a %d-atom block: dangling interactions are not "
                            "present exactly at the windows that fit: missing %s extra %s" % (len(chain["nodes"]), n, missing, extra), replay)
        # equivalence with the explicit + links (same real pipeline)
        for tag, a, b in (("chain", out_chain, out_chain_b), ("mixed", out_mixed_a, out_mixed_b)):
            # the explicit blocks are written in the same syntax, so atoms / edges / interactions must coincide
            if a["ixns"] != b["ixns"] or a["edges"] != b["edges"]:
                da = [x for x in a["ixns"] if x not in b["ixns"]][:3]
                db = [x for x in b["ixns"] if x not in a["ixns"]][:3]
                ctx.oracle_fail("dangling-not-equivalent", "dangling .itp interactions and the equivalent explicit + links "
                                "give different molecules on the %s graph: only-dangling %s only-explicit %s edges %s vs %s"
                                % (tag, da, db, [e for e in a["edges"] if e not in b["edges"]][:3], [e for e in b["edges"] if e not in a["edges"]][:3]), replay)
        nd = sum(1 for x in block["ixns"] if any(a >= n for a in x[1]))
        ctx.case(("dangling", json.dumps(replay, sort_keys=True)) if nd and len(chain["nodes"]) >= 2 else None,
                 stream="dangling", dangling_links=min(len(links), 4), chain=("1" if len(chain["nodes"]) == 1 else "2-3" if len(chain["nodes"]) <= 3 else "4+"))
        ctx.traces += 1


def run_dangling(ctx, count):
    run_dangling_items(ctx, [gen_dangling_item(ctx) for _ in range(count)])


# ------------------------------------------------------------------------------------------ entry points

def known_shapes_for(pid):
    return {k["shape"] for k in common.load_known_findings() if k["property"] == pid}


def corpus_cases():
    path = os.path.join(common.VERIF, "corpus", "C02")
    out = []
    if os.path.isdir(path):
        for name in sorted(os.listdir(path)):
            data = json.load(open(os.path.join(path, name)))
            inp = data.get("input", data)
            if inp.get("stream", "main") == "main" and "case" in inp:
                out.append(inp["case"])
    return out


def small_exhaustive_cases(known=()):
    """every order token against every small chain shape, one block, one two-residue link"""
    cases = []
    block = dict(name="A", nrexcl=1, syntax="ff", atoms=[dict(name="BB", atype="P1", cg=1), dict(name="SC1", atype="P2", cg=1)],
                 ixns=[["bonds", [0, 1], ["1", "0.3", "100"], {}]])
    for prefix in ["+", "++", "-", ">", ">>", "<", "*"]:
        for resids in ([1, 2, 3], [3, 2, 1], [2, 3, 1]):
            link = dict(atoms=[["BB", {"resname": "A"}], [prefix + "BB", {"resname": "A"}]],
                        ixns=[["bonds", ["BB", prefix + "BB"], ["1", "0.4", "200"], {}]], edges=[], nonedges=[], patterns=[])
            graph = dict(nodes=[[i, resids[i], "A"] for i in range(3)], edges=[[0, 1, None], [1, 2, None]])
            cases.append(dict(blocks=[copy.deepcopy(block)], links=[link], graph=graph))
    if "link-without-resname-skipped" in known:
        # the listed finding, deterministically: a next-residue link none of whose atoms names a residue
        link = dict(atoms=[["SC1", {}], ["+BB", {}]], ixns=[["bonds", ["SC1", "+BB"], ["1", "0.4", "200"], {}]],
                    edges=[], nonedges=[], patterns=[])
        graph = dict(nodes=[[i, i + 1, "A"] for i in range(3)], edges=[[0, 1, None], [1, 2, None]])
        cases.append(dict(blocks=[copy.deepcopy(block)], links=[link], graph=graph, allow_no_resname=True))
    return cases


def run(ctx):
    ctx.extra["rule"] = RULE
    ctx.extra["trusted"] = [
        "networkx GraphMatcher.subgraph_isomorphisms_iter (VF2): modelled by exhaustive enumeration of induced "
        "subgraph isomorphisms; its enumeration order is not modelled",
        "vermouth attributes_match / Choice / match_order / make_residue_graph / .ff and .itp parsers (modelled, tied "
        "by the correspondence)",
    ]
    ctx.assumptions += [
        "attribute values are compared as tokens: the generator produces strings (and block floats on both sides)",
        "non-edge targets carry numeric orders (a non-numeric one makes vermouth raise TypeError); every link atom has an order",
        "no by_atom_id links, no parameter effectors, replace never edits resid/resname",
        "cases whose result depends on the VF2 enumeration order among matches of ONE link are skipped and counted "
        "(input_distribution: order_dependent_cases_skipped)",
    ]
    ctx.extra["explanation"] = ("oracle = Links.specOutput (RHS of C02_iff with the independent enumeration specMatches and the "
                                "property's flush condition) evaluated by the Lean driver on the mapped molecule, compared with "
                                "the real ApplyLinks output")
    known = known_shapes_for("C02")
    run_match_order(ctx)
    rng = ctx.rng
    cases = corpus_cases() + small_exhaustive_cases(known)
    count = ctx.budget(500, 6000)
    max_res = ctx.budget(7, 10)
    for _ in range(count):
        cases.append(G.gen_case(rng, max_res=max_res,
                                allow_no_resname=("link-without-resname-skipped" in known and rng.random() < 0.2)))
    # in chunks, so that a driver request stays small
    for start in range(0, len(cases), 400):
        run_main(ctx, cases[start:start + 400], known)
    run_dangling(ctx, ctx.budget(60, 600))


def replay(ctx, data):
    inp = data.get("input") or {}
    known = known_shapes_for("C02")
    items = [inp] if inp else [i["input"] for i in data.get("no_longer_checks", []) if i.get("input")]
    for item in items:
        if item.get("stream") == "main" or "case" in item:
            run_main(ctx, [item["case"]], set(WITHHELD_SHAPES) | known)
        elif item.get("stream") == "matchOrder":
            run_match_order(ctx)
        elif item.get("stream") == "dangling":
            run_dangling_items(ctx, [item])
    for b in ctx.broken:
        print("REPLAY-DISAGREES", b["name"], b["detail"][:600])
