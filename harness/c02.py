"""C02 — links are applied exactly where their definition matches.

properties.jsonl: "An inter-residue interaction, bond edge or atom-attribute replacement appears in the
generated molecule if and only if a link of the force field matches: residues connected as in the
link's residue pattern, with matching residue names, relative residue order and edge labels, in which
every link atom identifies exactly one atom and no forbidden edge or failing pattern vetoes it; the
interaction then carries the link's parameters on exactly those atoms. If several matches define the
same atoms and version the one from the link defined last wins, and dangling interactions in monomer
.itp files behave as the equivalent next-residue links (present for every window that fits inside the
chain, absent at its end)."

Implementation side: force-field text files (.ff links and blocks, polyply .itp blocks with dangling
interactions) written by `ffgen_c02`, read by the repository's `load_ff_library`; a real `MetaMolecule`;
the real `MapToMolecule.run_molecule` (its result is dumped: the INPUT of the link model) and the real
`ApplyLinks.run_molecule`.  Model side (`Model/Links.lean` through `Driver/C02.lean`):
  * `applyLinks` (mirrors the code)                       -> correspondence stream `applyLinks`
  * `specOutput` with the independent enumeration `specMatches` (RHS of `C02_iff`, the flush condition
    as the PROPERTY states it: atoms only)                 -> oracle on the real output
  * `matchOrder` vs vermouth `match_order`, exhaustive on a grid with every kind of token and every resid
    difference -4..4                                       -> correspondence stream `matchOrder`
  * `checkRelativeOrderPy` vs the repository's `_check_relative_order`, exhaustive over all tuples of 1-3
    tokens (repeats included) x resids {1,2,3}             -> correspondence stream `checkRelativeOrder` + oracle
  * `parseEdgesNew` vs the repository's `_parse_edges_new` ([ edges ] lines with edge attributes), exhaustive
    over a grid of lines x block/link/modification x edges/non-edges -> correspondence stream `parseEdgesNew`
  * the same force field with every link definition respelled (sections in another order, atom attributes inline)
    through the real parsers and pipeline -> metamorphic oracle `link-definition-depends-on-spelling`
  * every link shape on <= 3 residues x every residue graph on <= 4 nodes through the real pipeline (what VF2
    returns vs the model's and the specification's enumeration) -> stream `vf2-exhaustive` (applyLinks + oracle)
  * `splitDangling` / `tagVersions` vs the real parser     -> correspondence stream `dangling-split`
  * `danglingWindows` (present for every window that fits) -> oracle on linear chains
  * dangling .itp interactions vs the equivalent explicit `+` links, both through the real pipeline
                                                           -> metamorphic oracle `dangling-equivalence`
  * `applyExplicit` vs the real `apply_explicit_link` (links that address atoms by NUMBER, `by_atom_id`), on
    real molecules, exhaustive over a small token grid + random -> correspondence stream `explicit-link`,
    oracle `explicit_spec` (loop-free statement); `runMolecule` vs the real `ApplyLinks.run_molecule` with
    such links in the force field file                     -> correspondence stream `explicit-pipeline`
Modelled, not verified: networkx VF2 (exhaustive enumeration of induced subgraph isomorphisms stands for
it; its enumeration ORDER is not modelled: cases in which two matches of the SAME link write one key with
different values are counted and skipped), vermouth `attributes_match`/`Choice` and the file parsers.
"""
import copy
import json
import os
import random
import tempfile

import common
import ffgen_c02 as G

RULE = ("random force fields (1-3 blocks of 1-4 atoms in .ff or polyply .itp syntax, dangling interactions "
        "spanning +1/+2 residues incl. multi-term dihedrals; 0-4 links of 1-4 residues derived from the residue "
        "graph and perturbed: orders from {0,+n,-n,>,>>,<,<<,*,**}, resname single / A|B choice / absent, extra "
        "atom attributes, atomname choices, replace incl. atomname:null, [edges] with linktype, [non-edges], "
        "[patterns], versions, a repeated link with other parameters) x random connected residue graphs (paths, "
        "trees, one ring; 1-7 residues quick, up to 10 thorough; mixed resnames; labelled edges; resids along the "
        "graph or permuted; shuffled node insertion); a case is non-trivial when at least one link application is "
        "accepted; distinct = distinct abstract case")
WITHHELD_SHAPES = ("link-without-resname-skipped",)


# ------------------------------------------------------------------------------------------ real pipeline

def run_real(case, order=("ff", "itp")):
    """-> (input dump after mapping, canonical output after link application)"""
    from polyply.src.map_to_molecule import MapToMolecule
    from polyply.src.apply_links import ApplyLinks
    with tempfile.TemporaryDirectory() as tmp:
        force_field, meta = G.build(case, tmp, order=order)
    MapToMolecule(force_field).run_molecule(meta)
    inp = G.dump_input(meta)
    ApplyLinks().run_molecule(meta)
    return inp, G.dump_output(meta), meta


def canon_model(out):
    return dict(atoms=sorted([a[0], sorted(a[1])] for a in out["atoms"]),
                edges=sorted(sorted(e) for e in out["edges"]),
                ixns=sorted([i[0], i[1], i[2], i[3], sorted(i[4])] for i in out["ixns"]))


def drop_resid(atoms):
    return [[key, [kv for kv in attrs if kv[0] != "resid"]] for key, attrs in atoms]


def compare_with_spec(impl, spec, removed):
    """differences between the real output and a specification output, as (shape, text) pairs"""
    impl_ix = {(i[0], tuple(i[1]), i[2]): (i[3], i[4]) for i in impl["ixns"]}
    spec_ix = {(i[0], tuple(i[1]), i[2]): (i[3], i[4]) for i in spec["ixns"]}
    failures = []
    for key in sorted(set(spec_ix) - set(impl_ix)):
        if removed and key[2] in removed and not any(a in removed for a in key[1]):
            failures.append(("removed-atom-key-equals-version",
                             "interaction %s %s (version %d) is missing although none of its atoms was removed: a link "
                             "removed the atom with node key %d, which equals the version number" % (key[0], list(key[1]), key[2], key[2])))
        else:
            failures.append(("link-interaction-missing", "interaction %s %s version %d with parameters %s is required by a "
                             "matching link (or block) but absent" % (key[0], list(key[1]), key[2], spec_ix[key][0])))
    for key in sorted(set(impl_ix) - set(spec_ix)):
        failures.append(("interaction-without-matching-link", "interaction %s %s version %d %s is present but no block or "
                         "matching link defines it" % (key[0], list(key[1]), key[2], impl_ix[key][0])))
    for key in sorted(set(impl_ix) & set(spec_ix)):
        if impl_ix[key] != spec_ix[key]:
            failures.append(("wrong-parameters", "interaction %s %s version %d carries %s, the last matching definition says %s"
                             % (key[0], list(key[1]), key[2], impl_ix[key], spec_ix[key])))
    if impl["edges"] != spec["edges"]:
        extra = [e for e in impl["edges"] if e not in spec["edges"]]
        missing = [e for e in spec["edges"] if e not in impl["edges"]]
        failures.append(("edge-mismatch", "bond edges differ from those of block + matching links: extra %s missing %s" % (extra, missing)))
    a_impl = drop_resid(impl["atoms"]) if removed else impl["atoms"]
    a_spec = drop_resid(spec["atoms"]) if removed else spec["atoms"]
    if a_impl != a_spec:
        diff = [(x, y) for x, y in zip(a_impl, a_spec) if x != y][:3]
        failures.append(("attribute-mismatch", "atom attributes differ from block attributes + replacements of matching "
                         "links (atoms present: %d, expected %d): %s" % (len(a_impl), len(a_spec), diff)))
    return failures


# ------------------------------------------------------------------------------------------ main stream

def judge_main(ctx, case, inp, impl, apply_ans, spec_ans, known_shapes, stream="main"):
    replay = dict(stream=stream, case=case)
    if not apply_ans.get("ok") or not spec_ans.get("ok"):
        ctx.tally(model_rejects=(apply_ans.get("err") or spec_ans.get("err") or "?")[:60])
        ctx.case(None)
        return
    collisions = apply_ans["collisions"]
    nevents = apply_ans["nevents"]
    if collisions:
        # the result depends on the order in which VF2 enumerates the matches of one link: not modelled
        ctx.tally(order_dependent_cases_skipped=True)
        ctx.case(None, syntax=case_syntax(case))
        return
    model = canon_model(apply_ans["out"])
    if "out_prefilter" in spec_ans and canon_model(spec_ans["out_prefilter"]) != model:
        # two Lean evaluations of the same input that differ only in the ORDER in which the matches of a link are
        # visited (resMatches vs specMatches; C02_matches_iff proves they are the same set): the input's result depends
        # on that order (e.g. a `replace` of one match decides a `[ patterns ]` veto of another match of the same link)
        ctx.tally(order_dependent_cases_skipped=True)
        ctx.case(None, syntax=case_syntax(case))
        return
    ctx.correspond("applyLinks", impl, model, replay)
    ctx.traces += 1
    removed = apply_ans["out"]["removed"]
    # ---- oracle: the property's statement on the real output.  Two readings of "a link of the force field":
    # `out` = every link (the property); `out_prefilter` = the links the code's residue-name pre-filter keeps.
    # They differ only when a link has no residue name at all (shape link-without-resname-skipped).
    failures = compare_with_spec(impl, canon_model(spec_ans["out"]), removed)
    if failures and "out_prefilter" in spec_ans:
        narrowed = compare_with_spec(impl, canon_model(spec_ans["out_prefilter"]), removed)
        no_resname = any(not any(k == "resname" for atom in link["atoms"] for k, _t in atom["attrs"]) for link in inp["links"])
        if not narrowed and no_resname:
            failures = [("link-without-resname-skipped", "a link none of whose atoms names a residue matches (pattern, orders, atoms) "
                         "but is never considered by the code; first consequence: " + failures[0][1])]
        elif narrowed:
            failures = narrowed
    seen = set()
    for shape, what in failures:
        if shape in seen:
            continue
        seen.add(shape)
        if shape in WITHHELD_SHAPES and shape not in known_shapes:
            ctx.tally(withheld_shape=shape)
            continue
        ctx.oracle_fail(shape, what + " | graph=%s" % (case["graph"],), replay)
    key = json.dumps(case, sort_keys=True) if nevents >= 1 else None
    nres = len(case["graph"]["nodes"])
    ctx.case(key, sample=dict(graph=case["graph"], nlinks=len(inp["links"]), accepted=nevents,
                              interactions=len(impl["ixns"])),
             syntax=case_syntax(case), nres=("1" if nres == 1 else "2-4" if nres <= 4 else "5-7" if nres <= 7 else "8+"),
             accepted=("0" if nevents == 0 else "1-3" if nevents <= 3 else "4+"),
             removal=bool(removed), nlinks=min(len(inp["links"]), 6))
    feats = set()
    for link in inp["links"]:
        for atom in link["atoms"]:
            feats.add("order-" + atom["order"][0])
            if atom["removes"]:
                feats.add("replace-null")
            elif atom["replace"]:
                feats.add("replace")
            for _k, tmpl in atom["attrs"]:
                if "choice" in tmpl:
                    feats.add("choice")
        if link["nonedges"]:
            feats.add("non-edges")
        if link["patterns"]:
            feats.add("patterns")
        if any(e[2] is not None for e in link["edges"]):
            feats.add("linktype")
        if any(i["version"] != 1 for i in link["ixns"]):
            feats.add("version")
    for feat in feats:
        ctx.tally(feature=feat)


def case_syntax(case):
    kinds = {b.get("syntax", "ff") for b in case["blocks"]}
    return "mixed" if len(kinds) > 1 else kinds.pop()


def run_main(ctx, cases, known_shapes, stream="main"):
    done = []
    for case in cases:
        try:
            inp, impl, _meta = run_real(case)
        except G.Unsupported as err:
            ctx.tally(unsupported=str(err)[:40])
            continue
        except Exception as err:  # pylint: disable=broad-except
            # the generator only writes valid force fields (the unchanged tree reads and applies all of them):
            # a crash of parser / mapping / link application means no link of this input is applied at all
            ctx.oracle_fail("pipeline-raises", "load_ff_library / MapToMolecule / ApplyLinks raised %s: %s on a valid force "
                            "field and residue graph %s" % (type(err).__name__, str(err)[:200], case["graph"]),
                            dict(stream=stream, case=case))
            ctx.tally(real_code_raised=type(err).__name__)
            continue
        done.append((case, inp, impl))
    reqs = [dict(op="apply", input=inp) for _c, inp, _o in done] + [dict(op="spec", input=inp) for _c, inp, _o in done]
    answers = ctx.driver.ask(reqs) if reqs else []
    n = len(done)
    for idx, (case, inp, impl) in enumerate(done):
        judge_main(ctx, case, inp, impl, answers[idx], answers[n + idx], known_shapes, stream=stream)


# ------------------------------------------------------------------------------------------ match_order

def run_match_order(ctx):
    """EXHAUSTIVE on a grid that contains every kind of order token (integers -3..3, runs of 1-3 `>`, `<`, `*`)
    and every resid difference -4..4: vermouth `match_order` vs `Links.matchOrder`"""
    from vermouth.processors.do_links import match_order
    tokens = [0, 1, 2, 3, -1, -2, -3, ">", ">>", ">>>", "<", "<<", "<<<", "*", "**", "***"]
    resids = [1, 2, 3, 4, 5]
    combos = [(o1, r1, o2, r2) for o1 in tokens for o2 in tokens for r1 in resids for r2 in resids]
    reqs = [dict(op="order", o1=G.enc_order(o1), r1=r1, o2=G.enc_order(o2), r2=r2) for o1, r1, o2, r2 in combos]
    answers = ctx.driver.ask(reqs)
    impl = [bool(match_order(o1, r1, o2, r2)) for o1, r1, o2, r2 in combos]
    model = [a.get("match") for a in answers]
    bad = [c for c, i, m in zip(combos, impl, model) if i != m][:5]
    ctx.correspond("matchOrder", impl, model, dict(stream="matchOrder", first_differences=bad))
    ctx.tally(match_order_exhaustive_grid=len(combos))


def run_check_relative_order(ctx):
    """EXHAUSTIVE: the repository's `_check_relative_order(resids, orders)` vs `Links.checkRelativeOrderPy` on
    every tuple of 1-3 order tokens (repeats included: the dictionary loop) x every resid tuple over {1,2,3};
    oracle: the statement of `C02_check_relative_order` evaluated with vermouth's `match_order`"""
    import itertools
    from polyply.src.apply_links import _check_relative_order
    from vermouth.processors.do_links import match_order
    tokens = [0, 1, -1, 2, ">", ">>", "<", "*", "**"] if ctx.thorough else [0, 1, -1, ">", "<", "*", "**"]
    combos = []
    for size in (1, 2, 3):
        for orders in itertools.product(tokens, repeat=size):
            for resids in itertools.product([1, 2, 3], repeat=size):
                combos.append((list(orders), list(resids)))
    reqs = [dict(op="checkorder", pairs=[[G.enc_order(o), r] for o, r in zip(orders, resids)]) for orders, resids in combos]
    answers = ctx.driver.ask(reqs)
    impl = [bool(_check_relative_order(resids, orders)) for orders, resids in combos]
    model = [a.get("accept") for a in answers]
    bad = [c for c, i, m in zip(combos, impl, model) if i != m][:5]
    ctx.correspond("checkRelativeOrder", impl, model, dict(stream="checkRelativeOrder", first_differences=bad))
    for (orders, resids), got in zip(combos, impl):
        pairs = list(zip(orders, resids))
        want = all(r1 == r2 for (o1, r1) in pairs for (o2, r2) in pairs if o1 == o2) and \
            all(match_order(o1, r1, o2, r2) for (o1, r1) in pairs for (o2, r2) in pairs if o1 != o2)
        if got != want:
            ctx.oracle_fail("relative-order", "_check_relative_order(resids=%s, orders=%s) returns %s; one residue per order "
                            "token and match_order on every pair of different tokens says %s" % (resids, orders, got, want),
                            dict(stream="checkRelativeOrder", orders=orders, resids=resids))
            break
    ctx.tally(check_relative_order_exhaustive=len(combos))


# ------------------------------------------------------------------------------------------ [ edges ] directive

def run_parse_edges(ctx):
    """EXHAUSTIVE: the repository's `_parse_edges_new` on every line `atom1 {attrs1} atom2 {attrs2}` over a grid
    of references / attribute dictionaries x {block, link, modification} context x edges / non-edges, vs
    `Links.parseEdgesNew`; oracle = the statement of `C02_edge_label` for links (an `[ edges ]` line of a link
    labels the edge with the second atom's extra attributes)"""
    import collections
    import vermouth.forcefield
    from vermouth.molecule import Block, Link, Modification
    from vermouth.parser_utils import _tokenize
    from polyply.src.ff_parser_sub import _parse_edges_new
    refs1 = ["BB", "B", "SC1"]
    refs2 = ["SC1", "+BB", "S", ">BB"]
    attrs1 = [None, {"a": 1}, {"atomname": "Q"}, {"resname": "A"}, {"resname": "A", "x": 2}]
    # (an explicit {"order": n} would make vermouth's _treat_atom_prefix rewrite the reference itself: not generated)
    attrs2 = [None, {"linktype": "x"}, {"resname": "A", "linktype": "x"}, {"atomname": "Q", "linktype": "z"}, {"k": 1, "linktype": "y"}]
    contexts = dict(block=["BB", "SC1", "S"], link=[], modification=["B", "S", "SC1"])
    force_field = vermouth.forcefield.ForceField("verif-edges")
    reqs, impl, labels = [], [], []
    for ctype, nodes in contexts.items():
        for negate in (False, True):
            for r1 in refs1:
                for a1 in attrs1:
                    for r2 in refs2:
                        for a2 in attrs2:
                            if ctype == "block":
                                context = Block(force_field=force_field)
                            elif ctype == "link":
                                context = Link()
                            else:
                                context = Modification(force_field=force_field, name="M")
                            context.add_nodes_from(nodes)
                            line = " ".join(x for x in (r1, json.dumps(a1) if a1 else "", r2, json.dumps(a2) if a2 else "") if x)
                            try:
                                _parse_edges_new(collections.deque(_tokenize(line)), context, ctype, negate)
                                edges = list(context.edges(data=True))
                                got = sorted([str(edges[0][0]), str(edges[0][1])]) + [sorted(G.enc_attrs(edges[0][2]))] if len(edges) == 1 else "edges:%d" % len(edges)
                            except IOError:
                                got = "IOError"
                            except KeyError:
                                got = "KeyError"
                            impl.append(got)
                            labels.append((ctype, negate, line))
                            reqs.append(dict(op="parseedges", context=ctype, negate=negate, nodes=nodes,
                                             a=dict(ref=r1, attrs=G.enc_attrs(a1 or {})), b=dict(ref=r2, attrs=G.enc_attrs(a2 or {}))))
                            if ctype == "link" and not negate and got not in ("IOError", "KeyError"):
                                extra = sorted(G.enc_attrs({k: v for k, v in (a2 or {}).items() if k not in ("atomname", "order", "resname")}))
                                if got != sorted([r1, r2]) + [extra]:
                                    ctx.oracle_fail("edge-label", "[ edges ] line `%s` of a link gives %s, expected the edge %s-%s labelled %s"
                                                    % (line, got, r1, r2, extra), dict(stream="parse-edges", line=line))
    answers = ctx.driver.ask(reqs)
    model = []
    for ans in answers:
        res = ans.get("result", "model-rejects")
        model.append(sorted([res[0], res[1]]) + [sorted(res[2])] if isinstance(res, list) else res)      # undirected edge
    bad = [(l, i, m) for l, i, m in zip(labels, impl, model) if i != m][:5]
    ctx.correspond("parseEdgesNew", impl, model, dict(stream="parse-edges", first_differences=bad))
    ctx.tally(parse_edges_exhaustive=len(reqs))


# ------------------------------------------------------------------------------------------ dangling

def flat_ixns(block):
    return [[sec, list(atoms), list(params)] for sec, atoms, params, _meta in block["ixns"]]


def real_split(case, block_name):
    """parse with the real polyply parser -> (links as dumped by the code, kept block interactions)"""
    with tempfile.TemporaryDirectory() as tmp:
        force_field, _meta = G.build(case, tmp)
    block = force_field.blocks[block_name]
    names = [block.nodes[n]["atomname"] for n in block.nodes]
    links = []
    for link in force_field.links:
        atoms = []
        for key in link.nodes:
            attrs = dict(link.nodes[key])
            order = attrs.pop("order")
            src = [n for n in block.nodes if dict(block.nodes[n]) == attrs]
            atoms.append([str(key), int(order), (int(src[0]) if len(src) == 1 else -1)])
        ixns, tagged = [], []
        for section, lst in link.interactions.items():
            for ixn in lst:
                ixns.append([section, [str(a) for a in ixn.atoms], [str(p) for p in ixn.parameters]])
                tagged.append([section, [str(a) for a in ixn.atoms], int(ixn.meta.get("version", -1)), [str(p) for p in ixn.parameters]])
        links.append(dict(atoms=atoms, ixns=ixns, tagged=tagged))
    kept = []
    for section, lst in block.interactions.items():
        for ixn in lst:
            kept.append([section, [int(a) for a in ixn.atoms], [str(p) for p in ixn.parameters]])
    return names, links, kept


def equivalent_links(block):
    """the explicit `+` links a block's dangling interactions stand for (one link per run on equal atoms)"""
    n = len(block["atoms"])
    links, prev = [], None
    for section, atoms, params, _meta in block["ixns"]:
        if not any(a >= n for a in atoms):
            continue
        if atoms != prev:
            links.append(dict(atoms=[], ixns=[], edges=[], nonedges=[], patterns=[]))
            prev = atoms
        link = links[-1]
        keys = []
        for a in atoms:
            atom = block["atoms"][a % n]
            key = "+" * (a // n) + atom["name"]
            keys.append(key)
            if key not in [k for k, _ in link["atoms"]]:
                link["atoms"].append([key, {"resname": block["name"], "atype": atom["atype"]}])
        link["ixns"].append([section, keys, list(params), {}])
    return links


def gen_dangling_item(ctx):
    rng = ctx.rng
    block = G.gen_blocks(rng, 1, "itp", dangling=True, max_atoms=4)[0]
    other = G.gen_blocks(rng, 2, "itp", dangling=False, max_atoms=3)[1]      # a second block named B without dangling
    nres = rng.randint(1, ctx.budget(7, 12))
    chain = dict(nodes=[[i, i + 1, block["name"]] for i in range(nres)], edges=[[i, i + 1, None] for i in range(nres - 1)])
    mixed = G.gen_graph(rng, rng.randint(2, ctx.budget(6, 9)), [block["name"], block["name"], other["name"]])
    return dict(stream="dangling", block=block, other=other, chain=chain, mixed=mixed)


def run_dangling_items(ctx, items):
    reqs, todo = [], []
    for replay in items:
        block, other, chain, mixed = replay["block"], replay["other"], replay["chain"], replay["mixed"]
        case = dict(blocks=[block], links=[], graph=chain)
        try:
            names, links, kept = real_split(case, block["name"])
            _inp, out_chain, _ = run_real(case)
            explicit_blocks = [dict(copy.deepcopy(block), ixns=[x for x in block["ixns"] if not any(a >= len(block["atoms"]) for a in x[1])])]
            out_mixed_a = run_real(dict(blocks=[block, other], links=[], graph=mixed))[1]
            out_mixed_b = run_real(dict(blocks=explicit_blocks + [other], links=equivalent_links(block), graph=mixed))[1]
            out_chain_b = run_real(dict(blocks=explicit_blocks, links=equivalent_links(block), graph=chain))[1]
        except Exception as err:  # pylint: disable=broad-except
            ctx.oracle_fail("pipeline-raises", "polyply .itp block with dangling interactions: parser / pipeline raised %s: %s"
                            % (type(err).__name__, str(err)[:200]), replay)
            ctx.tally(dangling_real_code_raised=type(err).__name__)
            continue
        reqs.append(dict(op="dangling", names=names, ixns=flat_ixns(block)))
        reqs.append(dict(op="windows", n=len(block["atoms"]), nres=len(chain["nodes"]), ixns=flat_ixns(block)))
        todo.append((replay, links, kept, out_chain, out_chain_b, out_mixed_a, out_mixed_b))
    answers = ctx.driver.ask(reqs) if reqs else []
    for idx, (replay, links, kept, out_chain, out_chain_b, out_mixed_a, out_mixed_b) in enumerate(todo):
        block, chain = replay["block"], replay["chain"]
        split, windows = answers[2 * idx], answers[2 * idx + 1]
        model_links = [dict(atoms=l["atoms"], ixns=l["ixns"], tagged=l["tagged"]) for l in split["links"]]
        ctx.correspond("dangling-split", dict(links=links, kept=kept), dict(links=model_links, kept=split["kept"]), replay)
        n = len(block["atoms"])
        # windows oracle: every dangling interaction at every residue where it fits, nowhere else
        expected = sorted([sec, atoms, params] for sec, atoms, params in windows["expected"])
        inter_res = sorted([i[0], i[1], i[3]] for i in out_chain["ixns"] if len({a // n for a in i[1]}) > 1)
        if inter_res != expected:
            missing = [x for x in expected if x not in inter_res][:3]
            extra = [x for x in inter_res if x not in expected][:3]
            ctx.oracle_fail("dangling-window", "chain of %d residues of a %d-atom block: dangling interactions are not "
                            "present exactly at the windows that fit: missing %s extra %s" % (len(chain["nodes"]), n, missing, extra), replay)
        # equivalence with the explicit + links (same real pipeline)
        for tag, a, b in (("chain", out_chain, out_chain_b), ("mixed", out_mixed_a, out_mixed_b)):
            # the explicit blocks are written in the same syntax, so atoms / edges / interactions must coincide
            if a["ixns"] != b["ixns"] or a["edges"] != b["edges"]:
                da = [x for x in a["ixns"] if x not in b["ixns"]][:3]
                db = [x for x in b["ixns"] if x not in a["ixns"]][:3]
                ctx.oracle_fail("dangling-not-equivalent", "dangling .itp interactions and the equivalent explicit + links "
                                "give different molecules on the %s graph: only-dangling %s only-explicit %s edges %s vs %s"
                                % (tag, da, db, [e for e in a["edges"] if e not in b["edges"]][:3], [e for e in b["edges"] if e not in a["edges"]][:3]), replay)
        nd = sum(1 for x in block["ixns"] if any(a >= n for a in x[1]))
        ctx.case(("dangling", json.dumps(replay, sort_keys=True)) if nd and len(chain["nodes"]) >= 2 else None,
                 stream="dangling", dangling_links=min(len(links), 4), chain=("1" if len(chain["nodes"]) == 1 else "2-3" if len(chain["nodes"]) <= 3 else "4+"))
        ctx.traces += 1


def run_dangling(ctx, count):
    run_dangling_items(ctx, [gen_dangling_item(ctx) for _ in range(count)])


# ------------------------------------------------------------------------------------------ spelling of a link definition

def canon_links(force_field):
    out = []
    for link in force_field.links:
        d = G.dump_link(link, allow_explicit=True)
        d["atoms"] = sorted(d["atoms"], key=lambda a: a["key"])
        for atom in d["atoms"]:
            atom["attrs"], atom["replace"] = sorted(atom["attrs"], key=json.dumps), sorted(atom["replace"])
        d["edges"] = sorted(sorted(e[:2]) + [e[2]] for e in d["edges"])
        out.append(d)
    return out


def respell(rng, case):
    """the same force field, every link definition spelled differently: the sections after `[ atoms ]` in another
    order (`[ edges ]` / `[ non-edges ]` / `[ patterns ]` before or after the interaction sections) and, for most
    links, the atom attributes written behind the first mention of the atom instead of in `[ atoms ]`"""
    variant = copy.deepcopy(case)
    for link in variant["links"]:
        order = ["ixns", "edges", "nonedges", "patterns"]
        rng.shuffle(order)
        link["section_order"] = order
        link["inline_atoms"] = rng.random() < 0.7
    return variant


def respell_header(rng, case):
    """-> (base, variant) or None.  A residue name every atom of a link carries can be written ONCE in the link
    header (`resname "A"`): vermouth then applies it to every atom of the link and to every `[ non-edges ]` target.
    base = the attribute spelled out on each atom and each non-edge target, variant = the header spelling."""
    base, variant = copy.deepcopy(case), copy.deepcopy(case)
    changed = False
    for lb, lv in zip(base["links"], variant["links"]):
        names = [attrs.get("resname") for _k, attrs in lb["atoms"]]
        if not names or len(set(names)) != 1 or not isinstance(names[0], str) or "|" in names[0] or (lb.get("molmeta") or {}):
            continue
        if rng.random() < 0.3:
            continue
        lb["nonedges"] = [[e[0], e[1], dict((e[2] if len(e) > 2 and e[2] else {}), resname=names[0])] for e in lb["nonedges"]]
        lv["header"] = {"resname": names[0]}
        for _k, attrs in lv["atoms"]:
            attrs.pop("resname")
        changed = True
    return (base, variant) if changed else None


def run_link_spelling(ctx, count):
    """A link definition means the same however its sections are ordered and wherever the atom attributes are
    written: the repository's parsers must produce the same links (atoms with attributes, interactions, labelled
    edges, non-edges, patterns) and the real MapToMolecule + ApplyLinks the same molecule."""
    from polyply.src.map_to_molecule import MapToMolecule
    from polyply.src.apply_links import ApplyLinks
    rng = ctx.rng
    pairs = []
    while len(pairs) < count:
        case = G.gen_case(rng, max_res=ctx.budget(5, 8))
        if case["links"]:
            pairs.append((case, respell(rng, case)))
            if case["links"] and any(l["nonedges"] or l["patterns"] for l in case["links"]) or rng.random() < 0.3:
                header = respell_header(rng, case)
                if header is not None:
                    pairs.append(header)
    run_link_spelling_pairs(ctx, pairs)


def run_link_spelling_pairs(ctx, pairs):
    from polyply.src.map_to_molecule import MapToMolecule
    from polyply.src.apply_links import ApplyLinks
    for case, variant in pairs:
        replay = dict(stream="link-spelling", case=case, variant=variant)
        results = []
        try:
            for item in (case, variant):
                with tempfile.TemporaryDirectory() as tmp:
                    force_field, meta = G.build(item, tmp)
                links = canon_links(force_field)
                MapToMolecule(force_field).run_molecule(meta)
                ApplyLinks().run_molecule(meta)
                results.append((links, G.dump_output(meta)))
        except G.Unsupported as err:
            ctx.tally(unsupported=str(err)[:40])
            continue
        except Exception as err:  # pylint: disable=broad-except
            ctx.oracle_fail("pipeline-raises", "respelled link definitions (section order %s): parser / pipeline raised %s: %s"
                            % ([l.get("section_order") for l in variant["links"]], type(err).__name__, str(err)[:200]), replay)
            continue
        (links_a, out_a), (links_b, out_b) = results
        if links_a != links_b:
            idx = next(i for i, (x, y) in enumerate(zip(links_a, links_b)) if x != y) if len(links_a) == len(links_b) else -1
            ctx.oracle_fail("link-definition-depends-on-spelling", "the same link definition read from two spellings (sections %s, inline "
                            "atoms %s, header %s) gives different links: %s vs %s" % (variant["links"][idx].get("section_order"), variant["links"][idx].get("inline_atoms"),
                                                                            variant["links"][idx].get("header"),
                                                                            json.dumps(links_a[idx])[:500], json.dumps(links_b[idx])[:500]), replay)
        elif out_a != out_b:
            ctx.oracle_fail("link-definition-depends-on-spelling", "the same force field in two spellings gives different molecules: only "
                            "canonical %s only respelled %s" % ([x for x in out_a["ixns"] if x not in out_b["ixns"]][:3],
                                                               [x for x in out_b["ixns"] if x not in out_a["ixns"]][:3]), replay)
        labelled = any(e[2] is not None for link in case["links"] for e in link["edges"])
        ctx.case(("link-spelling", json.dumps(replay, sort_keys=True)), stream="link-spelling", labelled_edges=labelled)
        ctx.traces += 1


# ------------------------------------------------------------------------------------------ one force field, two molecules

def run_history(ctx, count):
    """process history: the SAME ForceField object mapped and linked twice (two chains of a system made through the
    library API) — the second molecule must be the first one again (the first is what the main stream checks).
    Force fields without by_atom_id links (their in-place rewrite is notes/C02_findings.md, observation 6)."""
    import networkx as nx
    from polyply.src.meta_molecule import MetaMolecule
    from polyply.src.map_to_molecule import MapToMolecule
    from polyply.src.apply_links import ApplyLinks
    rng = ctx.rng
    for _ in range(count):
        case = G.gen_case(rng, max_res=ctx.budget(5, 8))
        replay = dict(stream="history", case=case)
        try:
            with tempfile.TemporaryDirectory() as tmp:
                force_field, meta = G.build(case, tmp)
            outs = []
            for turn in range(2):
                if turn:
                    graph = nx.Graph()
                    graph.add_nodes_from((k, dict(d)) for k, d in original_nodes)
                    graph.add_edges_from((u, v, dict(d)) for u, v, d in original_edges)
                    meta = MetaMolecule(graph, force_field=force_field, mol_name="verif")
                else:
                    original_nodes = [(k, {a: v for a, v in d.items() if a in ("resid", "resname", "from_itp")}) for k, d in meta.nodes(data=True)]
                    original_edges = [(u, v, dict(d)) for u, v, d in meta.edges(data=True)]
                MapToMolecule(force_field).run_molecule(meta)
                ApplyLinks().run_molecule(meta)
                outs.append(G.dump_output(meta))
        except G.Unsupported as err:
            ctx.tally(unsupported=str(err)[:40])
            continue
        except Exception as err:  # pylint: disable=broad-except
            ctx.oracle_fail("pipeline-raises", "second molecule from one force-field object: %s: %s" % (type(err).__name__, str(err)[:200]), replay)
            continue
        if outs[0] != outs[1]:
            ctx.oracle_fail("history-changes-output", "the second molecule made from the same ForceField object differs from the first: only "
                            "first %s only second %s | graph %s" % ([x for x in outs[0]["ixns"] if x not in outs[1]["ixns"]][:3],
                                                                   [x for x in outs[1]["ixns"] if x not in outs[0]["ixns"]][:3], case["graph"]), replay)
        ctx.case(("history", json.dumps(replay, sort_keys=True)), stream="history")
        ctx.traces += 1


# ------------------------------------------------------------------------------------------ explicit links

# every section an explicit link may carry (the code adds edges between consecutive atoms whatever the section)
XSECTIONS = {"bonds": 2, "constraints": 2, "pairs": 2, "exclusions": 2, "angles": 3, "dihedrals": 4}


def explicit_link_text(links):
    """.ff text of `by_atom_id` links; `links` = [[ [section, [tokens], [params], {meta}], .. ], ..]"""
    out = []
    for ixns in links:
        out += ["[ link ]", "[ molmeta ]", "by_atom_id true"]
        last = None
        for section, tokens, params, meta in ixns:
            if section != last:
                out.append("[ %s ]" % section)
                last = section
            line = " ".join(list(tokens) + list(params))
            if meta:
                line += " " + json.dumps(meta)
            out.append(line)
    return "\n".join(out) + "\n"


def parse_explicit_links(links):
    """the real Link objects, read by the repository's .ff parser"""
    import vermouth.forcefield
    from polyply.src.ff_parser_sub import read_ff
    force_field = vermouth.forcefield.ForceField("verif-explicit")
    read_ff(explicit_link_text(links).splitlines(), force_field)
    return force_field.links


def mol_state(molecule):
    return dict(nodes=[int(n) for n in molecule.nodes], edges=[[int(u), int(v)] for u, v in molecule.edges],
                ixns=G.dump_ixns(molecule))


def canon_state(ixns, edges):
    return dict(ixns=sorted([i["section"], i["atoms"], i["version"], i["params"], i["meta"]] for i in ixns),
                edges=sorted(sorted(e) for e in edges))


def canon_xmodel(ans):
    """model answer of op explicit / run -> same canonical form (version = meta.get('version', 1) as dump_ixns)"""
    if not ans.get("ok"):
        return dict(status="model-rejects:" + str(ans.get("err"))[:80])
    if ans["status"] != "ok":
        return dict(status=ans["status"])
    ixns = []
    for sect, atoms, params, meta in ans["ixns"]:
        ver = [v for k, v in meta if k == "version"]
        ixns.append(dict(section=sect, atoms=atoms, version=(int(ver[0][2:]) if ver else 1), params=params, meta=sorted(meta)))
    return dict(status="ok", **canon_state(ixns, ans["edges"]))


def explicit_spec(before, xixns):
    """the property for links that address atoms by number, stated without the loop: applied iff every atom
    token is a number naming an existing atom (else ValueError for a non-number, IOError for a missing atom,
    decided by the first offender); every explicit interaction is then present on exactly the numbered atoms
    with its parameters, the last definition of (section, atoms, version) winning, every other interaction is
    unchanged and the bond edges are the old ones plus the consecutive atom pairs"""
    nodes = set(before["nodes"])
    for x in xixns:
        try:
            nums = [int(t) for t in x["atoms"]]
        except ValueError:
            return dict(status="ValueError")
        if not all((n - 1) in nodes for n in nums):
            return dict(status="IOError")

    def ver0(meta):
        hit = [v for k, v in meta if k == "version"]
        return hit[0] if hit else "i:0"
    table, order = {}, []
    for i in before["ixns"]:
        key = (i["section"], tuple(i["atoms"]), ver0(i["meta"]))
        if key in table:
            return None     # two block interactions under one key: outside the statement's "same atoms and version"
        table[key] = (i["params"], i["meta"])
        order.append(key)
    edges = {tuple(sorted(e)) for e in before["edges"]}
    for x in xixns:
        atoms = [int(t) - 1 for t in x["atoms"]]
        key = (x["section"], tuple(atoms), ver0(x["meta"]))
        if key not in table:
            order.append(key)
        table[key] = (x["params"], x["meta"])
        edges |= {tuple(sorted(p)) for p in zip(atoms[:-1], atoms[1:])}
    ixns = []
    for key in order:
        params, meta = table[key]
        ver = [v for k, v in meta if k == "version"]
        ixns.append(dict(section=key[0], atoms=list(key[1]), version=(int(ver[0][2:]) if ver else 1), params=params, meta=sorted(meta)))
    return dict(status="ok", **canon_state(ixns, [list(e) for e in edges]))


def real_explicit(molecule, links):
    """apply the parsed explicit links with the real `apply_explicit_link` -> canonical state or the exception"""
    from polyply.src.apply_links import apply_explicit_link
    try:
        for link in links:
            apply_explicit_link(molecule, link)
    except ValueError:
        return dict(status="ValueError")
    except IOError:
        return dict(status="IOError")
    except Exception as err:  # pylint: disable=broad-except
        return dict(status="raises:" + type(err).__name__)      # neither of the two documented outcomes
    state = mol_state(molecule)
    return dict(status="ok", **canon_state(state["ixns"], state["edges"]))


def small_molecule():
    """three one-atom residues A (atoms 0 1 2) with the next-residue bonds 0-1, 1-2 through the real pipeline"""
    block = dict(name="A", nrexcl=1, syntax="ff", atoms=[dict(name="BB", atype="P1", cg=1)], ixns=[])
    link = dict(atoms=[["BB", {"resname": "A"}], ["+BB", {"resname": "A"}]],
                ixns=[["bonds", ["BB", "+BB"], ["1", "0.4", "200"], {}]], edges=[], nonedges=[], patterns=[])
    graph = dict(nodes=[[i, i + 1, "A"] for i in range(3)], edges=[[0, 1, None], [1, 2, None]])
    return dict(blocks=[block], links=[link], graph=graph)


def explicit_exhaustive_items():
    """EXHAUSTIVE: every 2-atom and 3-atom interaction over the tokens {0,1,2,3,4,X} (numbers 1..3 exist, 0 and 4
    are the two boundary misses, X is not a number) x {no version, version 1} on the three-atom chain"""
    tokens = ["0", "1", "2", "3", "4", "X"]
    items = []
    for meta in ({}, {"version": 1}):
        for a in tokens:
            for b in tokens:
                items.append(dict(stream="explicit", case="small", links=[[["bonds", [a, b], ["1", "0.9", "900"], meta]]]))
                for c in tokens:
                    items.append(dict(stream="explicit", case="small", links=[[["angles", [a, b, c], ["2", "120", "50"], meta]]]))
    return items


def gen_explicit_links(rng, state):
    """random explicit links for a molecule state: mostly existing atoms, existing interaction atoms (replace),
    boundary numbers, rarely a name"""
    keys = state["nodes"]
    hi = max(keys) + 1 if keys else 0
    links = []
    for _ in range(rng.choice([1, 1, 2])):
        ixns = []
        for _ in range(rng.choice([1, 2, 3])):
            section = rng.choice(list(XSECTIONS))
            natoms = XSECTIONS[section]
            same = [i for i in state["ixns"] if i["section"] == section]
            roll = rng.random()
            if same and roll < 0.35:
                old = rng.choice(same)
                tokens = [str(a + 1) for a in old["atoms"]]
                meta = rng.choice([{}, {"version": old["version"]}, {"version": old["version"] + 1}, {"version": 0}])
            else:
                tokens = [str(rng.choice(keys) + 1) if keys else "1" for _ in range(natoms)]
                meta = rng.choice([{}, {}, {"version": 1}, {"version": 2}])
                if roll > 0.88:
                    tokens[rng.randrange(natoms)] = rng.choice(["0", str(hi + 1), str(hi + 2), "-1", "BB",
                                                                 str(rng.randint(1, hi + 1))])
            if ixns and rng.random() < 0.2:
                tokens, meta = list(ixns[-1][1]), dict(ixns[-1][3])       # later wins inside the explicit links
                section = ixns[-1][0]
            params = [] if section == "exclusions" else [rng.choice(["1", "2"]), "0.%d" % rng.randint(1, 9), str(rng.randint(10, 999))]
            if section == "exclusions":
                meta = {}       # (a line without parameters: a trailing {...} would be read as attributes of its last atom)
            ixns.append([section, tokens, params, meta])
        ixns.sort(key=lambda x: list(XSECTIONS).index(x[0]))     # sections are contiguous in a file
        links.append(ixns)
    return links


def run_explicit_items(ctx, items, molecules):
    """direct stream: the real `apply_explicit_link` on a copy of a real molecule (after ApplyLinks) vs
    `Links.applyExplicit`, and the loop-free statement `explicit_spec` as oracle"""
    reqs, todo = [], []
    for item in items:
        molecule = copy.deepcopy(molecules[json.dumps(item["case"], sort_keys=True)])
        before = mol_state(molecule)
        try:
            links = parse_explicit_links(item["links"])
            xixns = G.dump_xixns(links)
        except G.Unsupported as err:
            ctx.tally(unsupported=str(err)[:40])
            continue
        impl = real_explicit(molecule, links)
        reqs.append(dict(op="explicit", nodes=before["nodes"], edges=before["edges"], ixns=before["ixns"], xixns=xixns))
        todo.append((item, before, xixns, impl))
    answers = ctx.driver.ask(reqs) if reqs else []
    for (item, before, xixns, impl), ans in zip(todo, answers):
        ctx.correspond("explicit-link", impl, canon_xmodel(ans), item)
        ctx.traces += 1
        spec = explicit_spec(before, xixns)
        if spec is not None and spec != impl:
            ctx.oracle_fail("explicit-link-mismatch", "explicit (by_atom_id) link %s on a molecule with atoms %s: expected %s, the "
                            "code gives %s" % (item["links"], before["nodes"], json.dumps(spec)[:400], json.dumps(impl)[:400]), item)
        nontrivial = impl["status"] == "ok" or any(len(l) > 1 for l in item["links"])
        ctx.case(("explicit", json.dumps(item, sort_keys=True)) if nontrivial else None, stream="explicit",
                 explicit_status=impl["status"])


def run_explicit_direct(ctx):
    from polyply.src.apply_links import ApplyLinks
    molecules = {}

    def molecule_of(case):
        key = json.dumps(case, sort_keys=True)
        if key not in molecules:
            molecules[key] = run_real(case)[2].molecule
        return key
    small = small_molecule()
    molecules["\"small\""] = run_real(small)[2].molecule
    items = explicit_exhaustive_items()
    ctx.tally(explicit_exhaustive=len(items))
    rng = ctx.rng
    count = ctx.budget(50, 600)
    for _ in range(count):
        case = G.gen_case(rng, max_res=ctx.budget(5, 8))
        try:
            molecule_of(case)
        except Exception:  # pylint: disable=broad-except
            continue        # the main stream reports a pipeline that raises
        state = mol_state(molecules[json.dumps(case, sort_keys=True)])
        for _ in range(3):
            items.append(dict(stream="explicit", case=case, links=gen_explicit_links(rng, state)))
    run_explicit_items(ctx, items, molecules)


def run_real_explicit(case):
    """the whole pipeline with `by_atom_id` links in the force field -> (input dump, canonical result or exception)"""
    from polyply.src.map_to_molecule import MapToMolecule
    from polyply.src.apply_links import ApplyLinks
    with tempfile.TemporaryDirectory() as tmp:
        force_field, meta = G.build(case, tmp)
    MapToMolecule(force_field).run_molecule(meta)
    inp = G.dump_input(meta, explicit=True)
    # `expand_excl` (C14) runs after the explicit links: with the generator's uniform nrexcl it adds nothing
    try:
        ApplyLinks().run_molecule(meta)
    except ValueError:
        return inp, dict(status="ValueError")
    except IOError:
        return inp, dict(status="IOError")
    except Exception as err:  # pylint: disable=broad-except
        return inp, dict(status="raises:" + type(err).__name__)
    state = mol_state(meta.molecule)
    return inp, dict(status="ok", **canon_state(state["ixns"], state["edges"]))


def gen_explicit_pipeline_item(ctx):
    rng = ctx.rng
    case = G.gen_case(rng, max_res=ctx.budget(5, 8))
    sizes = {b["name"]: len(b["atoms"]) for b in case["blocks"]}
    natoms = sum(sizes[name] for _k, _r, name in case["graph"]["nodes"])
    state = dict(nodes=list(range(natoms)), ixns=[])
    for ixns in gen_explicit_links(rng, state):
        link = dict(molmeta={"by_atom_id": True}, atoms=[], ixns=ixns, edges=[], nonedges=[], patterns=[])
        case["links"].insert(rng.randint(0, len(case["links"])), link)
    return dict(stream="explicit-pipeline", case=case)


def run_explicit_pipeline_items(ctx, items):
    reqs, todo = [], []
    for item in items:
        try:
            inp, impl = run_real_explicit(item["case"])
        except G.Unsupported as err:
            ctx.tally(unsupported=str(err)[:40])
            continue
        except Exception as err:  # pylint: disable=broad-except
            ctx.oracle_fail("pipeline-raises", "force field with by_atom_id links: load_ff_library / MapToMolecule / ApplyLinks "
                            "raised %s: %s" % (type(err).__name__, str(err)[:200]), item)
            continue
        xixns = inp.pop("xixns")
        reqs += [dict(op="apply", input=inp), dict(op="run", input=inp, xixns=xixns)]
        # oracle: the same force field WITHOUT the by_atom_id links through the real pipeline, then the loop-free
        # statement of what the explicit links add (`explicit_spec`)
        plain = dict(item["case"], links=[l for l in item["case"]["links"] if not (l.get("molmeta") or {}).get("by_atom_id")])
        try:
            before = mol_state(run_real(plain)[2].molecule)
            spec = explicit_spec(before, xixns)
        except Exception:  # pylint: disable=broad-except
            spec = None
        if spec is not None and spec != impl:
            ctx.oracle_fail("explicit-link-mismatch", "force field with by_atom_id links %s on graph %s: expected %s, ApplyLinks.run_molecule "
                            "gives %s" % ([l["ixns"] for l in item["case"]["links"] if (l.get("molmeta") or {}).get("by_atom_id")],
                                          item["case"]["graph"], json.dumps(spec)[:300], json.dumps(impl)[:300]), item)
        todo.append((item, impl))
    answers = ctx.driver.ask(reqs) if reqs else []
    for idx, (item, impl) in enumerate(todo):
        apply_ans, run_ans = answers[2 * idx], answers[2 * idx + 1]
        if not apply_ans.get("ok") or apply_ans.get("collisions"):
            ctx.tally(order_dependent_cases_skipped=True)
            ctx.case(None, stream="explicit-pipeline")
            continue
        ctx.correspond("explicit-pipeline", impl, canon_xmodel(run_ans), item)
        ctx.traces += 1
        ctx.case(("explicit-pipeline", json.dumps(item, sort_keys=True)), stream="explicit-pipeline", explicit_status=impl["status"])


def run_explicit_pipeline(ctx, count):
    run_explicit_pipeline_items(ctx, [gen_explicit_pipeline_item(ctx) for _ in range(count)])


# ------------------------------------------------------------------------------------------ entry points

def known_shapes_for(pid):
    return {k["shape"] for k in common.load_known_findings() if k["property"] == pid}


def corpus_cases():
    path = os.path.join(common.VERIF, "corpus", "C02")
    out = []
    if os.path.isdir(path):
        for name in sorted(os.listdir(path)):
            data = json.load(open(os.path.join(path, name)))
            inp = data.get("input", data)
            if inp.get("stream", "main") == "main" and "case" in inp:
                out.append(inp["case"])
    return out


def small_exhaustive_cases(known=()):
    """every order token against every small chain shape, one block, one two-residue link"""
    cases = []
    block = dict(name="A", nrexcl=1, syntax="ff", atoms=[dict(name="BB", atype="P1", cg=1), dict(name="SC1", atype="P2", cg=1)],
                 ixns=[["bonds", [0, 1], ["1", "0.3", "100"], {}]])
    for prefix in ["+", "++", "-", ">", ">>", "<", "*"]:
        for resids in ([1, 2, 3], [3, 2, 1], [2, 3, 1]):
            link = dict(atoms=[["BB", {"resname": "A"}], [prefix + "BB", {"resname": "A"}]],
                        ixns=[["bonds", ["BB", prefix + "BB"], ["1", "0.4", "200"], {}]], edges=[], nonedges=[], patterns=[])
            graph = dict(nodes=[[i, resids[i], "A"] for i in range(3)], edges=[[0, 1, None], [1, 2, None]])
            cases.append(dict(blocks=[copy.deepcopy(block)], links=[link], graph=graph))
    # more than 20 of what is counted: a chain of 24 residues (resids from 7) with next and next-but-one residue links
    for prefix in ["+", "++", ">"]:
        link = dict(atoms=[["BB", {"resname": "A"}], [prefix + "BB", {"resname": "A"}]],
                    ixns=[["bonds", ["BB", prefix + "BB"], ["1", "0.4", "200"], {}]], edges=[], nonedges=[], patterns=[])
        if prefix == ">":
            link["edges"] = [["BB", ">BB", None]]
        graph = dict(nodes=[[i, i + 7, "A"] for i in range(24)], edges=[[i, i + 1, None] for i in range(23)])
        cases.append(dict(blocks=[copy.deepcopy(block)], links=[link], graph=graph))
    if "link-without-resname-skipped" in known:
        # the listed finding, deterministically: a next-residue link none of whose atoms names a residue
        link = dict(atoms=[["SC1", {}], ["+BB", {}]], ixns=[["bonds", ["SC1", "+BB"], ["1", "0.4", "200"], {}]],
                    edges=[], nonedges=[], patterns=[])
        graph = dict(nodes=[[i, i + 1, "A"] for i in range(3)], edges=[[0, 1, None], [1, 2, None]])
        cases.append(dict(blocks=[copy.deepcopy(block)], links=[link], graph=graph, allow_no_resname=True))
    return cases


def vf2_exhaustive_cases(thorough):
    """EXHAUSTIVE residue-level matching: every link shape on <= 3 residues (all 11 labelled graphs on 1, 2, 3
    link residues; orders 0, *, ** constrain nothing beyond injectivity; one edge-free `virtual_sitesn`
    interaction on all link atoms, told apart by its version) against every CONNECTED residue graph on <= 3 nodes
    (all 6 labelled graphs) and on 4 nodes (the 6 graphs up to isomorphism in the quick tier, all 38 labelled
    graphs in the thorough tier).  What is compared is the set of induced,
    injective matches VF2 returns (through the real `ApplyLinks.run_molecule`) with the model's enumeration
    and with the specification's filter over all tuples."""
    import itertools
    block = dict(name="A", nrexcl=1, syntax="ff", atoms=[dict(name="BB", atype="P1", cg=1)], ixns=[])
    keys = ["BB", "*BB", "**BB"]
    links = []
    for size in (1, 2, 3):
        pairs = list(itertools.combinations(range(size), 2))
        for mask in range(2 ** len(pairs)):
            edges = [pairs[b] for b in range(len(pairs)) if mask >> b & 1]
            links.append(dict(atoms=[[keys[i], {"resname": "A"}] for i in range(size)],
                              ixns=[["virtual_sitesn", keys[:size], ["1"], {"version": len(links) + 1}]],
                              edges=[[keys[u], keys[v], None] for u, v in edges], nonedges=[], patterns=[]))
    graphs = []
    for n in (1, 2, 3, 4):
        pairs = list(itertools.combinations(range(n), 2))
        seen = set()
        for mask in range(2 ** len(pairs)):
            edges = [pairs[b] for b in range(len(pairs)) if mask >> b & 1]
            reach, grew = {0}, True
            while grew:
                new = {v for u, v in edges if u in reach} | {u for u, v in edges if v in reach}
                grew = not new <= reach
                reach |= new
            if len(reach) < n:
                continue        # gen_params only accepts connected residue graphs
            if n == 4 and not thorough:
                canon = min(tuple(sorted(tuple(sorted((perm[u], perm[v]))) for u, v in edges))
                            for perm in itertools.permutations(range(n)))
                if canon in seen:
                    continue
                seen.add(canon)
            graphs.append(dict(nodes=[[i, i + 1, "A"] for i in range(n)], edges=[[u, v, None] for u, v in edges]))
    return [dict(blocks=[copy.deepcopy(block)], links=copy.deepcopy(links), graph=g) for g in graphs]


def run(ctx):
    ctx.extra["rule"] = RULE
    ctx.extra["trusted"] = [
        "networkx GraphMatcher.subgraph_isomorphisms_iter (VF2): modelled by exhaustive enumeration of induced "
        "subgraph isomorphisms; its enumeration order is not modelled",
        "vermouth attributes_match / Choice / match_order / make_residue_graph / .ff and .itp parsers (modelled, tied "
        "by the correspondence)",
        "explicit links: Python int() on an atom token = Lean String.toInt? (decimal numerals, optional '-'); vermouth "
        "Molecule.add_or_replace_interaction (first interaction with equal atoms and meta.get('version', 0) replaced in "
        "place, else appended) is modelled by insertKV on (section, atoms, version token)",
        "_parse_edges_new: vermouth _tokenize / _get_atoms / _treat_atom_prefix turn the line into two references and "
        "their attribute dictionaries (the model starts from those)",
    ]
    ctx.assumptions += [
        "attribute values are compared as tokens: the generator produces strings (and block floats on both sides)",
        "non-edge targets carry numeric orders (a non-numeric one makes vermouth raise TypeError); every link atom has an order",
        "by_atom_id links only in the explicit-link streams (atom tokens are decimal numerals, optionally signed "
        "with '-', or names); no parameter effectors, replace never edits resid/resname",
        "cases whose result depends on the VF2 enumeration order among matches of ONE link are skipped and counted "
        "(input_distribution: order_dependent_cases_skipped)",
    ]
    ctx.extra["explanation"] = ("oracle = Links.specOutput (RHS of C02_iff with the independent enumeration specMatches and the "
                                "property's flush condition) evaluated by the Lean driver on the mapped molecule, compared with "
                                "the real ApplyLinks output")
    known = known_shapes_for("C02")
    run_match_order(ctx)
    run_check_relative_order(ctx)
    run_parse_edges(ctx)
    rng = ctx.rng
    cases = corpus_cases() + small_exhaustive_cases(known)
    count = ctx.budget(500, 6000)
    max_res = ctx.budget(7, 10)
    for _ in range(count):
        cases.append(G.gen_case(rng, max_res=max_res,
                                allow_no_resname=("link-without-resname-skipped" in known and rng.random() < 0.2)))
    # in chunks, so that a driver request stays small
    for start in range(0, len(cases), 400):
        run_main(ctx, cases[start:start + 400], known)
    vf2 = vf2_exhaustive_cases(ctx.thorough)
    ctx.tally(vf2_exhaustive_graphs=len(vf2), vf2_exhaustive_link_shapes=len(vf2[0]["links"]))
    run_main(ctx, vf2, known, stream="vf2-exhaustive")
    run_dangling(ctx, ctx.budget(60, 600))
    run_link_spelling(ctx, ctx.budget(120, 1500))
    run_history(ctx, ctx.budget(60, 800))
    run_explicit_direct(ctx)
    run_explicit_pipeline(ctx, ctx.budget(60, 800))


def replay(ctx, data):
    inp = data.get("input") or {}
    known = known_shapes_for("C02")
    items = [inp] if inp else [i["input"] for i in data.get("no_longer_checks", []) if i.get("input")]
    for item in items:
        if item.get("stream") in ("main", "vf2-exhaustive", None) and "case" in item:
            run_main(ctx, [item["case"]], set(WITHHELD_SHAPES) | known)
        elif item.get("stream") == "matchOrder":
            run_match_order(ctx)
        elif item.get("stream") == "checkRelativeOrder":
            run_check_relative_order(ctx)
        elif item.get("stream") == "parse-edges":
            run_parse_edges(ctx)
        elif item.get("stream") == "dangling":
            run_dangling_items(ctx, [item])
        elif item.get("stream") == "history":
            saved, G.gen_case = G.gen_case, (lambda *a, **k: item["case"])
            try:
                run_history(ctx, 1)
            finally:
                G.gen_case = saved
        elif item.get("stream") == "link-spelling":
            run_link_spelling_pairs(ctx, [(item["case"], item["variant"])])
        elif item.get("stream") == "explicit":
            case = small_molecule() if item["case"] == "small" else item["case"]
            run_explicit_items(ctx, [item], {json.dumps(item["case"], sort_keys=True): run_real(case)[2].molecule})
        elif item.get("stream") == "explicit-pipeline":
            run_explicit_pipeline_items(ctx, [item])
    for b in ctx.broken:
        print("REPLAY-DISAGREES", b["name"], b["detail"][:600])
