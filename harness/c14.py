"""C14 — mixed exclusion distances are honoured atom by atom.

properties.jsonl: "When residues whose blocks prescribe different exclusion distances are combined, two
atoms of the generated molecule are excluded from non-bonded interactions - through the molecule-wide
exclusion distance or an explicit exclusion - exactly if their bond-graph distance is within the
exclusion distance prescribed by the block of at least one of them, or a block or link excludes them
explicitly. With a uniform exclusion distance the molecule keeps it and no exclusions are invented."

Implementation side: force fields with blocks of nrexcl 0..4 (.ff and polyply .itp syntax, dangling bonds),
links that make the inter-residue bonds (and sometimes explicit exclusions), random residue graphs; the
real `gen_params` writes the .itp; inside that run `apply_links.expand_excl` is interposed (attribute
assignment in the harness process) to see the molecule it receives (nrexcl, `exclude` tags, edges, the
exclusions already present) and what it appends.
Model side (`Model/Exclusions.lean`): `tagExclusions` and `expandExcl` (correspondence); oracle =
`specPairs` (pairs within max(e a, e b) bonds, distances recomputed by the Lean BFS from the WRITTEN
`[ bonds ]`/`[ constraints ]`) ∪ explicit exclusions, against `effectivePairs` (pairs within the WRITTEN
nrexcl, or listed in the written `[ exclusions ]`).
Domain: the generated force fields keep consecutive atoms of angle/dihedral lines bonded and make link
edges only through bonds/constraints (polyply's atom graph also takes edges from those lines).
Trusted: networkx `single_source_shortest_path` (modelled by BFS levels), vermouth's .itp writer.
"""
import json
import os
import pathlib
import tempfile

import common
import ffgen_c02 as G
import c10

RULE = ("1-3 blocks of 1-4 chain-bonded atoms with nrexcl drawn from 0..4 (30 % uniform), .ff or .itp syntax (dangling "
        "next-residue bond), links `a >b` / `a +b` making one bond per adjacent residue pair (15 % of the pairs left "
        "without link), explicit exclusions in blocks (lines of 2-4 atoms, first atom vs each other) and links; residue graphs: paths, trees, one ring, 1-7 residues "
        "(10 thorough); non-trivial = at least two different exclusion distances among the residues and an "
        "inter-residue bond; 30 % of the cases with a bond or a constraint made by a by_atom_id link; 15 % of the .ff cases with a link that removes an inner / ring "
        "atom of a block (replace atomname null); distinct = abstract case")


# ------------------------------------------------------------------------------------------ generator

def gen_case(rng, max_res):
    nblocks = rng.choice([1, 2, 2, 3])
    uniform = rng.random() < 0.3
    base = rng.randint(0, 4)
    syntax = rng.choice(["ff", "ff", "itp"])
    blocks = []
    names = ["A", "B", "C"][:nblocks]
    for name in names:
        natoms = rng.randint(1, 4)
        atom_names = rng.sample(G.ATOM_POOL, natoms)
        atoms = [dict(name=a, atype=rng.choice(G.ATYPES), cg=1) for a in atom_names]
        ixns = [["bonds", [i, i + 1], ["1", "0.3", "1000"], {}] for i in range(natoms - 1)]
        if natoms >= 3 and rng.random() < 0.4:
            ixns.append(["angles", [0, 1, 2], ["1", "120", "50"], {}])
        if natoms >= 3 and rng.random() < 0.25:
            ixns.append(["constraints", [0, natoms - 1], ["1", "0.4"], {}])
        if natoms >= 2 and syntax == "ff" and rng.random() < 0.3:
            # explicit exclusion line; with three or four atoms it reads as GROMACS reads it: the FIRST atom is
            # excluded from each of the others (the others are not excluded from one another)
            k = rng.choice([2, 2, 3, 3, 4]) if natoms >= 3 else 2
            ixns.append(["exclusions", rng.sample(range(natoms), min(k, natoms)), [], {}])
        blocks.append(dict(name=name, nrexcl=(base if uniform else rng.randint(0, 4)), syntax=syntax, atoms=atoms, ixns=ixns))
    links = []
    dangling_done = set()
    for x in blocks:
        for y in blocks:
            if rng.random() < 0.15:
                continue
            a, b = rng.choice(x["atoms"])["name"], rng.choice(y["atoms"])["name"]
            if syntax == "itp" and x is y and rng.random() < 0.7 and x["name"] not in dangling_done:
                # the same bond as a dangling interaction of the monomer .itp (last atom -> first atom of the next residue)
                n = len(x["atoms"])
                pos = max([i for i, item in enumerate(x["ixns"]) if item[0] == "bonds"], default=-1)
                x["ixns"].insert(pos + 1 if pos >= 0 else 0, ["bonds", [n - 1, n], ["1", "0.35", "900"], {}])
                dangling_done.add(x["name"])
                continue
            prefix = rng.choice([">", ">", "+"])
            token = "0.37%02d" % len(links)          # one distance value per link: lets the oracle see where it applied
            link = dict(atoms=[[a, {"resname": x["name"]}], [prefix + b, {"resname": y["name"]}]],
                        ixns=[[rng.choice(["bonds", "bonds", "constraints"]), [a, prefix + b], ["1", token], {}]],
                        edges=[], nonedges=[], patterns=[], c14=dict(kind="inter", x=x["name"], y=y["name"], a=a, prefix=prefix, excl=None))
            if link["ixns"][0][0] == "bonds":
                link["ixns"][0][2].append("800")
            if syntax == "ff" and rng.random() < 0.15:
                # (with a polyply .itp in the force field every link interaction line, exclusions included, becomes an
                # edge of polyply's atom graph; see notes/C14_findings.md, observation 1)
                c = rng.choice(y["atoms"])["name"]
                if prefix + c != prefix + b:
                    link["atoms"].append([prefix + c, {"resname": y["name"]}])
                    link["ixns"].append(["exclusions", [a, prefix + c], [], {}])
                    link["c14"]["excl"] = c
            links.append(link)
    # links inside ONE residue: an explicit exclusion line of 3-4 atoms (often the atoms of the block's own line in
    # reversed or shuffled order: a different set of pairs, first atom against each other), and a bond between two atoms
    # the block does not bond (side bond / ring closure inside the residue)
    if syntax == "ff":
        for x in blocks:
            names_x = [a["name"] for a in x["atoms"]]
            own_lines = [item[1] for item in x["ixns"] if item[0] == "exclusions" and len(item[1]) >= 3]
            if len(names_x) >= 3 and rng.random() < (0.6 if own_lines else 0.15):
                if own_lines and rng.random() < 0.7:
                    line = list(reversed(own_lines[0])) if rng.random() < 0.6 else rng.sample(own_lines[0], len(own_lines[0]))
                else:
                    line = rng.sample(range(len(names_x)), rng.choice([3, min(4, len(names_x))]))
                links.append(dict(atoms=[[names_x[i], {"resname": x["name"]}] for i in line],
                                  ixns=[["exclusions", [names_x[i] for i in line], [], {}]], edges=[], nonedges=[], patterns=[],
                                  c14=dict(kind="intra-excl", x=x["name"], line=line)))
    for x in blocks:
        n = len(x["atoms"])
        if n >= 3 and rng.random() < 0.25:
            i, j = rng.sample(range(n), 2)
            if abs(i - j) >= 2:
                names_x = [a["name"] for a in x["atoms"]]
                links.append(dict(atoms=[[names_x[i], {"resname": x["name"]}], [names_x[j], {"resname": x["name"]}]],
                                  ixns=[["bonds", [names_x[i], names_x[j]], ["1", "0.29", "650"], {}]], edges=[], nonedges=[], patterns=[],
                                  c14=dict(kind="intra-bond", x=x["name"])))
    # a link that REMOVES an atom (`replace: {atomname: null}`) that is not a leaf of its block: an inner atom of the
    # chain or, after closing the block into a ring, a ring atom — the atoms next to it end up farther apart (or apart)
    # in the written molecule, and the exclusions must follow the WRITTEN bonds
    removal = None
    if syntax == "ff" and rng.random() < 0.15:
        cands = [x for x in blocks if len(x["atoms"]) >= 3]
        if cands:
            x = rng.choice(cands)
            n = len(x["atoms"])
            if rng.random() < 0.6 and not any(item[0] in ("bonds", "constraints") and sorted(item[1]) == [0, n - 1] for item in x["ixns"]):
                x["ixns"].append(["bonds", [0, n - 1], ["1", "0.31", "950"], {}])        # ring closure inside the block
            r = rng.randint(1, n - 2)
            removal = dict(x=x["name"], idx=r)
            links.append(dict(atoms=[[x["atoms"][r]["name"], {"resname": x["name"], "replace": {"atomname": None}}]],
                              ixns=[], edges=[], nonedges=[], patterns=[], c14=dict(kind="remove", x=x["name"], idx=r)))
    # in a file the sections of one block must be contiguous
    for block in blocks:
        order = []
        for item in block["ixns"]:
            if item[0] not in order:
                order.append(item[0])
        block["ixns"] = [item for sec in order for item in block["ixns"] if item[0] == sec]
    nres = rng.randint(1, max_res) if rng.random() < 0.1 else rng.randint(2, max_res)
    graph = G.gen_graph(rng, nres, names, labelled=0.0, permute=0.3, start=rng.choice([1, 1, 1, 7, 28]))
    if rng.random() < 0.25:
        graph = G.rekey_graph(rng, graph)          # node keys with an offset / gaps / permuted / reversed
    case = dict(blocks=blocks, links=links, graph=graph)
    # a bond made by a link that addresses atoms by number ([ molmeta ] by_atom_id true): ring closure / cross-link
    if nres >= 2 and rng.random() < 0.3:
        own = c10.ownership(case)
        gone = removed_atoms(case)
        own = {k: [a for a in atoms if a not in gone] for k, atoms in own.items()}     # (numbers = node keys, which keep their gaps)
        ra, rb = rng.sample(sorted(own), 2)
        a, b = rng.choice(own[ra]) + 1, rng.choice(own[rb]) + 1
        # the connection is a bond or — as in Martini-like models — a constraint: both are bonds of the written
        # molecule and both must carry the exclusions across the junction
        if rng.random() < 0.5:
            ixn = ["bonds", [str(a), str(b)], ["1", "0.41", "700"], {}]
        else:
            ixn = ["constraints", [str(a), str(b)], ["1", "0.41"], {}]
        links.append(dict(molmeta={"by_atom_id": True}, atoms=[], edges=[], nonedges=[], patterns=[], ixns=[ixn]))
    return case


def removed_atoms(case):
    """node keys (= atom indices before removal) of the atoms the removing links of the case take out"""
    own = c10.ownership(case)
    gone = set()
    for link in case["links"]:
        info = link.get("c14") or {}
        if info.get("kind") == "remove":
            for key, _resid, resname in case["graph"]["nodes"]:
                if resname == info["x"]:
                    gone.add(own[key][info["idx"]])
    return gone


# ------------------------------------------------------------------------------------------ real run

def parse_itp(text):
    nrexcl, natoms, edges, listed, section, params = None, 0, [], [], None, []
    for line in text.splitlines():
        line = line.split(";")[0].strip()
        if not line or line.startswith("#"):
            continue
        if line.startswith("["):
            section = line.strip("[] ").lower()
            continue
        toks = line.split()
        if section == "moleculetype":
            nrexcl = int(toks[1])
        elif section == "atoms":
            natoms += 1
        elif section in ("bonds", "constraints"):
            edges.append([int(toks[0]) - 1, int(toks[1]) - 1])
            params.append(toks[2:])
        elif section == "exclusions":
            first = int(toks[0]) - 1
            listed += [[first, int(t) - 1] for t in toks[1:]]
    return nrexcl, natoms, edges, listed, params


def expected_explicit(case, edges_w, params_w):
    """the pairs blocks and links exclude explicitly, computed from the abstract force field (GROMACS reading of a line:
    first atom against each of the others); an inter-residue link's exclusion applies to every adjacent residue pair with its names and resid relation"""
    own = c10.ownership(case)
    blocks = {b["name"]: b for b in case["blocks"]}
    owner = {a: key for key, atoms in own.items() for a in atoms}
    resname = {key: name for key, _resid, name in case["graph"]["nodes"]}
    pairs = set()

    gone = removed_atoms(case)

    def add_line(atoms):
        if any(a in gone for a in atoms):
            return          # an interaction line that mentions a removed atom is dropped as a whole
        for other in atoms[1:]:
            if other != atoms[0]:
                pairs.add(tuple(sorted((atoms[0], other))))
    for key, name in resname.items():
        for section, idxs, _p, _m in blocks[name]["ixns"]:
            if section == "exclusions":
                add_line([own[key][i] for i in idxs])
    for link in case["links"]:
        info = link.get("c14")
        if not info:
            continue
        if info["kind"] == "intra-excl":
            for key, name in resname.items():
                if name == info["x"]:
                    add_line([own[key][i] for i in info["line"]])
        elif info["kind"] == "inter" and info["excl"] is not None:
            # a two-residue link `a >b` / `a +b` (atoms always present and unique) applies to every pair of ADJACENT residues
            # with the two names whose resids are in the demanded relation
            names_x = [a["name"] for a in blocks[info["x"]]["atoms"]]
            names_y = [a["name"] for a in blocks[info["y"]]["atoms"]]
            resid = {key: r for key, r, _n in case["graph"]["nodes"]}
            for u, v, _lt in case["graph"]["edges"]:
                for i, j in ((u, v), (v, u)):
                    fits = resid[j] > resid[i] if info["prefix"] == ">" else resid[j] == resid[i] + 1
                    if resname[i] == info["x"] and resname[j] == info["y"] and fits:
                        add_line([own[i][names_x.index(info["a"])], own[j][names_y.index(info["excl"])]])
    if gone:
        total = sum(len(atoms) for atoms in own.values())
        rank, k = {}, 0
        for a in range(total):
            if a not in gone:
                rank[a] = k
                k += 1
        pairs = {tuple(sorted((rank[p], rank[q]))) for p, q in pairs if p not in gone and q not in gone}
    return sorted(pairs)


def one_case(ctx, case):
    from polyply.src.gen_itp import gen_params
    import polyply.src.apply_links as al
    import polyply.src.map_to_molecule as mm
    replay = dict(case=case)
    seen = {}
    original_expand = al.expand_excl
    original_tag = mm.tag_exclusions

    def spy_expand(molecule):
        seen["nrexcl"] = int(molecule.nrexcl)
        seen["tags"] = [[int(k), int(molecule.nodes[k]["exclude"])] for k in molecule.nodes if "exclude" in molecule.nodes[k]]
        seen["edges"] = [[int(u), int(v)] for u, v in molecule.edges]
        seen["keys"] = [int(k) for k in molecule.nodes]
        before = [[int(a) for a in ixn.atoms] for ixn in molecule.interactions.get("exclusions", [])]
        result = original_expand(molecule)
        after = [[int(a) for a in ixn.atoms] for ixn in molecule.interactions.get("exclusions", [])]
        seen["explicit"] = before
        seen["generated"] = after[len(before):]
        return result

    def spy_tag(node_to_block, force_field):
        seen["excls"] = [int(force_field.blocks[node_to_block[node]].nrexcl) for node in node_to_block]
        result = original_tag(node_to_block, force_field)
        seen["after_tag"] = sorted({int(force_field.blocks[node_to_block[node]].nrexcl) for node in node_to_block})
        seen["tagged"] = any("exclude" in force_field.blocks[node_to_block[node]].nodes[a]
                             for node in node_to_block for a in force_field.blocks[node_to_block[node]].nodes)
        # the tag every residue's atoms carry (one value per residue, blocks are tagged as a whole)
        seen["tag_values"] = []
        for node in node_to_block:
            block = force_field.blocks[node_to_block[node]]
            values = sorted({int(block.nodes[a]["exclude"]) for a in block.nodes if "exclude" in block.nodes[a]})
            if values:
                seen["tag_values"].append(values[0] if len(values) == 1 else values)
        return result

    with tempfile.TemporaryDirectory() as tmp:
        paths, seq = c10.write_files(case, tmp)
        out = pathlib.Path(os.path.join(tmp, "out.itp"))
        al.expand_excl = spy_expand
        mm.tag_exclusions = spy_tag
        try:
            gen_params(name="verif", outpath=out, inpath=paths, seq_file=seq)
            text = out.read_text()
        except Exception as err:  # pylint: disable=broad-except
            ctx.oracle_fail("pipeline-raises", "gen_params raised %s: %s on a valid input %s" % (type(err).__name__, str(err)[:200], case["graph"]), replay)
            return None
        finally:
            al.expand_excl = original_expand
            mm.tag_exclusions = original_tag
    nrexcl_w, natoms, edges_w, listed_w, params_w = parse_itp(text)
    own = c10.ownership(case)
    block_e = {b["name"]: b["nrexcl"] for b in case["blocks"]}
    e = []
    for key, _resid, resname in case["graph"]["nodes"]:
        e += [[a, block_e[resname]] for a in own[key]]
    e.sort()
    gone = removed_atoms(case)
    if gone:
        # the written molecule numbers the surviving atoms consecutively
        e = [[k, dist] for k, (_a, dist) in enumerate(pair for pair in e if pair[0] not in gone)]
    reqs = []
    if "excls" in seen:
        reqs.append(("tag", dict(op="tag", excls=seen["excls"])))
    if "nrexcl" in seen:
        reqs.append(("expand", dict(op="expand", nrexcl=seen["nrexcl"], tags=seen["tags"], edges=seen["edges"])))
    reqs.append(("spec", dict(op="spec", atoms=list(range(natoms)), e=e, edges=edges_w, nrexcl=nrexcl_w, listed=listed_w)))
    return dict(case=case, replay=replay, seen=seen, nrexcl_w=nrexcl_w, natoms=natoms, edges_w=edges_w, listed_w=listed_w,
                e=e, reqs=reqs, explicit=(expected_explicit(case, edges_w, params_w) if natoms == len(e) else []))


def upairs(lines):
    """unordered pairs of a list of exclusion entries, each read as GROMACS reads an [ exclusions ] line:
    the first atom against each of the others"""
    return sorted({tuple(sorted((line[0], other))) for line in lines for other in line[1:]})


def judge(ctx, item, answers):
    case, replay, seen = item["case"], item["replay"], item["seen"]
    ans = {name: a for (name, _), a in zip(item["reqs"], answers)}
    used = sorted({e for _a, e in item["e"]})
    mixed = len(used) > 1
    # ---- model of the code vs the code
    if "tag" in ans and ans["tag"].get("ok"):
        impl = dict(nrexcl=(seen["after_tag"][0] if len(seen["after_tag"]) == 1 else seen["after_tag"]), tagged=seen["tagged"],
                    tags=seen["tag_values"])
        ctx.correspond("tagExclusions", impl, dict(nrexcl=ans["tag"]["nrexcl"], tagged=ans["tag"]["tagged"], tags=ans["tag"]["tags"]), replay)
    if "expand" in ans and ans["expand"].get("ok"):
        ctx.correspond("expandExcl", sorted(seen["generated"]), sorted(ans["expand"]["generated"]), replay)
        ctx.traces += 1
    # ---- the property on the written molecule
    spec = ans["spec"]
    explicit = [tuple(p) for p in item["explicit"]]
    if explicit != upairs(seen.get("explicit", [])):
        ctx.tally(explicit_differs_from_molecule_state=True)
    want = sorted(set(map(tuple, spec["want"])) | set(explicit))
    got = sorted(map(tuple, spec["effective"]))
    if item["natoms"] != len(item["e"]):
        ctx.oracle_fail("atom-count", "written molecule has %d atoms, the residues own %d" % (item["natoms"], len(item["e"])), replay)
    elif want != got:
        e_of = dict(item["e"])
        missing = [p for p in want if p not in got][:4]
        extra = [p for p in got if p not in want][:4]
        shape = "pair-not-excluded" if missing else "pair-excluded-beyond-prescribed-distance"
        ctx.oracle_fail(shape, "written nrexcl=%s; pairs that must be excluded but are not: %s; pairs excluded although farther apart than "
                        "both blocks prescribe and not explicit: %s (e of the atoms: %s) | graph=%s"
                        % (item["nrexcl_w"], missing, extra, {a: e_of[a] for p in missing + extra for a in p}, case["graph"]), replay)
    if not mixed and used:
        if item["nrexcl_w"] != used[0]:
            ctx.oracle_fail("uniform-nrexcl-changed", "all residues prescribe nrexcl %d, the molecule is written with %s" % (used[0], item["nrexcl_w"]), replay)
        invented = [p for p in upairs(item["listed_w"]) if p not in explicit]
        if invented:
            ctx.oracle_fail("uniform-exclusions-invented", "uniform exclusion distance %d but exclusions %s were added" % (used[0], invented[:4]), replay)
    if mixed and item["nrexcl_w"] != used[0]:
        # not demanded literally by the statement, but the effective set above already fails if this matters
        ctx.tally(mixed_nrexcl_not_min=True)
    listed_u = [tuple(sorted((p[0], q))) for p in seen.get("generated", []) for q in p[1:]]
    if len(listed_u) != len(set(listed_u)):
        ctx.oracle_fail("generated-pair-twice", "a generated exclusion pair is listed twice: %s" % sorted(listed_u)[:6], replay)
    inter = any(len({next(k for k, atoms in c10.ownership(case).items() if x in atoms) for x in edge}) > 1 for edge in item["edges_w"])
    key = json.dumps(case, sort_keys=True) if (mixed and inter) else None
    ctx.case(key, sample=dict(graph=case["graph"], nrexcl=[b["nrexcl"] for b in case["blocks"]], written_nrexcl=item["nrexcl_w"],
                              generated=len(seen.get("generated", []))),
             mixed=mixed, spread=(max(used) - min(used) if used else 0), generated=("0" if not seen.get("generated") else "1-5" if len(seen["generated"]) <= 5 else "6+"),
             explicit=bool(explicit), syntax=c02_syntax(case), written_nrexcl=item["nrexcl_w"])


def c02_syntax(case):
    kinds = {b.get("syntax", "ff") for b in case["blocks"]}
    return "mixed" if len(kinds) > 1 else kinds.pop()


def run_cases(ctx, cases):
    items = [x for x in (one_case(ctx, c) for c in cases) if x is not None]
    reqs = [r for item in items for _name, r in item["reqs"]]
    answers = ctx.driver.ask(reqs) if reqs else []
    pos = 0
    for item in items:
        n = len(item["reqs"])
        judge(ctx, item, answers[pos:pos + n])
        pos += n


def corpus_cases():
    path = os.path.join(common.VERIF, "corpus", "C14")
    out = []
    if os.path.isdir(path):
        for name in sorted(os.listdir(path)):
            data = json.load(open(os.path.join(path, name)))
            out.append((data.get("input") or data)["case"])
    return out


# ------------------------------------------------------------------------------------------ exhaustive small shapes

def small_graphs(max_nodes=4, extra_paths=(5, 6)):
    """connected graphs on 1..max_nodes nodes up to isomorphism (one labelling each) + longer paths"""
    import itertools
    out = []
    for n in range(1, max_nodes + 1):
        pairs = list(itertools.combinations(range(n), 2))
        seen = set()
        for mask in range(2 ** len(pairs)):
            edges = [pairs[b] for b in range(len(pairs)) if mask >> b & 1]
            reach, grew = {0}, True
            while grew:
                new = {v for u, v in edges if u in reach} | {u for u, v in edges if v in reach}
                grew = not new <= reach
                reach |= new
            if len(reach) < n:
                continue
            canon = min(tuple(sorted(tuple(sorted((perm[u], perm[v]))) for u, v in edges)) for perm in itertools.permutations(range(n)))
            if canon in seen:
                continue
            seen.add(canon)
            out.append((n, [list(e) for e in edges]))
    for n in extra_paths:
        out.append((n, [[i, i + 1] for i in range(n - 1)]))
    return out


def run_exhaustive(ctx):
    """EXHAUSTIVE direct streams (no force field, no files): the repository's `graph_utils.neighborhood` on every
    small connected graph x source x max_length 0..4 x min_length 0..5, and `apply_links.expand_excl` on every
    small connected graph x nrexcl 0..2 x every assignment of {no tag, 1, 2, 3} to the atoms (graphs <= 3 atoms)
    resp. {no tag, 2, 3} (4 atoms), vs `Excl.neighborhood` / `Excl.expandExcl`; oracle of the statement
    (`specPairs` vs `effectivePairs`) wherever every tag is >= nrexcl (what `tag_exclusions` produces)"""
    import itertools
    import networkx as nx
    import vermouth
    from polyply.src.graph_utils import neighborhood
    from polyply.src.apply_links import expand_excl
    graphs = small_graphs()
    reqs, impl, labels = [], [], []
    for n, edges in graphs:
        graph = nx.Graph()
        graph.add_nodes_from(range(n))
        graph.add_edges_from(edges)
        for source in range(n):
            for max_length in range(5):
                for min_length in range(6):
                    impl.append(sorted(int(x) for x in neighborhood(graph, source, max_length, min_length)))
                    # oracle (own breadth-first distances): the nodes whose shortest path from `source` has at most
                    # `max_length` edges and at least `min_length` NODES
                    dist, frontier = {source: 0}, [source]
                    while frontier:
                        nxt = []
                        for u in frontier:
                            for a, b in edges:
                                for x, y in ((a, b), (b, a)):
                                    if x == u and y not in dist:
                                        dist[y] = dist[u] + 1
                                        nxt.append(y)
                        frontier = nxt
                    want = sorted(v for v, d in dist.items() if d <= max_length and d + 1 >= min_length)
                    if impl[-1] != want and not any(f["shape"] == "neighborhood-wrong" for f in ctx.failures):
                        ctx.oracle_fail("neighborhood-wrong", "neighborhood(graph with edges %s, source=%d, max_length=%d, min_length=%d) "
                                        "returns %s, the nodes at that path length are %s" % (edges, source, max_length, min_length, impl[-1], want),
                                        dict(stream="neighborhood", edges=edges, source=source, max=max_length, min=min_length))
                    reqs.append(dict(op="neighborhood", edges=edges, source=source, max=max_length, min=min_length))
                    labels.append((n, edges, source, max_length, min_length))
    answers = ctx.driver.ask(reqs)
    model = [sorted(a.get("nodes", ["model-rejects"])) for a in answers]
    bad = [(l, i, m) for l, i, m in zip(labels, impl, model) if i != m][:5]
    ctx.correspond("neighborhood", impl, model, dict(stream="neighborhood", first_differences=bad))
    ctx.tally(neighborhood_exhaustive=len(reqs))
    # ---- expand_excl
    reqs, todo = [], []
    for n, edges in graphs:
        if n > 4:
            continue
        values = [None, 1, 2, 3] if n <= 3 else [None, 2, 3]
        for nrexcl in (0, 1, 2):
            for tags in itertools.product(values, repeat=n):
                mol = vermouth.molecule.Molecule()
                mol.nrexcl = nrexcl
                for i in range(n):
                    if tags[i] is None:
                        mol.add_node(i)
                    else:
                        mol.add_node(i, exclude=tags[i])
                mol.add_edges_from(edges)
                expand_excl(mol)
                got = [sorted(int(a) for a in ixn.atoms) for ixn in mol.interactions.get("exclusions", [])]
                tag_list = [[i, t] for i, t in enumerate(tags) if t is not None]
                reqs.append(dict(op="expand", nrexcl=nrexcl, tags=tag_list, edges=edges))
                e_of = [[i, (t if t is not None else nrexcl)] for i, t in enumerate(tags)]
                reqs.append(dict(op="spec", atoms=list(range(n)), e=e_of, edges=edges, nrexcl=nrexcl, listed=got))
                todo.append((dict(stream="expand-exhaustive", n=n, edges=edges, nrexcl=nrexcl, tags=list(tags)), got))
    answers = ctx.driver.ask(reqs)
    bad, bad_oracle = [], []
    impl_all, model_all = [], []
    for idx, (replay, got) in enumerate(todo):
        exp, spec = answers[2 * idx], answers[2 * idx + 1]
        impl_all.append(sorted(got))
        model_all.append(sorted(sorted(p) for p in exp.get("generated", [["model-rejects"]])))
        if impl_all[-1] != model_all[-1] and len(bad) < 5:
            bad.append((replay, impl_all[-1], model_all[-1]))
        if got and all(t is None or t == replay["nrexcl"] for t in replay["tags"]):
            ctx.oracle_fail("uniform-exclusions-invented", "every atom prescribes the exclusion distance %d of the molecule, yet "
                            "expand_excl adds %s (%s)" % (replay["nrexcl"], got, replay), replay)
        if len(got) != len({tuple(p) for p in got}):
            ctx.oracle_fail("generated-pair-twice", "expand_excl lists a pair twice: %s on %s" % (got, replay), replay)
        if all(t is None or t >= replay["nrexcl"] for t in replay["tags"]) and spec.get("ok"):
            want, eff = sorted(map(tuple, spec["want"])), sorted(map(tuple, spec["effective"]))
            if want != eff:
                shape = "pair-not-excluded" if [p for p in want if p not in eff] else "pair-excluded-beyond-prescribed-distance"
                ctx.oracle_fail(shape, "expand_excl on %s: pairs within the prescribed distances %s, pairs excluded (nrexcl or "
                                "generated) %s" % (replay, want, eff), replay)
    ctx.correspond("expandExcl-exhaustive", impl_all, model_all, dict(stream="expand-exhaustive", first_differences=bad))
    ctx.tally(expand_excl_exhaustive=len(todo))
    ctx.case("exhaustive-small-shapes", stream="exhaustive")


# ------------------------------------------------------------------------------------------ several molecules, one force field

def _molecule_exclusions(force_field, graph_case):
    """MapToMolecule + ApplyLinks on a fresh MetaMolecule of `graph_case["graph"]` with the GIVEN force-field object"""
    import networkx as nx
    from polyply.src.meta_molecule import MetaMolecule
    from polyply.src.map_to_molecule import MapToMolecule
    from polyply.src.apply_links import ApplyLinks
    graph = nx.Graph()
    for key, resid, resname in graph_case["graph"]["nodes"]:
        graph.add_node(key, resid=resid, resname=resname)
    for u, v, _lt in graph_case["graph"]["edges"]:
        graph.add_edge(u, v)
    meta = MetaMolecule(graph, force_field=force_field, mol_name="verif")
    MapToMolecule(force_field).run_molecule(meta)
    ApplyLinks().run_molecule(meta)
    mol = meta.molecule
    return dict(nrexcl=int(mol.nrexcl),
                exclusions=sorted(sorted(int(a) for a in ixn.atoms) for ixn in mol.interactions.get("exclusions", [])),
                edges=sorted(sorted((int(u), int(v))) for u, v in mol.edges))


def run_history(ctx, count):
    """Several molecules made one after the other from ONE loaded force field (the library API: `MapToMolecule(ff)` /
    `ApplyLinks()` per chain of a system; `tag_exclusions` lowers `nrexcl` of the shared blocks and leaves the
    `exclude` tags on them): the second molecule must get the exclusion distance and the exclusions it gets from a
    freshly read force field.  Domain: both molecules use the same set of blocks (see notes/C14_findings.md for what
    the unchanged code does when the second molecule brings a block the first one did not use)."""
    rng = ctx.rng
    done = tries = 0
    while done < count and tries < 20 * count:
        tries += 1
        case = gen_case(rng, ctx.budget(6, 9))
        case["links"] = [l for l in case["links"] if not (l.get("molmeta") or {}).get("by_atom_id")]   # they address ONE molecule
        names = sorted({n for _k, _r, n in case["graph"]["nodes"]})
        if len({b["nrexcl"] for b in case["blocks"] if b["name"] in names}) < 2:
            continue
        second = dict(case, graph=G.gen_graph(rng, rng.randint(2, ctx.budget(6, 9)), names, labelled=0.0, permute=0.3))
        if sorted({n for _k, _r, n in second["graph"]["nodes"]}) != names:
            continue
        done += 1
        replay = dict(stream="history", case=case, second=second["graph"])
        try:
            with tempfile.TemporaryDirectory() as tmp:
                shared, _meta = G.build(case, tmp)
            first = _molecule_exclusions(shared, case)
            again = _molecule_exclusions(shared, second)
            with tempfile.TemporaryDirectory() as tmp:
                fresh_ff, _meta = G.build(second, tmp)
            fresh = _molecule_exclusions(fresh_ff, second)
        except Exception as err:  # pylint: disable=broad-except
            ctx.oracle_fail("pipeline-raises", "two molecules from one force field: %s: %s" % (type(err).__name__, str(err)[:200]), replay)
            continue
        if again != fresh:
            ctx.oracle_fail("history-changes-exclusions", "second molecule made from the same ForceField object: nrexcl %s, exclusions %s; "
                            "from a freshly read force field: nrexcl %s, exclusions %s (first molecule: %s; second graph %s)"
                            % (again["nrexcl"], [p for p in again["exclusions"] if p not in fresh["exclusions"]][:6] or "same",
                               fresh["nrexcl"], [p for p in fresh["exclusions"] if p not in again["exclusions"]][:6] or "same",
                               case["graph"], second["graph"]), replay)
        ctx.case(("history", json.dumps(replay, sort_keys=True)), stream="history", history_generated=bool(fresh["exclusions"]))
        ctx.traces += 1


def run(ctx):
    ctx.extra["rule"] = RULE
    ctx.extra["trusted"] = ["networkx single_source_shortest_path (modelled by breadth-first levels)",
                            "vermouth write_molecule_itp ([ moleculetype ] nrexcl, [ exclusions ] lines as written)"]
    ctx.assumptions += [
        "exclusion distance of an atom = nrexcl of the block of the residue that owns it (residues in resid order own consecutive atoms)",
        "explicit exclusions = computed from the generated force field: block lines per residue, one-residue link lines per residue of "
        "that name, and the exclusion of an inter-residue link for every adjacent residue pair with its names and resid relation",
        "generated force fields keep angle/dihedral-consecutive atoms bonded (DESIGN C14 domain note)",
    ]
    ctx.extra["explanation"] = ("oracle = Excl.specPairs ∪ explicit vs Excl.effectivePairs, both evaluated by the Lean driver on the "
                                "written .itp (nrexcl, [bonds]/[constraints], [exclusions])")
    run_exhaustive(ctx)
    run_history(ctx, ctx.budget(60, 800))
    rng = ctx.rng
    cases = corpus_cases()
    for _ in range(ctx.budget(500, 5000)):
        cases.append(gen_case(rng, ctx.budget(7, 10)))
    for start in range(0, len(cases), 500):
        run_cases(ctx, cases[start:start + 500])


def replay(ctx, data):
    inp = data.get("input") or {}
    items = [inp] if inp else [i["input"] for i in data.get("no_longer_checks", []) if i.get("input")]
    for item in [i for i in items if i.get("stream") == "history"]:
        with tempfile.TemporaryDirectory() as tmp:
            shared, _m = G.build(item["case"], tmp)
        second = dict(item["case"], graph=item["second"])
        _molecule_exclusions(shared, item["case"])
        again = _molecule_exclusions(shared, second)
        with tempfile.TemporaryDirectory() as tmp:
            fresh_ff, _m = G.build(second, tmp)
        if again != _molecule_exclusions(fresh_ff, second):
            ctx.oracle_fail("history-changes-exclusions", "replayed: second molecule from the shared force field differs from a fresh one", item)
    if any(item.get("stream") in ("expand-exhaustive", "neighborhood") for item in items):
        run_exhaustive(ctx)
    run_cases(ctx, [item["case"] for item in items if "case" in item])
    for b in ctx.broken:
        print("REPLAY-DISAGREES", b["name"], b["detail"][:600])
