"""C04 — supplied coordinates are preserved; only missing parts are built.

Statement (properties.jsonl, fixed): "Atoms whose coordinates are given in the input structure keep
exactly those coordinates in the output, residues given only as centre positions are backmapped around
exactly those centres, and residues named for rebuilding or missing from the input are the only ones
generated. Molecules listed to be ignored are not moved and do not disturb the building of the others
wherever they occur in the topology, and a failed placement attempt never alters or discards supplied
coordinates."

Streams (all on the REAL code, in-process):
  consume   real `Topology.add_positions_from_file` on generated .top/.gro (given / centre-only / missing,
            whole molecules and partial chains, `-res` names, incomplete residues) vs `Supply.consume`
            (correspondence) and vs the specification `Supply.expected` at `Supply.offset` (oracle)
  gndx      real `NonBondEngine.from_topology(..., ignore=)` index table vs `Supply.gndxTable`, oracle `specTable`
  machine   real `BuildSystem.run_system` under scripted schedules (shared with C17, harness/c17.py) on
            systems with partial chains and ignored types anywhere; oracle `specSuppliedKept` etc.
  e2e       real `gen_coords` on small generated systems in a temp dir: what the Lean specification
            (`expected`/`offset`) says is supplied must be found unchanged in the output .gro, centre-only
            residues must have their centre of geometry at the centre, everything else finite; with
            `-res`, `-ign` anywhere in [molecules], and the first k attempts forced to fail
"""
import json
import math
import os
import random
import tempfile
from fractions import Fraction
from pathlib import Path

# tiny arrays only: BLAS/OpenMP thread pools just oversubscribe the machine
for _var in ("OMP_NUM_THREADS", "OPENBLAS_NUM_THREADS", "MKL_NUM_THREADS"):
    os.environ.setdefault(_var, "1")
import numpy as np  # noqa: E402

import common
import c17

RULE = ("consume: random systems (1-3 molecule types, 1-6 residues of 1-3 atoms, permuted atom indices), random "
        "number of coordinates (cut at residue borders and inside residues), random -res names, both resolutions; "
        "gndx/machine: C17 generator with ignored types anywhere; e2e: gen_coords with -c prefix / -mc prefix / "
        "-res / -ign and 0-3 forced failing attempts; non-trivial = at least one supplied and one generated residue "
        "(consume, e2e) or a failed trial with supplied residues (machine); distinct = full input")
TRUSTED = c17.TRUSTED + [
    "coordinate file reader (vermouth read_gro) modelled as the list of positions in file order",
    "np.average modelled as the exact mean (compared with relative tolerance 1e-9)",
    "template generation and orientation (GenerateTemplates, orient_template / L-BFGS-B) are arbitrary in the model; "
    "the e2e oracle only needs the centre of geometry, compared at .gro precision (1e-3)",
]


# ------------------------------------------------------------------------------------------------ file writers

def write_top(path, types, listing):
    """types: name -> dict(residues=[(resname, natoms)], parents=[parent residue index], perm=bool)"""
    with open(path, "w") as out:
        out.write("[ defaults ]\n1 1 no 1.0 1.0\n[ atomtypes ]\nP 72.0 0.0 A 0.1 0.1\n"
                  "[ nonbond_params ]\nP P 1 0.1 0.1\n")
        for name, spec in types.items():
            out.write("[ moleculetype ]\n%s 1\n[ atoms ]\n" % name)
            k = 1
            firsts, bonds = [], []
            resids = spec.get("resids") or list(range(1, len(spec["residues"]) + 1))
            for ridx, (resname, natoms) in enumerate(spec["residues"]):
                firsts.append(k)
                for a in range(natoms):
                    out.write("%d P %d %s A%d %d 0.0 72.0\n" % (k, resids[ridx], resname, a, k))
                    if a > 0:
                        bonds.append((k - 1, k))
                    k += 1
            for ridx, parent in enumerate(spec["parents"]):
                if parent is not None:
                    bonds.append((firsts[parent], firsts[ridx]))
            if bonds:
                out.write("[ bonds ]\n")
                for a, b in bonds:
                    out.write("%d %d 1 0.3 1250\n" % (a, b))
        out.write("[ system ]\ntest\n[ molecules ]\n")
        for name, count in listing:
            out.write("%s %d\n" % (name, count))


def write_gro(path, atoms, box):
    """atoms: list of (resid, resname, atomname, (x, y, z)) with coordinates given as strings '%.3f'"""
    with open(path, "w") as out:
        out.write("verif\n%d\n" % len(atoms))
        for idx, (resid, resname, atomname, xyz) in enumerate(atoms):
            out.write("%5d%-5s%5s%5d%8s%8s%8s\n" % (resid % 100000, resname, atomname, (idx + 1) % 100000,
                                                   xyz[0], xyz[1], xyz[2]))
        out.write("%s %s %s\n" % box)


def write_pdb(path, atoms, box, models=1, ter_every=0):
    """same atoms as a PDB file (coordinates in Angstrom, CRYST1 box); `models` > 1 adds further MODEL
    blocks with other coordinates (only the first counts), `ter_every` puts TER records between atoms"""
    with open(path, "w") as out:
        out.write("TITLE     verif\n")
        out.write("CRYST1%9.3f%9.3f%9.3f%7.2f%7.2f%7.2f P 1           1\n"
                  % (float(box[0]) * 10, float(box[1]) * 10, float(box[2]) * 10, 90, 90, 90))
        for model in range(models):
            if models > 1:
                out.write("MODEL     %4d\n" % (model + 1))
            for idx, (resid, resname, atomname, xyz) in enumerate(atoms):
                x, y, z = [round(float(v) * 10 + 3.0 * model, 3) for v in xyz]
                out.write("ATOM  %5d %-4s %-4s%1s%4d    %8.3f%8.3f%8.3f%6.2f%6.2f\n"
                          % ((idx + 1) % 100000, atomname[:4], resname[:4], "A", resid % 10000, x, y, z, 1.0, 0.0))
                if ter_every and (idx + 1) % ter_every == 0 and idx + 1 < len(atoms):
                    out.write("TER\n")
            if models > 1:
                out.write("ENDMDL\n")
        out.write("END\n")


FORMATS = ["gro", "gro", "pdb", "pdb", "pdb-models", "pdb-ter"]


def write_coords(base, kind, atoms, box):
    """write the input structure in the given format; returns the path.  (A PDB file without a single atom
    record makes `_coord_parser` raise IndexError on `molecules[0]` — noted in notes/C04_findings.md, an empty
    structure is not an input the property speaks about — so an empty structure is always written as .gro.)"""
    if kind == "gro" or not atoms:
        path = Path(str(base) + ".gro")
        write_gro(path, atoms, box)
    else:
        path = Path(str(base) + ".pdb")
        write_pdb(path, atoms, box, models=3 if kind == "pdb-models" else 1, ter_every=2 if kind == "pdb-ter" else 0)
    return path


def read_positions(path):
    """the trusted reader (vermouth, nothing excluded): every atom record of the file, in file order"""
    import networkx as nx
    from vermouth.gmx.gro import read_gro
    from vermouth.pdb import read_pdb
    if str(path).endswith(".gro"):
        mols = [read_gro(path, exclude=())]
    else:
        mols = read_pdb(path, exclude=())
    return [[float(x) for x in mol.nodes[n]["position"]] for mol in mols for n in mol.nodes]


# residue names that coordinate readers or other tools treat specially (water, ions)
SPECIAL_NAMES = ["SOL", "HOH", "W", "NA", "CL", "ION", "TIP3"]


def fmt(x):
    return "%.3f" % x


def gen_types(rng, max_types=3, max_res=6, repeat_resids=True):
    types = {}
    specials = list(SPECIAL_NAMES)
    rng.shuffle(specials)
    for tidx in range(rng.randint(1, max_types)):
        name = "MOL" + "ABC"[tidx]
        nres = rng.randint(1, max_res)
        pool = ["R%s%d" % ("ABC"[tidx], i) for i in range(rng.randint(1, 3))]
        if rng.random() < 0.45:
            # water / ion like residue names (each used by one molecule type only)
            pool[rng.randrange(len(pool))] = specials.pop()
            if rng.random() < 0.3:
                pool = [pool[-1]] if pool[-1] in SPECIAL_NAMES else pool
        residues = [(rng.choice(pool), rng.randint(1, 3)) for _ in range(nres)]
        parents = [None] + [rng.randrange(i) if rng.random() < 0.3 else i - 1 for i in range(1, nres)]
        # residue numbers: normally 1..n; sometimes a residue repeats the number of its predecessor under
        # another name (residues are told apart by (resid, resname), as in vermouth's residue graph)
        resids = []
        for ridx, (resname, _) in enumerate(residues):
            if repeat_resids and ridx and rng.random() < 0.15 and residues[ridx - 1][0] != resname:
                resids.append(resids[-1])
            else:
                resids.append((resids[-1] + 1) if resids else 1)
        if repeat_resids and nres >= 3 and rng.random() < 0.2:
            # a di-block whose numbering restarts (1 2 3 1 2): two residues of ONE molecule share a residue
            # number (and possibly the name); they are not bonded to each other (linear chain, restart after
            # at least two residues), so they stay two residues
            k = rng.randint(2, nres - 1)
            resids = list(range(1, k + 1)) + list(range(1, nres - k + 1))
            parents = [None] + list(range(nres - 1))
            # the second block under other names (a di-block copolymer), so that (resid, resname) stays unique
            second = ["S%s%d" % ("ABC"[tidx], i) for i in range(2)]
            residues = residues[:k] + [(rng.choice(second), natoms) for _, natoms in residues[k:]]
        # polyply (vermouth's residue graph) identifies a residue with its (resid, resname): two stretches of a
        # molecule with the same pair ARE one residue, whatever the connectivity -- not generated
        if len({(i, r[0]) for i, r in zip(resids, residues)}) < len(residues):
            resids = list(range(1, nres + 1))
        types[name] = dict(residues=residues, parents=parents, resids=resids)
    return types


def gen_listing(rng, types, max_count=3):
    names = list(types)
    listing = [(name, rng.randint(1, max_count)) for name in names]
    if rng.random() < 0.5:
        extra = rng.choice(names)
        listing.append((extra, rng.randint(1, 2)))
    rng.shuffle(listing)
    return listing


def flat_residues(types, listing):
    """(molecule index, type name, residue index, resname, natoms) in topology order"""
    out = []
    midx = 0
    for name, count in listing:
        for _ in range(count):
            for ridx, (resname, natoms) in enumerate(types[name]["residues"]):
                out.append((midx, name, ridx, resname, natoms))
            midx += 1
    return out


def layout_points(count, rng, box=8.0):
    """distinct, well separated points with three decimals inside the box: a jittered 0.5 nm lattice"""
    per = int(box / 0.5) - 1
    cells = rng.sample(range(per ** 3), count)
    points = []
    for cell in cells:
        ix, iy, iz = cell % per, (cell // per) % per, cell // (per * per)
        points.append((0.4 + 0.5 * ix + rng.randint(0, 40) / 1000.0, 0.4 + 0.5 * iy + rng.randint(0, 40) / 1000.0,
                       0.4 + 0.5 * iz + rng.randint(0, 40) / 1000.0))
    return points


# ------------------------------------------------------------------------------------------------ stream: consume

def load_topology(top_path):
    from polyply.src.topology import Topology
    top = Topology.from_gmx_topfile(name="verif", path=top_path)
    top.preprocess()
    return top


def real_residues(top):
    """what the model needs of the real residue graphs, in the loop's order"""
    out = []
    for meta in top.molecules:
        for node in meta.nodes:
            graph = meta.nodes[node]["graph"]
            atoms = [[int(a), int(graph.nodes[a]["index"])] for a in graph.nodes if "index" in graph.nodes[a]]
            out.append(dict(resname=meta.nodes[node]["resname"], atoms=atoms))
    return out


def vec(v):
    return [common.rat_str(float(x)) for x in v]


def observe_topology(top, had_position=None):
    """flags, residue positions and atom positions after add_positions_from_file"""
    out = []
    for meta in top.molecules:
        for node in meta.nodes:
            data = meta.nodes[node]
            graph = data["graph"]
            atoms = []
            for atom in sorted(graph.nodes, key=lambda a: graph.nodes[a].get("index", 0)):
                if "position" in meta.molecule.nodes[atom]:
                    atoms.append([int(atom), vec(meta.molecule.nodes[atom]["position"])])
            out.append(dict(build=bool(data["build"]), backmap=bool(data["backmap"]),
                            pos=vec(data["position"]) if "position" in data else None, atoms=atoms))
    return out


def consume2_case(ctx, case, tmpdir):
    """`-c` then `-mc` on the same topology (both calls count from the first residue); correspondence only:
    the resulting state is the excluded point of the theorems, see C04_combined_counterexample"""
    top_path = Path(tmpdir) / "sys2.top"
    write_top(top_path, case["types"], case["listing"])
    rng = random.Random(case["seed"])
    pts = layout_points(case["ncoords"] + case["ncoords_meta"], rng)
    pts_c, pts_m = pts[:case["ncoords"]], pts[case["ncoords"]:]
    for name, chunk in (("c.gro", pts_c), ("m.gro", pts_m)):
        write_gro(Path(tmpdir) / name, [(i + 1, "X", "A", (fmt(p[0]), fmt(p[1]), fmt(p[2]))) for i, p in enumerate(chunk)],
                  ("8.0", "8.0", "8.0"))
    top = load_topology(top_path)
    residues = real_residues(top)
    try:
        top.add_positions_from_file(Path(tmpdir) / "c.gro", skip_res=list(case["skip"]), resolution="mol")
        top.add_positions_from_file(Path(tmpdir) / "m.gro", skip_res=list(case["skip"]), resolution="meta_mol")
        impl = observe_topology(top)
    except IOError:
        impl = "reject"
    except Exception as err:  # pylint: disable=broad-except
        impl = "crash:%s" % type(err).__name__
    conv = lambda chunk: [[common.rat_str(float(fmt(x))) for x in p] for p in chunk]
    req = dict(op="consume2", skip=list(case["skip"]), ps=conv(pts_c), ps_meta=conv(pts_m), residues=residues)
    return impl, req


def judge_consume2(ctx, case, impl, ans):
    replay = dict(stream="consume2", **case)
    if not ans.get("ok"):
        ctx.tie_broken("correspondence", "driver:C04", str(ans), replay)
        return
    model = ans["model"]
    if isinstance(impl, str) or model == "reject":
        ctx.correspond("add_positions_from_file-twice", impl if isinstance(impl, str) else "ok",
                       "reject" if model == "reject" else "ok", replay)
    else:
        agree = len(impl) == len(model) and all(same_out(i, m) for i, m in zip(impl, model))
        ctx.correspond("add_positions_from_file-twice", impl if not agree else "agree", model if not agree else "agree", replay)
    excluded = (not isinstance(impl, str)) and any(o["build"] and o["pos"] is not None for o in impl)
    ctx.case(json.dumps(case, sort_keys=True) if excluded else None, stream="consume2", reaches_build_and_supplied=excluded)


def close(a, b, tol=1e-9):
    if a is None or b is None:
        return a is None and b is None
    return all(abs(Fraction(x) - Fraction(y)) <= tol * max(1, abs(Fraction(y))) for x, y in zip(a, b))


def same_out(impl, model, exact_atoms=True):
    if impl["build"] != model["build"] or impl["backmap"] != model["backmap"]:
        return False
    if not close(impl["pos"], model["pos"]):
        return False
    if len(impl["atoms"]) != len(model["atoms"]):
        return False
    for (a1, v1), (a2, v2) in zip(impl["atoms"], model["atoms"]):
        if a1 != a2 or [Fraction(x) for x in v1] != [Fraction(x) for x in v2]:
            return False
    return True


def _desc(case):
    out = {k: case[k] for k in ("listing", "ncoords", "skip", "meta")}
    out["fmt"] = case.get("fmt", "gro")
    out["resnames"] = sorted({r[0] for t in case["types"].values() for r in t["residues"]})
    return out


def consume_case(ctx, case, tmpdir):
    """case: types, listing, ncoords, skip, meta"""
    top_path = Path(tmpdir) / "sys.top"
    gro_path = Path(tmpdir) / "in.gro"
    write_top(top_path, case["types"], case["listing"])
    rng = random.Random(case["seed"])
    pts = layout_points(case["ncoords"], rng)
    # atom records carry the names of the residues they are meant for (residues skipped by name are not
    # in the file); records beyond the topology are called XTR
    labels = []
    # residue numbers of the FILE: normally those of the topology; with `resid_base` a running number that
    # passes 99999 (.gro) / 9999 (.pdb) and wraps to 0 -- the reader is positional, the column must not matter
    base, running = case.get("resid_base"), 0
    for (_, _, ridx, resname, natoms) in flat_residues(case["types"], case["listing"]):
        if resname in case["skip"]:
            continue
        running += 1
        rid = (ridx + 1) if base is None else base + running
        if case["meta"]:
            labels.append((rid, resname, "C"))
        else:
            labels += [(rid, resname, "A%d" % a) for a in range(natoms)]
    labels += [(9999, "XTR", "X")] * max(0, len(pts) - len(labels))
    atoms = [(lab[0], lab[1], lab[2], (fmt(p[0]), fmt(p[1]), fmt(p[2]))) for lab, p in zip(labels, pts)]
    gro_path = write_coords(Path(tmpdir) / "in", case.get("fmt", "gro"), atoms, ("8.0", "8.0", "8.0"))
    top = load_topology(top_path)
    residues = real_residues(top)
    try:
        top.add_positions_from_file(gro_path, skip_res=list(case["skip"]),
                                    resolution="meta_mol" if case["meta"] else "mol")
        impl = observe_topology(top)
    except IOError:
        impl = "reject"
    except Exception as err:  # pylint: disable=broad-except
        impl = "crash:%s: %s" % (type(err).__name__, str(err)[:120])
    ps = [[common.rat_str(x) for x in p] for p in read_positions(gro_path)]
    req = dict(op="consume", skip=list(case["skip"]), meta=bool(case["meta"]), ps=ps, residues=residues)
    return impl, req, residues


def judge_consume(ctx, case, impl, ans):
    replay = dict(stream="consume", **case)
    if not ans.get("ok"):
        ctx.tie_broken("correspondence", "driver:C04", str(ans), replay)
        return
    model = ans["model"]
    if isinstance(impl, str) and impl.startswith("crash:"):
        ctx.correspond("add_positions_from_file", impl, "reject" if model == "reject" else "ok", replay)
        ctx.oracle_fail("add-positions-crashed", "add_positions_from_file raised %s on %s"
                        % (impl[6:], _desc(case)), replay)
        ctx.case(None, stream="consume", result="crash")
        return
    if impl == "reject" or model == "reject":
        ctx.correspond("add_positions_from_file", "reject" if impl == "reject" else "ok",
                       "reject" if model == "reject" else "ok", replay)
    else:
        agree = len(impl) == len(model) and all(same_out(i, m) for i, m in zip(impl, model))
        ctx.correspond("add_positions_from_file", impl if not agree else "agree", model if not agree else "agree", replay)
    # oracle: the specification at the residue's offset, on the implementation's output
    n_given = n_gen = 0
    if impl == "reject" and model != "reject":
        # every residue that starts reading is complete in the file, yet nothing is taken over
        ctx.oracle_fail("complete-input-rejected", "add_positions_from_file raised IOError although every residue that "
                        "reads coordinates is complete: %s" % _desc(case), replay)
    if impl != "reject":
        for idx, (got, want) in enumerate(zip(impl, ans["spec"])):
            if not same_out(got, want):
                ctx.oracle_fail("residue-not-as-specified",
                                "residue %d (offset %d) of %s: got %s, the property demands %s"
                                % (idx, ans["offsets"][idx], _desc(case),
                                   json.dumps(got)[:300], json.dumps(want)[:300]), replay)
                break
            if got["build"]:
                n_gen += 1
            else:
                n_given += 1
    key = json.dumps(case, sort_keys=True) if (n_given and n_gen) else None
    ctx.tally(input_format=case.get("fmt", "gro"),
              file_resids="wrap-around (base %s)" % case["resid_base"] if case.get("resid_base") else "as topology",
              special_resnames=any(r[0] in SPECIAL_NAMES for t in case["types"].values() for r in t["residues"]))
    ctx.case(key, sample=dict(stream="consume", listing=case["listing"], ncoords=case["ncoords"], skip=case["skip"],
                              meta=case["meta"], fmt=case.get("fmt", "gro"), result="reject" if impl == "reject" else "%d given %d to build" % (n_given, n_gen)),
             stream="consume", meta=case["meta"], skipped=bool(case["skip"]),
             result="reject" if impl == "reject" else "all-given" if not n_gen else "none-given" if not n_given else "mixed")


def gen_consume_cases(ctx):
    rng = ctx.rng
    cases = []
    for _ in range(ctx.budget(60, 1000)):
        types = gen_types(rng)
        listing = gen_listing(rng, types)
        flat = flat_residues(types, listing)
        meta = rng.random() < 0.35
        names = sorted({r[3] for r in flat})
        skip = [n for n in names if rng.random() < 0.25] if rng.random() < 0.5 else []
        sizes = [0 if r[3] in skip else (1 if meta else r[4]) for r in flat]
        total = sum(sizes)
        roll = rng.random()
        if roll < 0.2:
            ncoords = total
        elif roll < 0.3:
            ncoords = 0
        elif roll < 0.75:
            # cut at a residue border
            cut = rng.randint(0, len(flat))
            ncoords = sum(sizes[:cut])
        else:
            ncoords = rng.randint(0, total + 2)
        cases.append(dict(types=types, listing=listing, ncoords=ncoords, skip=skip, meta=meta,
                          fmt=rng.choice(FORMATS), seed=rng.randint(0, 10 ** 6)))
    # the same kind of input with file residue numbers that wrap around (> 99999 residues in a .gro, > 9999 in
    # a .pdb) or are all equal: consumption is by position only
    extra = random.Random(rng.randint(0, 10 ** 9))
    for case in list(cases[:ctx.budget(24, 300)]):
        cases.append(dict(case, resid_base=extra.choice([99996, 99998, 9996, 9998]), seed=case["seed"] + 1))
    return cases


# ------------------------------------------------------------------------------------------------ stream: gndx

def gndx_case(ctx, system):
    from polyply.src.nonbond_engine import NonBondEngine
    case = dict(system, sched=[])
    top = c17.build_topology(case)
    try:
        engine = NonBondEngine.from_topology(top.molecules, top, c17.BOX.copy(), ignore=list(case["ignore"]))
        index = getattr(engine, "nodes_to_gndx", None)
        types_ = getattr(engine, "atypes", None)
        if not isinstance(index, dict) or types_ is None or not hasattr(types_, "__len__"):
            return ("unobservable", []), None
        table = sorted(([int(k[0]), int(k[1]), int(v)] for k, v in index.items()), key=lambda t: t[2])
        impl = table
        atypes = [str(x) for x in types_]
    except Exception as err:  # pylint: disable=broad-except
        impl = "error:" + type(err).__name__
        table, atypes = [], []
    names = [[str(m.nodes[n].get("template", m.nodes[n]["resname"])) for n in m.nodes] for m in top.molecules]
    req = dict(op="gndx", table=table, names=names, atypes=atypes,
               mols=[c17.mol_json(s, c17.adjacency(m), case["ignore"]) for s, m in zip(case["mols"], top.molecules)])
    return (impl, atypes), req


def judge_gndx(ctx, system, impl_pair, ans):
    impl, atypes = impl_pair
    replay = dict(stream="gndx", **system)
    if not ans.get("ok"):
        ctx.tie_broken("correspondence", "driver:C04", str(ans), replay)
        return
    ctx.correspond("from_topology-index-table", impl, [list(t) for t in ans["table"]], replay)
    if not isinstance(impl, str):
        ctx.correspond("from_topology-residue-types", atypes, ans["atypes"], replay)
    if isinstance(impl, str):
        ctx.oracle_fail("engine-construction-crashed", "NonBondEngine.from_topology raised %s with ignore=%s"
                        % (impl, system["ignore"]), replay)
    elif not ans["spec_types"]:
        ctx.oracle_fail("residue-type-of-another-residue", "with ignore=%s the engine's residue types %s are not those "
                        "of the indexed residues (expected %s): the ignored molecules disturb the others"
                        % (system["ignore"], atypes[:12], ans["atypes"][:12]), replay)
    elif not ans["spec"]:
        ctx.oracle_fail("index-table-wrong", "nodes_to_gndx %s does not index exactly the residues of the "
                        "non-ignored molecules by topology index (ignore=%s)" % (impl[:20], system["ignore"]), replay)
    ctx.case(json.dumps(system, sort_keys=True) if system["ignore"] else None, stream="gndx",
             ignored=bool(system["ignore"]))


# ------------------------------------------------------------------------------------------------ stream: machine

def gen_machine_system(rng):
    """C17 systems shaped for C04: supplied whole molecules and partial chains (a supplied prefix), an
    ignored type (fully supplied) anywhere in the list"""
    sid = [0]
    n_types = rng.randint(1, 3)
    mols = []
    for _ in range(rng.randint(1, 4)):
        name = "T%d" % rng.randrange(n_types)
        shape = rng.choice(["path", "path", "tree", "star", "ring", "ringtail"])
        mode = rng.choice(["none", "prefix", "prefix", "all", "random"])
        mols.append(c17.gen_mol(rng, name, shape, rng.randint(1, 9), mode, sid))
    ignore = []
    if rng.random() < 0.5:
        ign = "T%d" % rng.randrange(n_types)
        if any(m["name"] != ign for m in mols):
            ignore = [ign]
            for m in mols:
                if m["name"] == ign:   # an ignored molecule comes with all its coordinates
                    have = {n for n, _ in m["supplied"]}
                    for node in m["nodes"]:
                        if node not in have:
                            m["supplied"].append([node, c17.SUPPLIED_BASE + sid[0]])
                            sid[0] += 1
                    m["build"] = []
    # BuildSystem.maxiter small: after maxiter + 1 failed attempts _handle_random_walk gives up (returns False)
    # and _compose_system starts over with the same molecule -- the give-up branch must keep supplied
    # positions as well (C04_supplied_invariant_giveup)
    return dict(mols=mols, ignore=ignore, nrewind=rng.choice([None, 0, 1, 2, 5]), maxiter=rng.choice([None, 2, 4]),
                bs_maxiter=rng.choice([None, 0, 0, 1, 2]))


# ------------------------------------------------------------------------------------------------ stream: e2e

def gen_e2e_case(rng, mode=None):
    # (two residues sharing a residue number crash Backmap.orient_template even without any input
    #  coordinates — outside C04, see notes/C04_findings.md — so the end-to-end stream numbers residues 1..n)
    types = gen_types(rng, max_types=3, max_res=5, repeat_resids=True)
    names = list(types)
    listing = gen_listing(rng, types, max_count=2)
    mode = mode or rng.choice(["c-prefix", "c-prefix", "mc-prefix", "res", "mc-res", "ign", "ign"])
    ignore, build_res = [], []
    flat = flat_residues(types, listing)
    given = [False] * len(flat)          # residue is in the input file
    centres_given = 0
    if mode == "c+mc":
        # atoms of a prefix with -c, centres of a strictly shorter prefix with -mc (KNOWN-FINDING shape
        # combined-c-and-mc: the second call re-flags the residues in between)
        cut = rng.randint(min(2, len(flat)), len(flat))
        given = [i < cut for i in range(len(flat))]
        centres_given = rng.randint(1, max(1, cut - 1))
    elif mode in ("c-prefix", "mc-prefix"):
        cut = rng.randint(0, len(flat))
        given = [i < cut for i in range(len(flat))]
    elif mode in ("res", "mc-res"):
        resnames = sorted({r[3] for r in flat})
        build_res = [n for n in resnames if rng.random() < 0.4] or [rng.choice(resnames)]
        # everything that is not named for rebuilding is given, possibly only up to a cut
        cut = rng.randint(0, len(flat)) if rng.random() < 0.4 else len(flat)
        given = [(r[3] not in build_res) and i < cut for i, r in enumerate(flat)]
    else:
        if len(names) == 1:
            mode = "c-prefix"
            cut = rng.randint(0, len(flat))
            given = [i < cut for i in range(len(flat))]
        else:
            ign = rng.choice(names)
            ignore = [ign]
            last_ign = max(i for i, r in enumerate(flat) if r[1] == ign)
            # types other than the ignored one: either completely given or rebuilt by name
            rebuilt = {n: rng.random() < 0.7 for n in names if n != ign}
            if all(not v for v in rebuilt.values()):
                rebuilt[rng.choice(list(rebuilt))] = True
            for name, flag in rebuilt.items():
                if flag:
                    build_res += sorted({r for r, _ in types[name]["residues"]})
            cut = rng.randint(last_ign + 1, len(flat)) if rng.random() < 0.3 else len(flat)
            given = [(r[3] not in build_res) and i < cut for i, r in enumerate(flat)]
    # -split together with supplied coordinates: one residue name (every residue of that name has the same
    # >= 2 atoms, and it is not rebuilt by name) is split into two new residues; the atoms, their order and the
    # supplied coordinates are what they were, so the oracle below applies unchanged (-c modes only: with -mc
    # the number of centres would change)
    split = []
    if mode in ("c-prefix", "res", "ign") and rng.random() < 0.3:
        sizes = {}
        for t in types.values():
            for resname, natoms in t["residues"]:
                sizes.setdefault(resname, set()).add(natoms)
        cands = sorted(n for n, v in sizes.items() if len(v) == 1 and min(v) >= 2 and n not in build_res
                       and len(n) <= 4)
        if cands:
            name = rng.choice(cands)
            natoms = min(sizes[name])
            k = rng.randint(1, natoms - 1)
            split = ["%s:%sa-%s:%sb-%s" % (name, name, ",".join("A%d" % a for a in range(k)),
                                           name, ",".join("A%d" % a for a in range(k, natoms)))]
    return dict(types=types, listing=listing, mode=mode, given=given, centres_given=centres_given, split=split,
                fmt=rng.choice(FORMATS), fmt_meta=rng.choice(FORMATS),
                build_res=sorted(set(build_res)), ignore=ignore,
                fail_attempts=rng.choice([0, 0, 1, 2, 3]), fail_steps=rng.choice([0, 0, 0, 2, 5]),
                nrewind=rng.choice([5, 5, 1, 2]), seed=rng.randint(0, 10 ** 6))


def run_e2e(case, tmpdir):
    """Run the real gen_coords.  Returns (result dict, consume request for the specification)."""
    from polyply import gen_coords
    from polyply.src import random_walk
    from vermouth.gmx.gro import read_gro
    rng = random.Random(case["seed"])
    types, listing = case["types"], case["listing"]
    flat = flat_residues(types, listing)
    top_path, in_path, out_path = Path(tmpdir) / "sys.top", Path(tmpdir) / "in.gro", Path(tmpdir) / "out.gro"
    write_top(top_path, types, listing)
    meta = case["mode"] in ("mc-prefix", "mc-res")
    # residue centres on a jittered lattice; atoms of a residue 0.12 nm apart along z
    centres = layout_points(len(flat), rng)
    atoms = []
    for (midx, _, ridx, resname, natoms), centre, has in zip(flat, centres, case["given"]):
        if not has:
            continue
        if meta:
            atoms.append((ridx + 1, resname, "C", (fmt(centre[0]), fmt(centre[1]), fmt(centre[2]))))
        else:
            for a in range(natoms):
                atoms.append((ridx + 1, resname, "A%d" % a, (fmt(centre[0]), fmt(centre[1]), fmt(centre[2] + 0.12 * a))))
    in_path = write_coords(Path(tmpdir) / "in", case.get("fmt", "gro"), atoms, ("8.0", "8.0", "8.0"))
    ps = [[common.rat_str(x) for x in p] for p in read_positions(in_path)] if atoms else []
    # the residues as the real topology has them (for the specification)
    residues = real_residues(load_topology(top_path))
    req = dict(op="consume", skip=list(case["build_res"]), meta=meta, ps=ps, residues=residues)
    meta_path = None
    if case["mode"] == "c+mc":
        cents = [(r[2] + 1, r[3], "C", (fmt(c[0]), fmt(c[1]), fmt(c[2] + 0.06)))
                 for r, c in list(zip(flat, centres))[:case["centres_given"]]]
        meta_path = write_coords(Path(tmpdir) / "centres", case.get("fmt_meta", "gro"), cents, ("8.0", "8.0", "8.0"))
        req = dict(op="consume2", skip=[], ps=ps, ps_meta=[[common.rat_str(x) for x in p] for p in read_positions(meta_path)],
                   residues=residues)

    state = dict(attempts=0, steps=0)
    orig_run = random_walk.RandomWalk.run_molecule
    orig_update = random_walk.RandomWalk.update_positions

    def failing_run(self, meta_molecule):
        state["runs"] = state.get("runs", 0) + 1
        if state["runs"] > 60:
            raise RuntimeError("verif watchdog: more than 60 molecule attempts, the build does not terminate")
        out = orig_run(self, meta_molecule)
        if self.success and state["attempts"] < case["fail_attempts"]:
            state["attempts"] += 1
            self.success = False          # the attempt is abandoned after it has placed everything
        return out

    def failing_update(self, vector_bundle, current_node, prev_node):
        if state["steps"] < case["fail_steps"]:
            state["steps"] += 1
            return False                  # a step that finds no place
        return orig_update(self, vector_bundle, current_node, prev_node)

    from polyply.src import build_system
    captured = []
    real_engine_cls = build_system.NonBondEngine

    class CapturingEngine(real_engine_cls):   # the real class; only remembers what from_topology returned
        @classmethod
        def from_topology(cls, molecules, *args, **kwargs):
            engine = super().from_topology(molecules, *args, **kwargs)
            captured.append((engine, list(molecules)))
            return engine

    build_system.NonBondEngine = CapturingEngine
    random_walk.RandomWalk.run_molecule = failing_run
    random_walk.RandomWalk.update_positions = failing_update
    np.random.seed(case["seed"] % (2 ** 31))
    random.seed(case["seed"])
    result = dict(error=None, out=None)
    try:
        kwargs = dict(toppath=top_path, outpath=out_path, name="verif", build_res=list(case["build_res"]),
                      ignore=list(case["ignore"]), nrewind=case["nrewind"])
        if case.get("split"):
            kwargs["split"] = list(case["split"])
        if meta_path is not None:
            kwargs["coordpath"] = in_path
            kwargs["coordpath_meta"] = meta_path
        elif atoms:
            kwargs["coordpath_meta" if meta else "coordpath"] = in_path
        else:
            kwargs["box"] = np.array([8.0, 8.0, 8.0])
        with np.errstate(all="ignore"), common.time_limit(120):
            gen_coords(**kwargs)
        mol = read_gro(out_path, exclude=())
        result["out"] = [[float(x) for x in mol.nodes[n]["position"]] for n in sorted(mol.nodes)]
    except common.CaseTimeout:
        result["timeout"] = True          # counted, not judged (a verdict needs a finished run)
    except Exception as err:  # pylint: disable=broad-except
        result["error"] = "%s: %s" % (type(err).__name__, str(err)[:160])
    finally:
        random_walk.RandomWalk.run_molecule = orig_run
        random_walk.RandomWalk.update_positions = orig_update
        build_system.NonBondEngine = real_engine_cls
    # the residue type the engine uses for every residue it indexes (sizes, step lengths, forces)
    result["wrong_types"] = []
    for engine, molecules in captured:
        index, types_ = getattr(engine, "nodes_to_gndx", None), getattr(engine, "atypes", None)
        if not isinstance(index, dict) or types_ is None:
            result["unobservable"] = True
            continue
        try:
            for (midx, node), gndx in index.items():
                want = molecules[midx].nodes[node].get("template", molecules[midx].nodes[node]["resname"])
                if str(types_[gndx]) != str(want):
                    result["wrong_types"].append([int(midx), int(node), str(types_[gndx]), str(want)])
        except (KeyError, IndexError, TypeError):
            result["unobservable"] = True
    result["forced"] = dict(attempts=state["attempts"], steps=state["steps"])
    return result, req, residues


def judge_e2e(ctx, case, result, ans, residues):
    replay = dict(stream="e2e", **case)
    if not ans.get("ok"):
        ctx.tie_broken("correspondence", "driver:C04", str(ans), replay)
        return
    spec = ans["spec"]                      # per residue: what the property says it receives
    flat = flat_residues(case["types"], case["listing"])
    what = dict(listing=case["listing"], mode=case["mode"], fmt=case.get("fmt", "gro"), split=case.get("split", []),
                resnames=sorted({r[0] for t in case["types"].values() for r in t["residues"]}),
                build_res=case["build_res"], ignore=case["ignore"],
                forced=result["forced"], given="".join("1" if g else "0" for g in case["given"]))
    n_given = sum(1 for s in spec if not s["build"])
    n_gen = len(spec) - n_given
    combined = case["mode"] == "c+mc"
    if combined:
        what["centres_given"] = case["centres_given"]

    def fail(shape, text):
        # -c together with -mc: every deviation is the one known finding
        ctx.oracle_fail("combined-c-and-mc" if combined else shape, text, replay)

    if result.get("unobservable"):
        ctx.tally(internal_state_not_observable=True)
    if result.get("timeout"):
        ctx.tally(e2e_timeout=True)
        return
    if result.get("wrong_types"):
        fail("residue-type-of-another-residue", "the engine builds residue (molecule %d, node %d) with the size of %s, "
             "it is a %s (%d residues affected): %s" % (*result["wrong_types"][0], len(result["wrong_types"]), what))
    if result["error"]:
        fail("gen-coords-crashed", "gen_coords raised %s on %s" % (result["error"], what))
    else:
        out = result["out"]
        natoms = sum(r[4] for r in flat)
        if len(out) != natoms:
            fail("wrong-atom-count", "output has %d atoms, topology %d: %s" % (len(out), natoms, what))
        else:
            # atoms appear in the output in topology order: molecule, residue, atom index
            k = 0
            for ridx, (res, want) in enumerate(zip(residues, spec)):
                size = len(res["atoms"])
                coords = out[k:k + size]
                k += size
                if not all(math.isfinite(x) for c in coords for x in c):
                    fail("non-finite-output", "residue %d has no finite coordinates: %s" % (ridx, what))
                    break
                ignored = flat[ridx][1] in case["ignore"]
                if want["atoms"]:
                    # supplied atom by atom: must be identical (in index order = output order)
                    exp = [[float(Fraction(x)) for x in v] for _, v in want["atoms"]]
                    # "exact after .gro formatting": the same three decimals
                    if [[fmt(x) for x in c] for c in coords] != [[fmt(x) for x in c] for c in exp]:
                        fail("ignored-molecule-moved" if ignored else "supplied-atom-moved",
                                        "residue %d was given as %s, output has %s: %s" % (ridx, exp, coords, what))
                        break
                elif want["pos"] is not None:
                    centre = [float(Fraction(x)) for x in want["pos"]]
                    cog = [sum(c[d] for c in coords) / len(coords) for d in range(3)]
                    if max(abs(a - b) for a, b in zip(cog, centre)) > 1e-3:
                        fail("centre-not-kept", "residue %d was given the centre %s, output atoms have "
                                        "centre of geometry %s: %s" % (ridx, centre, cog, what))
                        break
                elif ignored:
                    ctx.tally(e2e_ignored_without_coordinates=True)
    key = json.dumps(case, sort_keys=True) if (n_given and n_gen) else None
    ctx.case(key, sample=dict(stream="e2e", **what, result=result["error"] or "ok"),
             stream="e2e", mode=case["mode"], input_format=case.get("fmt", "gro"), opt_split=bool(case.get("split")),
             special_resnames=any(r[0] in SPECIAL_NAMES for t in case["types"].values() for r in t["residues"]),
             forced_attempts=result["forced"]["attempts"],
             forced_steps=_b(result["forced"]["steps"]), split="mixed" if (n_given and n_gen) else "all-given" if n_given else "none-given")


def _b(n):
    return "0" if n == 0 else ">0"


# ------------------------------------------------------------------------------------------------ driver

def corpus_cases():
    path = os.path.join(common.VERIF, "corpus", "C04")
    out = []
    if os.path.isdir(path):
        for name in sorted(os.listdir(path)):
            data = json.load(open(os.path.join(path, name)))
            out.append(data.get("input", data))
    return out


def run_inputs(ctx, consume_cases, gndx_systems, machine_cases, e2e_cases, consume2_cases=()):
    reqs, todo = [], []
    with tempfile.TemporaryDirectory() as tmpdir:
        for case in consume_cases:
            impl, req, _ = consume_case(ctx, case, tmpdir)
            reqs.append(req)
            todo.append(("consume", case, impl, None))
        for case in consume2_cases:
            impl, req = consume2_case(ctx, case, tmpdir)
            reqs.append(req)
            todo.append(("consume2", case, impl, None))
        for system in gndx_systems:
            impl, req = gndx_case(ctx, system)
            if req is None:
                ctx.tally(internal_state_not_observable=True)
                continue
            reqs.append(req)
            todo.append(("gndx", system, impl, None))
        for case in e2e_cases:
            result, req, residues = run_e2e(case, tmpdir)
            reqs.append(req)
            todo.append(("e2e", case, result, residues))
    machine_reals = []
    for case in machine_cases:
        real = c17.run_real(case)
        machine_reals.append(real)
        reqs += c17.requests_for(case, real)
    answers = ctx.driver.ask(reqs)
    for idx, (kind, case, impl, extra) in enumerate(todo):
        if kind == "consume":
            judge_consume(ctx, case, impl, answers[idx])
        elif kind == "consume2":
            judge_consume2(ctx, case, impl, answers[idx])
        elif kind == "gndx":
            judge_gndx(ctx, case, impl, answers[idx])
        else:
            judge_e2e(ctx, case, impl, answers[idx], extra)
    base = len(todo)
    for idx, (case, real) in enumerate(zip(machine_cases, machine_reals)):
        c17.judge(ctx, case, real, answers[base + 2 * idx], answers[base + 2 * idx + 1])


def run(ctx):
    ctx.extra["rule"] = RULE
    ctx.extra["trusted"] = TRUSTED
    ctx.assumptions.append("-res: residues skipped by name consume no coordinates, i.e. the input structure does not "
                           "contain them; ignored molecule types are given with all their coordinates")
    rng = ctx.rng
    buckets = dict(consume=[], consume2=[], gndx=[], machine=[], e2e=[])
    for item in corpus_cases():
        buckets[item.get("stream", "e2e")].append({k: v for k, v in item.items() if k != "stream"} if item.get("stream") != "machine" else item)
    consume_cases = buckets["consume"] + gen_consume_cases(ctx)
    gndx_systems = buckets["gndx"] + [gen_machine_system(rng) for _ in range(ctx.budget(40, 800))]
    machine_cases = buckets["machine"]
    for _ in range(ctx.budget(120, 2500)):
        system = gen_machine_system(rng)
        machine_cases.append(dict(system, sched=c17.random_schedule(rng, rng.choice([6, 15, 40, 120])), stream="machine"))
    e2e_cases = buckets["e2e"] + [gen_e2e_case(rng) for _ in range(ctx.budget(70, 1200))]
    # -c together with -mc (known finding, shape combined-c-and-mc): a few cases in every run
    e2e_cases += [gen_e2e_case(rng, mode="c+mc") for _ in range(ctx.budget(6, 40))]
    consume2_cases = buckets["consume2"]
    for case in gen_consume_cases(ctx)[:ctx.budget(25, 250)]:
        flat = flat_residues(case["types"], case["listing"])
        case = dict(case, meta=False, ncoords_meta=rng.randint(0, len(flat)))
        consume2_cases.append(case)
    run_inputs(ctx, consume_cases, gndx_systems, machine_cases, e2e_cases, consume2_cases)


def replay(ctx, data):
    inputs = []
    if data.get("kind") == "no-failing-input-found":
        print("replay names obligations that no longer check:")
        for item in data.get("no_longer_checks", []):
            print("  ", item["name"], "-", item["detail"][:300])
            if item.get("input"):
                inputs.append(item["input"])
    else:
        inputs.append(data.get("input") or data)
    buckets = dict(consume=[], consume2=[], gndx=[], machine=[], e2e=[])
    for item in inputs:
        stream = item.get("stream", "e2e")
        if stream not in buckets:
            stream = "machine"
        buckets[stream].append({k: v for k, v in item.items() if k != "stream"} if stream != "machine" else item)
    run_inputs(ctx, buckets["consume"], buckets["gndx"], buckets["machine"], buckets["e2e"], buckets["consume2"])
    for b in ctx.broken:
        print("REPLAY-DISAGREES", b["name"], b["detail"][:400])
