"""C16 — the neighbour engine always reflects exactly the currently positioned residues.

Statement (properties.jsonl, fixed): "After any sequence of adding, removing and consolidating residue
positions, position queries return the last position given (or undefined after removal), and
overlap/force queries take into account exactly the residues currently positioned within the cut-off
under periodic boundaries, minus the stated exclusions, with each pair force equal to the negative
gradient of the 12-6 potential for the pair's size. Minimum-image distances are symmetric, periodic in
each box vector and never exceed the direct distance."

Implementation side: real `polyply.src.nonbond_engine.NonBondEngine` objects (constructed directly, several
molecules, arbitrary node keys, several atom types), driven through `add_positions`, `remove_positions`,
`concatenate_trees`, `get_point`, `compute_force_point`, `pbc_min_dist`.
Model side: `Engine.step/force/getPoint/pbcMinDistSq` (mirrors the code, four views of the state) and the
specification `Engine.absStep/specForce` (the abstract map "last position given / none after removal" and
the sum of `Geometry.pairForce` over exactly the positioned, non-excluded residues within the cut-off).

Streams
  * `engine`            protocol-conforming histories (an `add` only for an unpositioned node), 50-400 ops.
                        The tree-opening threshold is lowered IN THE HARNESS PROCESS ONLY by building a copy
                        of `NonBondEngine.add_positions` whose code object has the literal 5000 replaced
                        (`__code__.replace(co_consts=…)`, on a subclass; /repo is not touched, every other
                        byte of the method is the real one); the model receives the same `T`.
  * `engine-real-T`     the unmodified class with > 5000 pre-loaded points, so that the real literal decides
                        (model `T` = the translated constant).
  * `engine-offprotocol` a few histories that add onto a positioned node: correspondence only (the model
                        mirrors the double entry), no oracle — recorded in notes/C16_findings.md.
  * `pbc_min_dist`      symmetry / periodicity / <= direct distance evaluated on the real method.
  * `layout`            the REAL classmethod `NonBondEngine.from_topology` on real `MetaMolecule` objects (nodes with
                        resname, optional template, optional position) and a minimal topology (`.volumes`,
                        `.bending`), against `EngineLayout.fromTopology` (driver op "layout"): first EXHAUSTIVELY
                        all 8 ignore masks over the names {X, Y, Z} x 5 molecule-name sequences (repeated names,
                        a name that is absent) x 5 coordinate variants (none / inside / ON the upper face /
                        outside / non-finite, in a kept or in an ignored molecule), then random inputs (1-6
                        molecules, empty molecules, shuffled non-contiguous node keys, 0 / 1 / several / all names
                        ignored).  Outcome classes: ok | reject (IOError) | fail (any other exception: `max()` of an
                        empty table when nothing is left, scipy's KD-tree refusing a coordinate ON the upper face
                        that the closed check `not_exceeds_max_dimensions` let pass - model: `treeAccepts`).
                        Observable part (oracle, spec = `EngineLayout.entries` numbered 0, 1, ...): for every node
                        of every molecule that is not ignored, under the index the molecule has in `molecules`,
                        `get_point` returns the supplied coordinate (undefined if none) and `get_interaction` of
                        the node with itself returns the size of its template (else resname).  Internal part
                        (`layout-internal`, correspondence only, only when the attributes exist with the expected
                        types - on a refused construction the constructor arguments captured by a harness
                        subclass are used): sorted items of `nodes_to_gndx`, `list(atypes)`, the finite rows of
                        `positions` as exact rationals, `len(positions)`.
  * `double-add`        histories in which `add_positions` is ALSO issued for positioned nodes, interleaved with
                        removals and consolidation, on the lowered-threshold classes.  Outside the protocol (the
                        program never does it): no oracle.  After every operation the position table (through
                        `get_point`), `defined_idxs` (per tree, as LISTS in order - the model mirrors
                        `list.append` / `list.remove`) and `gndx_to_tree` are compared with the model
                        (`C16_getPoint_any_history`, `C16_double_add_characterised` are the theorems about exactly
                        this).  What the real code does after a double add (found by running it): the node is
                        twice in the index lists; a removal erases only the first occurrence in the LAST tree;
                        if both copies were in the last tree the rebuild of that tree meets a row of `inf` and
                        scipy raises `ValueError: data must be finite` inside `remove_positions` (positions,
                        index lists and `gndx_to_tree` are already updated, the search tree is not); if the
                        older copy sits in an older tree the removal succeeds, the older tree keeps a stale
                        index (row `inf`, stored point = the first position) - force queries near it return
                        `nan`, and the next rebuild of that tree raises the same ValueError;
                        `concatenate_trees` repairs everything.  The model predicts the crash exactly: the
                        operation raises iff a rebuilt model tree holds an undefined row; the stream checks this
                        prediction and compares states up to (excluding) the first raising operation.

Observable vs internal.  What decides a VIOLATION (the oracle) uses only what the property talks about: the
public queries `get_point` (the position table = `get_point` of every node), `compute_force_point`,
`pbc_min_dist`, and exceptions raised BY A PUBLIC METHOD on a protocol-conforming history (only those calls
are inside the try-block; the harness never counts its own attribute access).  The bookkeeping attributes
`defined_idxs`, `position_trees`, `gndx_to_tree` are compared with the model in separate correspondence
streams `<stream>-internal`, and only when they exist with the expected types (`getattr`); otherwise
`internal_state_not_observable` is tallied and the observable streams alone decide (`C16_refines_set` is
what relates them to the internals in the model).  After every removal the generator also queries the
force where the removed residue was, so stale internal state shows up in an observable.

Bulk position query: every `snap` also calls `update_positions_in_molecules` on caller-side molecules (one graph per
molecule index; residues with supplied coordinates carry them as their own arrays; every handed-back row is then
replaced by a copy; one node per molecule is unknown to the engine) and compares what the molecules carry with the
model's table and with "last position given / undefined after removal" (oracle shape `stale-handback`; model
`EngineLayout.handBack`, theorem `C16_handback`).

Numbers: all coordinates, box lengths, sizes are dyadic (multiples of 2^-6 … 2^-2), so `-`, `%`,
`np.round`, squares and sums of squares are exact in double; positions, index lists, `gndx_to_tree`,
`inf` verdicts and squared `pbc_min_dist` of perfect squares are compared exactly.  The force passes through
`sqrt` and `**`: compared with |Δ| <= 1e-9 * (sum of the 1-norms of the pair terms).

Partial (trusted, named in the evidence): scipy `KDTree.sparse_distance_matrix` as exact periodic
neighbour search (modelled by `Geometry.kdDistSq` + filter), IEEE rounding of non-dyadic inputs.
"""
import inspect
import itertools
import json
import random
import os
import types
from fractions import Fraction

import numpy as np

import common

RULE = ("random protocol-conforming op histories (add/remove/concatenate interleaved with get_point / "
        "compute_force_point / pbc_min_dist / snapshot queries) on engines with 2-5 molecules, 6-40 nodes, 1-3 "
        "atom types, non-cubic dyadic boxes, points and neighbours placed across box faces; lowered threshold "
        "T in 1..12 (patched code constant) plus real-threshold histories with > 5000 pre-loaded points; a "
        "case is non-trivial when it has >= 1 force query with a contributing neighbour and >= 2 trees at some "
        "point or a removal; distinct = hash of the op list")

FORCE_RTOL = Fraction(1, 10 ** 9)


# ------------------------------------------------------------------------------------------- helpers

def rs(x):
    return common.rat_str(x)


def vec_rs(v):
    return [rs(float(c)) for c in v]


def fr(s):
    return Fraction(s)


def lowered_engine_class(threshold_literal, new_threshold):
    """A subclass of the real NonBondEngine whose add_positions is the real code object with the one
    integer constant `threshold_literal` replaced by `new_threshold`.  None if the literal is not found
    exactly once (then only the real-threshold stream runs)."""
    from polyply.src.nonbond_engine import NonBondEngine
    func = NonBondEngine.add_positions
    code = func.__code__
    if threshold_literal is None:
        return None
    hits = [i for i, c in enumerate(code.co_consts) if type(c) is int and c == threshold_literal]
    if len(hits) != 1:
        return None
    consts = tuple(new_threshold if i == hits[0] else c for i, c in enumerate(code.co_consts))
    patched = types.FunctionType(code.replace(co_consts=consts), func.__globals__, func.__name__,
                                 func.__defaults__, func.__closure__)
    patched.__kwdefaults__ = func.__kwdefaults__
    return type("NonBondEngineLowT", (NonBondEngine,), {"add_positions": patched})


# ------------------------------------------------------------------------------------------- running

def make_engine(case, cls=None):
    from polyply.src.nonbond_engine import NonBondEngine
    if cls is None:
        cls = NonBondEngine
    n = case["n"]
    positions = np.ones((n, 3)) * np.inf
    for g, p in case["init"]:
        positions[g] = [float(fr(c)) for c in p]
    nodes_to_idx = {}
    for g, (mol, key) in enumerate(case["nodes"]):
        nodes_to_idx[(mol, key)] = g
    names = ["T%d" % a for a in case["atypes"]]
    inter = {}
    for a, b, sig, eps in case["inter"]:
        inter[frozenset(["T%d" % a, "T%d" % b])] = (float(fr(sig)), float(fr(eps)))
    box = np.array([float(fr(c)) for c in case["L"]])
    return cls(positions, nodes_to_idx, names, inter, None, None, float(fr(case["cut"])), box)


def safe_vec(row):
    return [rs(float(c)) if np.isfinite(c) else str(float(c)) for c in row]


def public_positions(engine, nodes):
    """OBSERVABLE: the position table as the public query `get_point` reports it (rows of inf = undefined)"""
    table = []
    for g, (mol, key) in enumerate(nodes):
        row = np.asarray(engine.get_point(mol, key), dtype=float).reshape(-1)
        if not np.all(np.isinf(row)):
            table.append([int(g), safe_vec(row)])
    return table


def internal_snapshot(engine):
    """INTERNAL bookkeeping (`defined_idxs`, `position_trees`, `gndx_to_tree`), read only if these attributes
    exist with the expected types; None otherwise (a refactoring may rename or re-represent them — the
    property does not talk about them)."""
    try:
        defined_idxs = getattr(engine, "defined_idxs", None)
        position_trees = getattr(engine, "position_trees", None)
        gndx_to_tree = getattr(engine, "gndx_to_tree", None)
        if not isinstance(defined_idxs, list) or not isinstance(position_trees, list) \
                or not isinstance(gndx_to_tree, dict) or len(defined_idxs) != len(position_trees):
            return None
        defined = [sorted(int(i) for i in idxs) for idxs in defined_idxs]
        trees = [sorted(vec_rs(row) for row in np.asarray(tree.data, dtype=float).reshape(-1, 3))
                 for tree in position_trees]
        g2t = sorted([int(g), int(t)] for g, t in gndx_to_tree.items())
        return dict(defined=defined, trees=trees, g2t=g2t)
    except Exception:  # pylint: disable=broad-except
        return None


def canon_snapshot(engine, nodes):
    """called OUTSIDE the try-block of the code under test except for the public `get_point` calls"""
    return dict(positions=public_positions(engine, nodes), internal=internal_snapshot(engine))


def canon_model_snapshot(snap):
    return dict(positions=[[g, list(p)] for g, p in snap["positions"]],
                internal=dict(defined=[sorted(d) for d in snap["defined"]],
                              trees=[sorted(list(p) if p is not None else ["inf"] * 3 for p in tree)
                                     for tree in snap["trees"]],
                              g2t=sorted([g, t] for g, t in snap["g2t"])))


def canon_force(val):
    if isinstance(val, np.ndarray):
        if np.all(np.isinf(val)):
            return "inf"
        return [Fraction(float(c)) if np.isfinite(c) else str(c) for c in val]
    if val == np.inf:
        return "inf"
    if val == 0:
        return [Fraction(0)] * 3
    return "unexpected:%r" % (val,)


FOREIGN = 987654          # key of a node that is in a molecule but not in the engine


def caller_molecules(case):
    """the molecules of the CALLER for the bulk position query `update_positions_in_molecules`: one graph per molecule
    index, its nodes = the node keys of that molecule; residues with supplied coordinates carry them (their own
    arrays, not views of the engine's table); one extra node per molecule is unknown to the engine"""
    import networkx as nx
    nmol = 1 + max(mol for mol, _ in case["nodes"])
    mols = [nx.Graph() for _ in range(nmol)]
    for mol, key in case["nodes"]:
        mols[mol].add_node(key)
    for g, p in case["init"]:
        mol, key = case["nodes"][g]
        mols[mol].nodes[key]["position"] = np.array([float(fr(c)) for c in p])
    for graph in mols:
        graph.add_node(FOREIGN, position=np.array([0.5, 0.25, 0.125]))
    return mols


def handed_back(mols, nodes):
    """what the molecules carry after the bulk query: rows like `public_positions`; the positions are then replaced by
    copies (a caller that keeps its own arrays), so that a later removal in the engine cannot reach them by aliasing"""
    table, foreign_ok = [], True
    for g, (mol, key) in enumerate(nodes):
        data = mols[mol].nodes[key]
        if "position" not in data:
            continue
        row = np.array(data["position"], dtype=float).reshape(-1)
        data["position"] = row.copy()
        if not np.all(np.isinf(row)):
            table.append([int(g), safe_vec(row)])
    for graph in mols:
        if list(graph.nodes[FOREIGN]["position"]) != [0.5, 0.25, 0.125]:
            foreign_ok = False
    return table, foreign_ok


def run_impl(case, cls=None):
    """Execute the history on the real engine; one canonical output per query op."""
    engine = make_engine(case, cls)
    nodes = case["nodes"]
    out = []
    mols = caller_molecules(case)
    for op in case["ops"]:
        k = op["k"]
        try:
            if k == "add":
                mol, key = nodes[op["g"]]
                engine.add_positions(np.array([float(fr(c)) for c in op["p"]]), mol, key, start=op["start"])
            elif k == "remove":
                engine.remove_positions(op["mol"], [nodes[g][1] for g in op["gs"]])
            elif k == "concat":
                engine.concatenate_trees()
            elif k == "get":
                mol, key = nodes[op["g"]]
                row = engine.get_point(mol, key)
                out.append(None if np.all(row == np.inf) else vec_rs(row))
            elif k == "force":
                mol, key = nodes[op["g"]]
                val = engine.compute_force_point(np.array([float(fr(c)) for c in op["p"]]), mol, key,
                                                 exclude=[nodes[g][1] for g in op["excl"]], potential="LJ")
                out.append(canon_force(val))
            elif k == "dist":
                inf = np.array([np.inf] * 3)
                a = inf if op["a"] is None else np.array([float(fr(c)) for c in op["a"]])
                b = inf if op["b"] is None else np.array([float(fr(c)) for c in op["b"]])
                val = engine.pbc_min_dist(a, b)
                out.append(None if np.isnan(val) else Fraction(float(val)))
            elif k == "snap":
                table = public_positions(engine, nodes)          # public get_point calls
                engine.update_positions_in_molecules(mols)       # the bulk position query
        except Exception as err:  # pylint: disable=broad-except
            # raised by a PUBLIC method of the code under test (nothing else is inside this try-block)
            out.append(dict(raised=type(err).__name__, at=k, msg=str(err)[:120]))
            break
        if k == "snap":
            back, foreign_ok = handed_back(mols, nodes)
            out.append(dict(positions=table, internal=internal_snapshot(engine), handback=back, foreign_ok=foreign_ok))
    return out


def request_of(case):
    ops = []
    for op in case["ops"]:
        if op["k"] == "remove":
            ops.append(dict(k="remove", gs=op["gs"]))
        else:
            ops.append(op)
    return dict(op="run", n=case["n"], L=case["L"], cut=case["cut"], T=case["T"], floor=None,
                atypes=case["atypes"], inter=case["inter"], init=case["init"], ops=ops)


def sq_close(impl_dist, model_sq):
    """impl_dist (exact Fraction of the returned float) against the model's exact square"""
    if impl_dist is None or model_sq is None:
        return impl_dist is None and model_sq is None
    msq = fr(model_sq)
    num, den = msq.numerator, msq.denominator
    import math
    rn, rd = math.isqrt(num), math.isqrt(den)
    if rn * rn == num and rd * rd == den:
        return impl_dist == Fraction(rn, rd)           # sqrt of a perfect square is exact
    return abs(impl_dist * impl_dist - msq) <= Fraction(1, 10 ** 12) * msq


def force_close(impl, ref, scale):
    if impl == "inf" or ref == "inf":
        return impl == ref
    if isinstance(impl, str) or any(isinstance(c, str) for c in impl):
        return False
    tol = FORCE_RTOL * fr(scale) + Fraction(1, 10 ** 300)
    return all(abs(a - fr(b)) <= tol for a, b in zip(impl, ref))


def judge(ctx, case, impl, answer, stream, oracle=True):
    """Compare one executed history with the model's and the specification's answers.
    Returns a description of the first oracle failure (or None)."""
    replay = case
    queries = [op for op in case["ops"] if op["k"] in ("get", "force", "dist", "snap")]
    if not answer.get("ok"):
        ctx.tie_broken("correspondence", "driver:" + stream, str(answer)[:300], replay)
        return None
    model = answer["out"]
    agree = True
    internal_seen, internal_agree, internal_detail = True, True, (None, None)
    failure = None
    raised = next((o for o in impl if isinstance(o, dict) and "raised" in o), None)
    if raised is not None and oracle:
        failure = ("raised", "the engine raised %s (%s) in `%s` on a protocol-conforming history"
                   % (raised["raised"], raised["msg"], raised["at"]))
    if oracle and not answer.get("pre", True):
        ctx.tie_broken("generator", "protocol:" + stream, "generated history violates the protocol precondition", replay)
    contributing = False
    for i, (op, got) in enumerate(zip(queries, impl)):
        if isinstance(got, dict) and "raised" in got:
            agree = agree and not oracle
            break
        ans = model[i]
        k = op["k"]
        if k == "get":
            if got != ans["model"]:
                agree = False
            if oracle and got != ans["spec"] and failure is None:
                failure = ("stale-position", "get_point(%s) returned %s, the last position given is %s (query #%d)"
                           % (case["nodes"][op["g"]], got, ans["spec"], i))
        elif k == "force":
            if ans["near"]:
                contributing = True
            if not force_close(got, ans["model"], ans["scale"]):
                agree = False
            if oracle and not force_close(got, ans["spec"], ans["scale"]) and failure is None:
                shown = got if got == "inf" else [float(c) for c in got]
                want = ans["spec"] if ans["spec"] == "inf" else [float(fr(c)) for c in ans["spec"]]
                failure = ("wrong-force", "compute_force_point(point=%s, node=%s, exclude=%s) = %s; the sum of the 12-6 "
                           "pair forces over the positioned, non-excluded residues within the cut-off (global "
                           "indices %s) under the minimum image convention is %s (query #%d)"
                           % ([float(fr(c)) for c in op["p"]], case["nodes"][op["g"]],
                              [case["nodes"][g][1] for g in op["excl"]], shown, ans["near"], want, i))
        elif k == "dist":
            if not sq_close(got, ans["model"]):
                agree = False
                if oracle and failure is None:
                    failure = ("wrong-min-image", "pbc_min_dist(%s, %s) = %s, minimum image distance squared is %s"
                               % (op["a"], op["b"], None if got is None else float(got), ans["model"]))
        elif k == "snap":
            msnap = canon_model_snapshot(ans["model"])
            # observable part: the position table read through get_point
            if got["positions"] != msnap["positions"]:
                agree = False
            # internal part: only when the bookkeeping attributes exist in the expected representation
            if got["internal"] is None:
                internal_seen = False
            elif got["internal"] != msnap["internal"]:
                internal_agree = False
                internal_detail = (got["internal"], msnap["internal"])
            spec_pos = [[g, list(p)] for g, p in ans["spec"]]
            # the bulk query `update_positions_in_molecules`: every residue of the engine is handed its row (undefined
            # after removal: no stale coordinate survives in the molecule), nodes unknown to the engine are untouched
            if "handback" in got:
                if got["handback"] != msnap["positions"] or not got.get("foreign_ok", True):
                    agree = False
                if oracle and failure is None and (got["handback"] != spec_pos or not got.get("foreign_ok", True)):
                    failure = ("stale-handback", "update_positions_in_molecules left the molecules with %s at snapshot #%d; "
                               "'last position given / undefined after removal' is %s%s"
                               % (diff_small(got["handback"], spec_pos), i, "(rows that differ shown)",
                                  "" if got.get("foreign_ok", True) else "; a node unknown to the engine was changed"))
            if oracle and failure is None and got["positions"] != spec_pos:
                failure = ("stale-position", "position table (get_point of every node) differs from 'last position "
                           "given / none after removal' at snapshot #%d: %s" % (i, diff_small(got["positions"], spec_pos)))
    if len(impl) != len(queries) and raised is None:
        agree = False
    ctx.correspond(stream, "agree" if agree else summarize(impl), "agree" if agree else summarize(model), replay)
    if internal_seen:
        ctx.correspond(stream + "-internal", "agree" if internal_agree else summarize(internal_detail[0]),
                       "agree" if internal_agree else summarize(internal_detail[1]), replay)
    else:
        ctx.tally(internal_state_not_observable=stream)
    ctx.traces += 1
    return failure, contributing


def diff_small(a, b):
    return [x for x in a if x not in b][:4] + [x for x in b if x not in a][:4]


def summarize(outputs):
    text = json.dumps(outputs, default=str)
    return text[:700]


# ------------------------------------------------------------------------------------------- generators

def gen_static(rng, big=False):
    """molecules, node keys, atom types, sizes, box"""
    nmol = rng.randint(2, 5)
    nodes, atypes = [], []
    ntypes = rng.randint(1, 3)
    for mol in range(nmol):
        size = rng.randint(1, 9)
        base = rng.choice([0, 0, 1, 7])
        keys = list(range(base, base + size))
        if rng.random() < 0.3:
            rng.shuffle(keys)
        for key in keys:
            nodes.append([mol, key])
            atypes.append(rng.randrange(ntypes))
    sizes = [common.dyadic(rng, 0.25, 0.75, bits=4) for _ in range(ntypes)]
    inter = []
    for a in range(ntypes):
        for b in range(a, ntypes):
            sig = (sizes[a] + sizes[b]) / 2
            eps = Fraction(1) if rng.random() < 0.7 else common.dyadic(rng, 0.5, 3, bits=2)
            inter.append([a, b, rs(sig), rs(eps)])
    cut = 2 * max(sizes) if rng.random() < 0.7 else common.dyadic(rng, 0.5, 1.5, bits=3)
    lo = float(2 * cut) + 0.25
    L = [common.dyadic(rng, lo, lo + 3, bits=2) for _ in range(3)]
    roll = rng.random()
    if roll < 0.3:
        L = [L[0]] * 3
    elif roll < 0.6:
        # thin slab / small box: one or two edges between the cut-off and twice the cut-off, so that a pair
        # can be within the cut-off both directly and through the face (the nearest image decides)
        for k in rng.sample(range(3), rng.choice([1, 1, 2])):
            steps = int(cut * 16)
            L[k] = cut + Fraction(rng.randint(1, max(1, steps - 1)), 16)
    return dict(nodes=nodes, atypes=atypes, inter=inter, cut=rs(cut), L=[rs(c) for c in L], n=len(nodes))


def rand_point(rng, L, bits=6):
    """a dyadic point in [0, L); often close to a face"""
    out = []
    for c in L:
        c = fr(c)
        roll = rng.random()
        scale = 1 << bits
        top = int(c * scale) - 1
        if roll < 0.08:
            val = Fraction(0)                                   # exactly on a lower face
        elif roll < 0.25:
            val = Fraction(rng.randint(0, min(top, 8)), scale)
        elif roll < 0.5:
            val = Fraction(rng.randint(max(0, top - 8), top), scale)
        else:
            val = Fraction(rng.randint(0, top), scale)
        out.append(val)
    return out


def wrap(p, L):
    return [c - fr(l) * (c // fr(l)) for c, l in zip(p, L)]


def near_point(rng, q, L, lo, hi, bits=6):
    """q + d wrapped, with lo <= |d| roughly <= hi: neighbours across faces when q is near one"""
    scale = 1 << bits
    while True:
        d = [Fraction(rng.randint(-int(hi * scale), int(hi * scale)), scale) for _ in range(3)]
        n2 = sum(c * c for c in d)
        if lo * lo <= n2 <= hi * hi:
            return wrap([a + b for a, b in zip(q, d)], L)


def gen_history(rng, static, nops, T, offprotocol=False, init=None, few_queries=False, prefix=None):
    case = dict(static)
    L = case["L"]
    n = case["n"]
    nodes = case["nodes"]
    cut = fr(case["cut"])
    pos = {}
    if init is None:
        init = []
        for g in range(n):
            if rng.random() < 0.25:
                p = rand_point(rng, L)
                init.append([g, [rs(c) for c in p]])
    for g, p in init:
        pos[g] = [fr(c) for c in p]
    case["init"] = init
    case["T"] = T
    ops = []
    for op in (prefix(pos) if prefix is not None else []):
        ops.append(op)
        if op["k"] == "add":
            pos[op["g"]] = [fr(c) for c in op["p"]]
        elif op["k"] == "remove":
            for g in op["gs"]:
                pos.pop(g, None)
    by_mol = {}
    for g, (mol, _) in enumerate(nodes):
        by_mol.setdefault(mol, []).append(g)
    small = [g for g in range(n) if n <= 200 or g >= n - 60]      # nodes the ops play with

    def fresh_point():
        roll = rng.random()
        if pos and roll < 0.5:
            q = pos[rng.choice(sorted(pos))]
            return near_point(rng, q, L, Fraction(1, 8), cut)
        return rand_point(rng, L)

    while len(ops) < nops:
        roll = rng.random()
        if few_queries:
            roll = roll * 0.62 if rng.random() < 0.5 else roll
        if roll < 0.40:
            cand = [g for g in small if g not in pos]
            if offprotocol and rng.random() < 0.3 and pos:
                cand = [g for g in small if g in pos]
            if not cand:
                roll = 0.5
            else:
                g = rng.choice(cand)
                p = fresh_point()
                ops.append(dict(k="add", g=g, p=[rs(c) for c in p], start=rng.random() < 0.35))
                pos[g] = p
                continue
        if roll < 0.56 and not offprotocol:
            mol = nodes[rng.choice(small)][0]
            members = [g for g in by_mol[mol] if g in small]
            count = rng.randint(1, max(1, min(5, len(members))))
            gs = [rng.choice(members) for _ in range(count)]
            if rng.random() < 0.1:
                gs = list(members)
            ops.append(dict(k="remove", mol=mol, gs=gs))
            gone = [pos[g] for g in gs if g in pos]
            for g in gs:
                pos.pop(g, None)
            for old in gone:
                if rng.random() < 0.5:
                    probe = rng.choice(small)
                    where = near_point(rng, old, L, Fraction(0), Fraction(3, 32)) if rng.random() < 0.4 \
                        else near_point(rng, old, L, Fraction(1, 8), cut)
                    ops.append(dict(k="force", p=[rs(c) for c in where], g=probe, excl=[probe]))
        elif roll < 0.62:
            ops.append(dict(k="concat"))
        elif roll < 0.70:
            ops.append(dict(k="get", g=rng.choice(small)))
        elif roll < 0.92:
            g = rng.choice(small)
            members = [h for h in by_mol[nodes[g][0]] if h in small or n <= 200]
            excl = [h for h in members if rng.random() < 0.3]
            if rng.random() < 0.7 and g not in excl:
                excl.append(g)
            if pos and rng.random() < 0.85:
                q = pos[rng.choice(sorted(pos))]
                if rng.random() < 0.12:
                    p = near_point(rng, q, L, Fraction(0), Fraction(3, 32))     # closer than the floor
                else:
                    p = near_point(rng, q, L, Fraction(1, 8), cut)
            else:
                p = rand_point(rng, L)
            ops.append(dict(k="force", p=[rs(c) for c in p], g=g, excl=excl))
        elif roll < 0.97:
            a = None if rng.random() < 0.1 else rand_point(rng, L)
            b = None if rng.random() < 0.1 else (rand_point(rng, L) if rng.random() < 0.6 or a is None
                                                   else near_point(rng, a, L, Fraction(0), cut))
            ops.append(dict(k="dist", a=None if a is None else [rs(c) for c in a],
                            b=None if b is None else [rs(c) for c in b]))
        elif not few_queries:
            ops.append(dict(k="snap"))
    ops.append(dict(k="snap"))
    case["ops"] = ops
    return case


def gen_add_runs(rng, static, T, rounds, init=None, prefix=None):
    """RUNS of add_positions without any query in between (every mix of the start flag, in particular start=False
    immediately followed by start=True), and only THEN the queries: the force next to every residue of the run (a
    residue that was added counts for the very next query), get_point, a snapshot; then removals / a consolidation
    and the next run.  The random walk itself always queries between two adds, other callers need not."""
    case = dict(static)
    L, n, nodes = case["L"], case["n"], case["nodes"]
    cut = fr(case["cut"])
    pos = {}
    if init is None:
        init = [[g, [rs(c) for c in rand_point(rng, L)]] for g in range(n) if rng.random() < 0.3]
    for g, p in init:
        pos[g] = [fr(c) for c in p]
    case["init"], case["T"] = init, T
    ops = []
    for op in (prefix(pos) if prefix is not None else []):
        ops.append(op)
        if op["k"] == "add":
            pos[op["g"]] = [fr(c) for c in op["p"]]
        elif op["k"] == "remove":
            for g in op["gs"]:
                pos.pop(g, None)
    small = [g for g in range(n) if n <= 200 or g >= n - 60]
    for _ in range(rounds):
        free = [g for g in small if g not in pos]
        rng.shuffle(free)
        run = free[:rng.randint(2, 5)]
        if len(run) < 2:
            victims = rng.sample(sorted(g for g in small if g in pos), min(4, len([g for g in small if g in pos])))
            for g in victims:
                ops.append(dict(k="remove", mol=nodes[g][0], gs=[g]))
                pos.pop(g, None)
            continue
        flags = [rng.random() < 0.5 for _ in run]
        if rng.random() < 0.6:
            k = rng.randrange(len(run) - 1)
            flags[k], flags[k + 1] = False, True          # grown residue, then the first residue of the next molecule
        added = []
        for g, flag in zip(run, flags):
            p = rand_point(rng, L)
            ops.append(dict(k="add", g=g, p=[rs(c) for c in p], start=flag))
            pos[g] = p
            added.append(g)
        probe = rng.choice(small)
        for g in added:
            where = near_point(rng, pos[g], L, Fraction(1, 8), cut)
            ops.append(dict(k="force", p=[rs(c) for c in where], g=probe, excl=[probe] if probe not in added else []))
            if rng.random() < 0.3:
                where = near_point(rng, pos[g], L, Fraction(0), Fraction(3, 32))
                ops.append(dict(k="force", p=[rs(c) for c in where], g=probe, excl=[]))
            ops.append(dict(k="get", g=g))
        ops.append(dict(k="snap"))
        roll = rng.random()
        if roll < 0.3:
            ops.append(dict(k="concat"))
        elif roll < 0.7:
            g = rng.choice(sorted(g for g in small if g in pos))
            ops.append(dict(k="remove", mol=nodes[g][0], gs=[g]))
            pos.pop(g, None)
    ops.append(dict(k="snap"))
    case["ops"] = ops
    return case


def preload_static(rng, count, extra):
    """a big engine: `count` pre-positioned solvent-like nodes (one molecule each would make the node
    table huge: they form one molecule), plus two small molecules the history works on"""
    nodes, atypes = [], []
    for key in range(count):
        nodes.append([0, key])
        atypes.append(0)
    for mol in (1, 2):
        for key in range(extra // 2):
            nodes.append([mol, key])
            atypes.append(rng.randrange(2))
    sizes = [Fraction(1, 2), Fraction(3, 8)]
    inter = [[0, 0, rs(sizes[0]), "1"], [0, 1, rs((sizes[0] + sizes[1]) / 2), "1"], [1, 1, rs(sizes[1]), "1"]]
    side = 12
    L = [Fraction(side), Fraction(side) + Fraction(1, 2), Fraction(side) - Fraction(1, 4)]
    static = dict(nodes=nodes, atypes=atypes, inter=inter, cut="1", L=[rs(c) for c in L], n=len(nodes))
    cells = set()
    init = []
    scale = 2                      # grid of 1/2: > 5000 distinct cells in a 12^3 box
    g = 0
    while g < count:
        cell = tuple(rng.randrange(int(fr(l) * scale)) for l in static["L"])
        if cell in cells:
            continue
        cells.add(cell)
        init.append([g, [rs(Fraction(c, scale)) for c in cell]])
        g += 1
    return static, init


def multi_tree_prefix(rng, static, count0, pos):
    """opening of the history on the pre-loaded engine: two `start` adds (the second one certainly finds
    more than T points in the last tree), then the removal of a pre-loaded residue from the OLDER tree and
    a query where it used to be, then a re-add"""
    L = static["L"]
    nodes = static["nodes"]
    free = [g for g in range(count0, static["n"])]
    a, b, c = free[0], free[1], free[len(free) // 2]
    victim = count0 - 1 - rng.randrange(30)
    old = pos[victim]
    mol_c = nodes[c][0]
    return [
        dict(k="add", g=a, p=[rs(x) for x in rand_point(rng, L)], start=True),
        dict(k="add", g=b, p=[rs(x) for x in rand_point(rng, L)], start=True),
        dict(k="remove", mol=nodes[victim][0], gs=[victim]),
        dict(k="get", g=victim),
        dict(k="force", p=[rs(x) for x in near_point(rng, old, L, Fraction(1, 4), Fraction(3, 4))], g=c,
             excl=[c]),
        dict(k="force", p=[rs(x) for x in near_point(rng, old, L, Fraction(0), Fraction(1, 16))], g=c,
             excl=[h for h in range(count0, static["n"]) if nodes[h][0] == mol_c]),
        dict(k="add", g=victim, p=[rs(x) for x in near_point(rng, old, L, Fraction(1, 4), Fraction(3, 4))], start=False),
        dict(k="snap"),
    ]


# ------------------------------------------------------------------------------------------- min image oracle

def min_image_laws(ctx, rng, count):
    """symmetric, periodic in each box vector, never above the direct distance — on the real method"""
    from polyply.src.nonbond_engine import NonBondEngine
    for i in range(count):
        L = [common.dyadic(rng, 1, 6, bits=2) for _ in range(3)]
        box = np.array([float(c) for c in L])
        engine = NonBondEngine(np.ones((1, 3)) * np.inf, {(0, 0): 0}, ["A"], {frozenset(["A"]): (0.5, 1.0)},
                               None, None, 1.0, box)
        a = [common.dyadic(rng, -8, 8, bits=5) for _ in range(3)]
        b = [common.dyadic(rng, -8, 8, bits=5) for _ in range(3)]
        shift = [rng.randint(-3, 3) for _ in range(3)]
        a2 = [x + k * l for x, k, l in zip(a, shift, L)]
        fa, fb, fa2 = (np.array([float(c) for c in v]) for v in (a, b, a2))
        dab = float(engine.pbc_min_dist(fa, fb))
        dba = float(engine.pbc_min_dist(fb, fa))
        dshift = float(engine.pbc_min_dist(fa2, fb))
        direct2 = sum((x - y) ** 2 for x, y in zip(a, b))
        replay = dict(kind="min-image", L=[rs(c) for c in L], a=[rs(c) for c in a], b=[rs(c) for c in b], shift=shift)
        if dab != dba:
            ctx.oracle_fail("min-image-asymmetric", "pbc_min_dist(a,b)=%r != pbc_min_dist(b,a)=%r for %s" % (dab, dba, replay), replay)
        if dab != dshift:
            ctx.oracle_fail("min-image-not-periodic", "pbc_min_dist(a+k*L,b)=%r != pbc_min_dist(a,b)=%r for %s" % (dshift, dab, replay), replay)
        if Fraction(dab) ** 2 > direct2 * (1 + Fraction(1, 10 ** 12)):
            ctx.oracle_fail("min-image-exceeds-direct", "pbc_min_dist(a,b)=%r exceeds the direct distance %r for %s"
                            % (dab, float(direct2) ** 0.5, replay), replay)
        ctx.case(None, law="min-image")


# ------------------------------------------------------------------------------------------- shrinking

def fails(ctx, case, cls, stream):
    """does the history still show an oracle failure / disagreement?  (one driver call)"""
    impl = run_impl(case, cls)
    answer = ctx.driver.ask([request_of(case)])[0]
    if not answer.get("ok") or not answer.get("pre", True):
        return None
    probe = common.Ctx(ctx.pid, ctx.tier, ctx.seed)
    res = judge(probe, case, impl, answer, stream)
    failure = res[0] if res else None
    if failure is not None:
        return failure
    if probe.broken:
        return ("disagree", probe.broken[0]["detail"])
    return None


def shrink(ctx, case, cls, stream, budget=24):
    """drop ops while the failure persists (greedy chunks); keeps the protocol (checked by the model)"""
    best = case
    ops = list(case["ops"])
    chunk = max(1, len(ops) // 2)
    calls = 0
    while chunk >= 1 and calls < budget:
        i = 0
        progressed = False
        while i < len(ops) and calls < budget:
            trial = ops[:i] + ops[i + chunk:]
            if not any(o["k"] in ("force", "get", "snap", "dist") for o in trial):
                i += chunk
                continue
            cand = dict(best)
            cand["ops"] = trial
            calls += 1
            try:
                res = fails(ctx, cand, cls, stream)
            except Exception:  # pylint: disable=broad-except
                res = None
            if res is not None:
                ops = trial
                best = cand
                progressed = True
            else:
                i += chunk
        if not progressed or chunk == 1:
            chunk //= 2
    return best


# ------------------------------------------------------------------------------------------- from_topology layout

LAYOUT_TYPES = ["A", "B", "C", "TA", "TB"]
LAYOUT_VOLUMES = {"A": "1/2", "B": "3/8", "C": "5/8", "TA": "7/16", "TB": "9/16"}     # pairwise distinct sizes


def layout_molecules(case):
    """real MetaMolecule objects for the case (node keys, attributes and iteration order as listed)"""
    import networkx as nx
    from polyply.src.meta_molecule import MetaMolecule
    molecules = []
    for mol in case["mols"]:
        graph = nx.Graph()
        for i, node in enumerate(mol["nodes"]):
            attrs = dict(resname=node["resname"], resid=i + 1)
            if node.get("template") is not None:
                attrs["template"] = node["template"]
            pos = node.get("pos")
            if pos is not None:
                if isinstance(pos, str):
                    bad = dict(nan=np.nan, inf=np.inf)[node.get("bad", "nan")]
                    attrs["position"] = np.array([1.0, bad, 1.0])
                else:
                    attrs["position"] = np.array([float(fr(c)) for c in pos])
            graph.add_node(node["key"], **attrs)
        keys = [node["key"] for node in mol["nodes"]]
        for a, b in zip(keys, keys[1:]):
            graph.add_edge(a, b)
        molecules.append(MetaMolecule(graph, mol_name=mol["name"]))
    return molecules


def layout_internal(nodes_to_gndx, atypes, positions):
    """canonical internal view, None when the objects do not have the expected representation"""
    try:
        if not isinstance(nodes_to_gndx, dict):
            return None
        items = sorted([int(k[0]), int(k[1]), int(v)] for k, v in nodes_to_gndx.items())
        positions = np.asarray(positions, dtype=float)
        if positions.ndim != 2:
            return None
        rows = [vec_rs(row) if np.all(np.isfinite(row)) else None for row in positions]
        return dict(map=items, atypes=[str(a) for a in atypes], rows=rows, n=int(len(positions)))
    except Exception:  # pylint: disable=broad-except
        return None


def run_layout_impl(case):
    """the real `NonBondEngine.from_topology`; returns (status, public view, internal view)"""
    from polyply.src.nonbond_engine import NonBondEngine
    captured = {}

    class Capture(NonBondEngine):
        """records the arguments `from_topology` hands to the constructor (harness-side interposition: the
        constructor itself is the real one); used only when the construction is refused"""
        def __init__(self, *args, **kwargs):
            try:
                bound = inspect.signature(NonBondEngine.__init__).bind(self, *args, **kwargs)
                names = list(bound.arguments)
                # positional order of the constructor: self, positions, nodes -> index, atom types
                captured["positions"] = np.array(bound.arguments[names[1]], dtype=float, copy=True)
                captured["nodes_to_gndx"] = bound.arguments[names[2]]
                captured["atypes"] = list(bound.arguments[names[3]])
            except Exception:  # pylint: disable=broad-except
                captured.clear()
            NonBondEngine.__init__(self, *args, **kwargs)

    molecules = layout_molecules(case)
    topology = types.SimpleNamespace(volumes={k: float(fr(v)) for k, v in LAYOUT_VOLUMES.items()}, bending={})
    box = np.array([float(fr(c)) for c in case["L"]])
    engine = None
    try:
        engine = Capture.from_topology(molecules, topology, box, ignore=tuple(case["ignore"]))
        status = "ok"
    except IOError:
        status = "reject"
    except Exception:  # pylint: disable=broad-except
        status = "fail"
    public = None
    internal = None
    if engine is not None:
        public = []
        for mol_idx, mol in enumerate(case["mols"]):
            if mol["name"] in case["ignore"]:
                continue
            for node in mol["nodes"]:
                try:                                         # public queries only inside the try-block
                    row = np.asarray(engine.get_point(mol_idx, node["key"]), dtype=float).reshape(-1)
                    size = engine.get_interaction(mol_idx, mol_idx, node["key"], node["key"])[0]
                    public.append([mol_idx, node["key"], vec_rs(row) if np.all(np.isfinite(row)) else None,
                                   rs(float(size))])
                except Exception as err:  # pylint: disable=broad-except
                    public.append([mol_idx, node["key"], "raised:" + type(err).__name__, None])
        public.sort(key=lambda item: (item[0], item[1]))
        internal = layout_internal(getattr(engine, "nodes_to_gndx", None), getattr(engine, "atypes", ()),
                                   getattr(engine, "positions", None))
    elif status == "fail" and captured:
        internal = layout_internal(captured["nodes_to_gndx"], captured["atypes"], captured["positions"])
    return status, public, internal


def layout_request(case):
    mols = []
    for mol in case["mols"]:
        nodes = []
        for node in mol["nodes"]:
            pos = node.get("pos")
            nodes.append(dict(key=node["key"], resname=node["resname"], template=node.get("template"),
                              pos="nonfinite" if isinstance(pos, str) else pos))
        mols.append(dict(name=mol["name"], nodes=nodes))
    return dict(op="layout", L=case["L"], ignore=case["ignore"], mols=mols)


def judge_layout(ctx, case, impl, answer):
    status, public, internal = impl
    replay = dict(kind="layout", case=case)
    if not answer.get("ok"):
        ctx.tie_broken("correspondence", "driver:layout", str(answer)[:300], replay)
        return
    # -- outcome class and the observable part
    want = answer["status"]
    if want == "ok" and not answer["tree"]:
        want = "fail"                       # accepted by the closed check, refused by the KD-tree (half-open)
    m_public = None
    if answer["status"] == "ok" and answer["tree"]:
        m_public = [[mol, key, answer["rows"][g], LAYOUT_VOLUMES.get(answer["atypes"][g])]
                    for mol, key, g in sorted(answer["map"])]
    ctx.correspond("layout", dict(status=status, public=public), dict(status=want, public=m_public), replay)
    # -- internal part
    if answer["status"] == "ok":
        m_internal = dict(map=sorted(answer["map"]), atypes=answer["atypes"], rows=answer["rows"], n=answer["n"])
        if internal is None:
            ctx.tally(layout_internal_not_observable="refused" if status != "ok" else "representation")
        else:
            ctx.correspond("layout-internal", internal, m_internal, replay)
    # -- oracle: the specification (entries numbered 0, 1, ...) against the public queries
    if status == "ok" and public is not None:
        spec = {(e["mol"], e["key"]): e for e in answer["spec"]}
        for mol, key, row, size in public:
            e = spec.get((mol, key))
            where = "node %s of molecule %d (%r) with ignore=%s" % (key, mol, case["mols"][mol]["name"], case["ignore"])
            if e is None:
                continue
            if isinstance(row, str):
                ctx.oracle_fail("layout-raised", "after from_topology, get_point / get_interaction for %s raised %s: "
                                "a molecule that is not ignored must keep the index it has in `molecules`"
                                % (where, row[7:]), replay)
                break
            if row != e["row"]:
                ctx.oracle_fail("layout-position", "after from_topology, get_point for %s returns %s; the position "
                                "supplied for that node is %s" % (where, row, e["row"]), replay)
                break
            if size != LAYOUT_VOLUMES.get(e["atype"]):
                ctx.oracle_fail("layout-pair-size", "after from_topology, the size used for %s is %s; the size of "
                                "its template / residue name %r is %s"
                                % (where, size, e["atype"], LAYOUT_VOLUMES.get(e["atype"])), replay)
                break
    ctx.traces += 1


def layout_node(key, resname, template=None, pos=None, bad=None):
    node = dict(key=key, resname=resname, template=template, pos=pos)
    if bad is not None:
        node["bad"] = bad
    return node


LAYOUT_BOX = ["4", "3", "5"]


def exhaustive_layout_cases():
    """all ignore masks over {X, Y, Z} x name sequences x coordinate variants"""
    sequences = [["X"], ["X", "Y"], ["X", "Y", "X"], ["X", "Y", "Z"], ["Y", "X", "X", "Z", "Y"]]
    variants = ["none", "inside", "face", "outside", "nonfinite"]
    special = dict(inside=["1", "5/4", "1/2"], face=["1", "3", "5"], outside=["1", "193/64", "1"], nonfinite="nonfinite")
    cases = []
    for seq in sequences:
        for r in range(4):
            for mask in itertools.combinations(["X", "Y", "Z"], r):
                for variant in variants:
                    mols = []
                    for i, name in enumerate(seq):
                        base = [3, 0, 7][i % 3]
                        nodes = [layout_node(base + 2 * j, LAYOUT_TYPES[(i + j) % 3],
                                             template=("TA" if (i + j) % 4 == 1 else None),
                                             pos=(["1/2", "1/4", str(i + j)] if j == 0 and i % 2 == 0 else None))
                                 for j in range(1 + (i + 1) % 3)]
                        mols.append(dict(name=name, nodes=nodes))
                    if variant != "none":
                        # the special coordinate goes to the last node of the second molecule (or the only one)
                        target = mols[min(1, len(mols) - 1)]["nodes"][-1]
                        target["pos"] = special[variant]
                    cases.append(dict(L=LAYOUT_BOX, ignore=list(mask), mols=mols, shape="exhaustive"))
    return cases


def gen_layout_case(rng):
    names = ["X", "Y", "Z", "W"]
    L = [rs(common.dyadic(rng, 2, 6, bits=2)) for _ in range(3)]
    mols = []
    for _ in range(rng.randint(1, 6)):
        size = rng.choice([0, 1, 1, 2, 3, 4, 5])
        keys = rng.sample(range(0, 30), size)
        if rng.random() < 0.5:
            keys.sort()
        nodes = []
        for key in keys:
            pos, bad = None, None
            roll = rng.random()
            if roll < 0.35:
                pos = [rs(c) for c in rand_point(rng, L)]
            elif roll < 0.43:
                pos = [rs(c) for c in rand_point(rng, L)]
                axis = rng.randrange(3)
                pos[axis] = L[axis] if rng.random() < 0.7 else "0"          # exactly on a face
            elif roll < 0.47:
                pos = [rs(c) for c in rand_point(rng, L)]
                axis = rng.randrange(3)
                pos[axis] = rs(fr(L[axis]) + Fraction(1, 64)) if rng.random() < 0.5 else "-1/64"
            elif roll < 0.50:
                pos, bad = "nonfinite", rng.choice(["nan", "inf"])
            nodes.append(layout_node(key, rng.choice(LAYOUT_TYPES[:3]),
                                     template=(rng.choice(LAYOUT_TYPES[3:]) if rng.random() < 0.3 else None),
                                     pos=pos, bad=bad))
        mols.append(dict(name=rng.choice(names[:rng.randint(1, 4)]), nodes=nodes))
    present = sorted({m["name"] for m in mols})
    roll = rng.random()
    if roll < 0.3:
        ignore = []
    elif roll < 0.55:
        ignore = [rng.choice(present)]
    elif roll < 0.8:
        ignore = [n for n in names if rng.random() < 0.5]
    elif roll < 0.9:
        ignore = list(present)
    else:
        ignore = ["NOT_THERE"] + [n for n in present if rng.random() < 0.3]
    return dict(L=L, ignore=ignore, mols=mols, shape="random")


def run_layout_batch(ctx, cases):
    if not cases:
        return
    impls = [run_layout_impl(case) for case in cases]
    answers = ctx.driver.ask([layout_request(case) for case in cases])
    for case, impl, answer in zip(cases, impls, answers):
        judge_layout(ctx, case, impl, answer)
        ignored = [m["name"] in case["ignore"] for m in case["mols"]]
        kept_after_ignored = any(ig and not all(ignored[i + 1:]) for i, ig in enumerate(ignored))
        key = None
        if impl[0] == "ok" and kept_after_ignored:
            key = "layout:" + str(hash(json.dumps(case, sort_keys=True)))
        ctx.case(key, sample=dict(stream="layout", ignore=case["ignore"], names=[m["name"] for m in case["mols"]],
                                  status=impl[0]) if key else None,
                 stream="layout", layout_shape=case.get("shape", "corpus"), layout_status=impl[0],
                 layout_ignored=("none" if not any(ignored) else "all" if all(ignored) else "some"))


# ------------------------------------------------------------------------------------------- double add

def gen_double_add(rng, static, nops, T):
    """adds (also onto positioned nodes), removals, consolidation; a snapshot after every operation"""
    case = dict(static)
    L, n, nodes = case["L"], case["n"], case["nodes"]
    pos = {}
    init = []
    for g in range(n):
        if rng.random() < 0.3:
            p = rand_point(rng, L)
            init.append([g, [rs(c) for c in p]])
            pos[g] = p
    case["init"], case["T"] = init, T
    by_mol = {}
    for g, (mol, _) in enumerate(nodes):
        by_mol.setdefault(mol, []).append(g)
    ops = []
    while len(ops) < 2 * nops:
        roll = rng.random()
        if roll < 0.62 or not pos:
            positioned = sorted(pos)
            if positioned and rng.random() < 0.45:
                g = rng.choice(positioned)
            else:
                g = rng.randrange(n)
            p = rand_point(rng, L)
            ops.append(dict(k="add", g=g, p=[rs(c) for c in p], start=rng.random() < 0.4))
            pos[g] = p
        elif roll < 0.92:
            mol = nodes[rng.randrange(n)][0]
            members = by_mol[mol]
            gs = [rng.choice(members) for _ in range(rng.randint(1, min(3, len(members))))]
            ops.append(dict(k="remove", mol=mol, gs=gs))
            for g in gs:
                pos.pop(g, None)
        else:
            ops.append(dict(k="concat"))
        ops.append(dict(k="snap"))
    case["ops"] = ops
    return case


def double_add_state(engine, nodes):
    """position table through get_point; index lists IN ORDER and gndx_to_tree when they exist as list / dict"""
    state = dict(positions=public_positions(engine, nodes))
    defined_idxs = getattr(engine, "defined_idxs", None)
    if isinstance(defined_idxs, list) and all(isinstance(d, list) for d in defined_idxs):
        state["defined"] = [[int(i) for i in idxs] for idxs in defined_idxs]
    gndx_to_tree = getattr(engine, "gndx_to_tree", None)
    if isinstance(gndx_to_tree, dict):
        state["g2t"] = sorted([int(g), int(t)] for g, t in gndx_to_tree.items())
    return state


def run_double_add_impl(case, cls):
    engine = make_engine(case, cls)
    nodes = case["nodes"]
    states, raised = [], None
    for i, op in enumerate(case["ops"]):
        k = op["k"]
        try:
            if k == "add":
                mol, key = nodes[op["g"]]
                engine.add_positions(np.array([float(fr(c)) for c in op["p"]]), mol, key, start=op["start"])
            elif k == "remove":
                engine.remove_positions(op["mol"], [nodes[g][1] for g in op["gs"]])
            elif k == "concat":
                engine.concatenate_trees()
        except Exception as err:  # pylint: disable=broad-except
            raised = dict(op_index=i, kind=k, error=type(err).__name__)
            break
        if k == "snap":
            states.append(double_add_state(engine, nodes))
    return states, raised


def judge_double_add(ctx, case, impl, answer):
    states, raised = impl
    replay = dict(kind="double-add", case=case)
    if not answer.get("ok"):
        ctx.tie_broken("correspondence", "driver:double-add", str(answer)[:300], replay)
        return
    snaps = [o["model"] for o in answer["out"]]
    # the model's prediction of the first raising operation: a search tree rebuilt with an undefined row
    predicted = next((j for j, snap in enumerate(snaps) if any(p is None for tree in snap["trees"] for p in tree)), None)
    got = None
    if raised is not None:
        got = sum(1 for op in case["ops"][:raised["op_index"]] if op["k"] == "snap")      # index of the snapshot that is missing
    upto = len(states)
    m_states = []
    for snap, state in zip(snaps[:upto], states):
        m = dict(positions=[[g, list(p)] for g, p in snap["positions"]])
        if "defined" in state:
            m["defined"] = snap["defined"]
        if "g2t" in state:
            m["g2t"] = sorted([g, t] for g, t in snap["g2t"])
        m_states.append(m)
    agree = states == m_states and got == predicted
    first = next((j for j, (a, b) in enumerate(zip(states, m_states)) if a != b), None)
    ctx.correspond("double-add",
                   "agree" if agree else summarize(dict(first_raise=got, diff_at=first, state=states[first] if first is not None else None)),
                   "agree" if agree else summarize(dict(first_raise=predicted, diff_at=first, state=m_states[first] if first is not None else None)),
                   replay)
    if states and ("defined" not in states[0] or "g2t" not in states[0]):
        ctx.tally(internal_state_not_observable="double-add")
    doubled = any(sum(len(d) for d in snap["defined"]) != len({g for d in snap["defined"] for g in d})
                  for snap in snaps[:max(upto, 1)])
    ctx.traces += 1
    key = None
    if doubled:
        key = "double-add:" + str(hash(json.dumps(case["ops"], sort_keys=True)))
    ctx.case(key, sample=dict(stream="double-add", n=case["n"], T=case["T"], ops=case["ops"][:6], raised=raised) if key else None,
             stream="double-add", double_add_end=("raised:%s" % raised["kind"] if raised else "completed"),
             double_add_states_compared=("<10" if upto < 10 else "10-29" if upto < 30 else ">=30"),
             double_add_doubled=bool(doubled))


def run_double_add_batch(ctx, cases, classes):
    if not cases:
        return
    impls = [run_double_add_impl(case, class_for(case, classes)) for case in cases]
    answers = ctx.driver.ask([request_of(case) for case in cases])
    for case, impl, answer in zip(cases, impls, answers):
        judge_double_add(ctx, case, impl, answer)


# ------------------------------------------------------------------------------------------- main

def class_for(case, classes):
    if case.get("T") is None:
        return None
    return classes.get(case["T"])


def histogram(case):
    ops = case["ops"]
    return dict(
        nops=("<100" if len(ops) < 100 else "100-250" if len(ops) < 250 else ">=250"),
        T=("real" if case["T"] is None else "low"),
        nodes=("<=40" if case["n"] <= 40 else ">5000"))


def run_batch(ctx, cases, classes, stream, oracle=True):
    if not cases:
        return
    impls = []
    for case in cases:
        impls.append(run_impl(case, class_for(case, classes)))
    answers = ctx.driver.ask([request_of(case) for case in cases])
    for case, impl, answer in zip(cases, impls, answers):
        res = judge(ctx, case, impl, answer, stream, oracle=oracle)
        failure, contributing = res if res else (None, False)
        if failure is not None and oracle:
            small = case
            shapes = ctx.extra.setdefault("shrunk_shapes", set())
            if ctx.extra.get("shrink", True) and case["n"] <= 200 and failure[0] not in shapes:
                shapes.add(failure[0])
                small = shrink(ctx, case, class_for(case, classes), stream)
                again = fails(ctx, small, class_for(small, classes), stream)
                if again is not None and again[0] != "disagree":
                    failure = again
            ctx.oracle_fail(failure[0], failure[1], dict(kind="history", stream=stream, case=small))
        trees = 1
        removal = any(o["k"] == "remove" for o in case["ops"])
        for out_m in (answer.get("out") or []):
            if isinstance(out_m, dict) and isinstance(out_m.get("model"), dict) and "defined" in out_m["model"]:
                trees = max(trees, len(out_m["model"]["defined"]))
        nontrivial = contributing and (trees >= 2 or removal)
        key = None
        if nontrivial:
            key = str(hash(json.dumps(case["ops"], sort_keys=True)))
        sample = dict(stream=stream, n=case["n"], L=case["L"], cut=case["cut"], T=case["T"],
                      ops=case["ops"][:6] + ["… %d ops" % len(case["ops"])], max_trees=trees)
        ctx.case(key, sample=sample, stream=stream, max_trees=min(trees, 4), **histogram(case))
        for op in case["ops"]:
            ctx.tally(**{"op": op["k"]})
        if not oracle:
            # how often the out-of-protocol double add shows as a double count (model force != spec force)
            for out_m in (answer.get("out") or []):
                if isinstance(out_m, dict) and "scale" in out_m and out_m["model"] != out_m["spec"]:
                    ctx.tally(offprotocol_double_count="seen")
                    break


def corpus_cases(kind="history"):
    path = os.path.join(common.VERIF, "corpus", "C16")
    out = []
    if os.path.isdir(path):
        for name in sorted(os.listdir(path)):
            if name.endswith(".json"):
                data = json.load(open(os.path.join(path, name)))
                inp = data.get("input", data)
                if inp.get("kind") == kind:
                    out.append(inp["case"])
    return out


def threshold_literal():
    """the translated tree-opening threshold, None when the translator does not find the anchor"""
    try:
        from tables import engine as engine_tables
        return int(Fraction(engine_tables.extract()["treeThreshold"]))
    except Exception:  # pylint: disable=broad-except
        return None


def lowered_classes():
    literal = threshold_literal()
    classes = {}
    if literal is None:
        return {}
    for T in range(0, 13):
        cls = lowered_engine_class(literal, T)
        if cls is None:
            return {}
        classes[T] = cls
    return classes


def run(ctx):
    ctx.extra["rule"] = RULE
    ctx.extra["trusted"] = [
        "scipy.spatial.KDTree(boxsize=…).sparse_distance_matrix as exact periodic neighbour search "
        "(modelled: Geometry.kdDistSq + filter <= cut_off; zero distances are kept, bound inclusive)",
        "IEEE double arithmetic: exact on the dyadic inputs generated; sqrt/pow of the force within 1e-9 relative",
        "lowered-threshold stream: the literal 5000 of add_positions replaced in a copy of its code object "
        "inside the harness process (co_consts), everything else is the real byte code",
        "scipy.spatial.KDTree(boxsize=L) raising ValueError for a row outside the half-open box [0, L) or not "
        "finite (modelled: EngineLayout.treeAccepts in the layout stream; 'a rebuilt tree holds an undefined row' "
        "in the double-add stream)",
    ]
    ctx.assumptions += [
        "partial: neighbour search of scipy's KD-tree and IEEE rounding are trusted, not verified",
        "protocol precondition: add_positions is issued for a currently unpositioned node with a point inside "
        "the half-open box (what the program does; the double add outside the protocol is recorded in "
        "notes/C16_findings.md)",
        "C16_force_gradient is proved over the reals for the 12-6 formula of the model; the tie of the formula "
        "to _lennard_jones_force is the force correspondence (1e-9)",
    ]
    ctx.assumptions += [
        "layout stream: from_topology is driven with real MetaMolecule objects and a minimal topology object "
        "(volumes, bending); the interaction table / cut-off it also builds are not modelled beyond 'empty table "
        "-> exception' and the self term read through get_interaction",
        "double-add stream: outside the quantifier of C16 (the program never adds onto a positioned node): "
        "correspondence only, states compared up to the first raising operation",
    ]
    rng = ctx.rng
    classes = lowered_classes()
    if not classes:
        ctx.tally(lowered_threshold="unavailable")
    corpus = corpus_cases()
    run_batch(ctx, corpus, classes, "engine")

    cases = []
    count = ctx.budget(36, 1200)
    for i in range(count):
        static = gen_static(rng)
        nops = rng.choice([rng.randint(50, 120), rng.randint(50, 400)])
        if classes:
            T = rng.choice([0, 1, 2, 3, 3, 4, 5, 6, 8, 12])
        else:
            T = None
        cases.append(gen_history(rng, static, nops, T))
    run_batch(ctx, cases, classes, "engine")

    # real threshold, decided by the real literal: > 5000 points pre-loaded
    literal = threshold_literal()
    real_cases = []
    if literal is None:
        ctx.tally(real_threshold_stream="unavailable")
    for i in range(ctx.budget(1, 6) if literal is not None else 0):
        count0 = literal + rng.choice([1, 0, 3])          # at the boundary (n = T: not yet) and above it
        static, init = preload_static(rng, count0, 24)
        real_cases.append(gen_history(rng, static, rng.randint(50, 90), None, init=init, few_queries=True,
                                      prefix=lambda pos, static=static, count0=count0: multi_tree_prefix(rng, static, count0, pos)))
    run_batch(ctx, real_cases, classes, "engine-real-T")

    # runs of adds without a query in between (own generator: the histories above stay what they were)
    sub = random.Random(("add-runs", ctx.seed, ctx.pid).__repr__())
    runs = []
    for i in range(ctx.budget(30, 800)):
        static = gen_static(sub)
        T = sub.choice([0, 0, 1, 2, 3, 5]) if classes else None
        runs.append(gen_add_runs(sub, static, T, sub.randint(3, 10)))
    run_batch(ctx, runs, classes, "engine-add-runs")
    if literal is not None:
        real_runs = []
        for i in range(ctx.budget(1, 4)):
            count0 = literal + sub.choice([1, 2])
            static, init = preload_static(sub, count0, 24)
            real_runs.append(gen_add_runs(sub, static, None, sub.randint(2, ctx.budget(3, 6)), init=init))
        run_batch(ctx, real_runs, classes, "engine-real-T-add-runs")

    # outside the protocol: correspondence only
    off = []
    for i in range(ctx.budget(6, 100)):
        static = gen_static(rng)
        T = rng.choice([1, 3, 6]) if classes else None
        off.append(gen_history(rng, static, rng.randint(20, 60), T, offprotocol=True))
    run_batch(ctx, off, classes, "engine-offprotocol", oracle=False)

    min_image_laws(ctx, rng, ctx.budget(300, 20000))

    # the index layout built by from_topology: corpus, exhaustive small shapes, then random
    run_layout_batch(ctx, [dict(c, shape="corpus") for c in corpus_cases("layout")])
    exhaustive = exhaustive_layout_cases()
    run_layout_batch(ctx, exhaustive)
    ctx.tally(layout_exhaustive="all 8 ignore masks over {X,Y,Z} x 5 name sequences x 5 coordinate variants = %d cases"
              % len(exhaustive))
    run_layout_batch(ctx, [gen_layout_case(rng) for _ in range(ctx.budget(150, 4000))])

    # add_positions also onto positioned nodes (outside the protocol): correspondence only
    doubles = [dict(c) for c in corpus_cases("double-add")]
    for i in range(ctx.budget(10, 250)):
        static = gen_static(rng)
        T = rng.choice([0, 1, 2, 4, 8]) if classes else None
        doubles.append(gen_double_add(rng, static, rng.randint(15, 45), T))
    run_double_add_batch(ctx, doubles, classes)


def replay(ctx, data):
    inp = data.get("input") or {}
    classes = lowered_classes()
    if data.get("kind") == "no-failing-input-found":
        print("replay names obligations that no longer check:")
        cases = []
        for item in data.get("no_longer_checks", []):
            print("  ", item["name"], "-", item["detail"][:300])
            if item.get("input") and "ops" in item["input"]:
                cases.append(item["input"])
            elif item.get("input") and item["input"].get("kind") == "layout":
                run_layout_batch(ctx, [item["input"]["case"]])
            elif item.get("input") and item["input"].get("kind") == "double-add":
                run_double_add_batch(ctx, [item["input"]["case"]], classes)
        ctx.extra["shrink"] = False
        run_batch(ctx, cases, classes, "engine")
    elif inp.get("kind") == "layout":
        run_layout_batch(ctx, [inp["case"]])
    elif inp.get("kind") == "double-add":
        run_double_add_batch(ctx, [inp["case"]], classes)
    elif inp.get("kind") == "min-image":
        import random
        # re-evaluate the three laws on the recorded points
        from polyply.src.nonbond_engine import NonBondEngine
        L = [fr(c) for c in inp["L"]]
        a = [fr(c) for c in inp["a"]]
        b = [fr(c) for c in inp["b"]]
        a2 = [x + k * l for x, k, l in zip(a, inp["shift"], L)]
        engine = NonBondEngine(np.ones((1, 3)) * np.inf, {(0, 0): 0}, ["A"], {frozenset(["A"]): (0.5, 1.0)},
                               None, None, 1.0, np.array([float(c) for c in L]))
        fa, fb, fa2 = (np.array([float(c) for c in v]) for v in (a, b, a2))
        dab, dba, dsh = (float(engine.pbc_min_dist(fa, fb)), float(engine.pbc_min_dist(fb, fa)),
                         float(engine.pbc_min_dist(fa2, fb)))
        if dab != dba or dab != dsh or Fraction(dab) ** 2 > sum((x - y) ** 2 for x, y in zip(a, b)) * (1 + Fraction(1, 10 ** 12)):
            ctx.oracle_fail("min-image", "laws fail: d(a,b)=%r d(b,a)=%r d(a+kL,b)=%r" % (dab, dba, dsh), inp)
    else:
        ctx.extra["shrink"] = False
        run_batch(ctx, [inp["case"]], classes, inp.get("stream", "engine"))
    for b in ctx.broken:
        print("REPLAY-DISAGREES", b["name"], b["detail"][:400])
