"""C01 — every residue is a verbatim, re-indexed copy of its force-field block.

Statement (properties.jsonl, fixed): "For any residue graph and force field that gen_params accepts, the
generated molecule contains every residue exactly once, laid out in residue-id order and numbered by its
residue id, with exactly the atoms of the block its residue name refers to (names, order, types, charges,
masses, charge groups shifted), including residues that stem from multi-residue blocks, and every
interaction defined inside a block reappears once per instance with unchanged parameters on that
instance's atoms. Only atoms and interactions explicitly targeted by an applicable link or terminal
modification may differ, and a modification changes nothing but the atoms it names in its target residue."

Implementation side: random force fields (harness/ffgen_c01.py) written in vermouth `.ff` and polyply
`.itp` syntax to temp files and read by the REAL parsers through `load_ff_library`; random connected residue
graphs; the real `MapToMolecule -> ApplyLinks -> ApplyModifications`, and `gen_params` end to end.
Model side (lean/PolyplyVerif/Model/MapToMol.lean): `mapToMolecule`, `applyLinks` (relative to the link
operations recorded from the real run), `applyMods` -> correspondence streams map / graphs / links / final.
Oracle: the Lean specification `specMol` (RHS of C01_layout / C01_interactions) compared by the driver
(`checkLayout`, `checkFrame`) with the REAL molecule, and the written `.itp` compared with it.
"""
import json
import os
import random

import common
import ffgen_c01 as gen
import c01_real as real

PID = "C01"
RULE = ("random force fields (1-4 single-residue blocks of 1-6 atoms, 0-3 interaction sections of arity 2-4, "
        "nrexcl 0-3, optional 2-3 residue block used through from_itp, .ff and .itp syntax, backbone / "
        "override / replace links, N-ter/C-ter and extra modifications) x random connected residue graphs "
        "(linear/branched/cyclic, 3-12 residues, resid start 1/7/28/100, integer/offset/permuted/scattered/"
        "string keys, shuffled insertion) x -mods; distinct = (force field text, graph, mods); a case is "
        "non-trivial when it has >= 2 residues")
SECT_ARITY = dict(gen.SECTIONS, exclusions=None)
GENERIC = {"layout": "layout-differs-from-blocks", "frame": "untargeted-atom-or-interaction-changed",
           "itp": "written-itp-differs-from-molecule", "reject": "rejects-valid-input"}


# ------------------------------------------------------------------------------------------------ findings

def enabled_findings(pid=PID):
    """finding shapes whose inputs are generated: those the coordinator listed in known_findings.txt plus
    VERIF_C01_FINDINGS (comma separated, or `all`)"""
    shapes = {k["shape"] for k in common.load_known_findings() if k["property"] == pid}
    env = os.environ.get("VERIF_C01_FINDINGS", "")
    if env.strip() == "all":
        shapes |= set(gen.FINDING_SHAPES)
    else:
        shapes |= {s.strip() for s in env.split(",") if s.strip()}
    return sorted(shapes & set(gen.FINDING_SHAPES))


def features(case):
    """which known-finding shapes the input really has (decides the shape id of an oracle failure)"""
    ff, graph, mods = case["ff"], case["graph"], case["mods"]
    out = []
    for block in ff["blocks"]:
        keys = [(i["sect"], tuple(i["atoms"]), i["meta"].get("version", 1)) for i in block["ixns"]]
        if len(set(keys)) < len(keys):
            out.append("dup-key-in-block")
            break
    used = {n[2] for n in graph["nodes"] if not n[3]}
    if any(b["name"] in used and b["name"] != "MR" and b["atoms"][0]["resid"] != 1 for b in ff["blocks"]):
        out.append("block-resid-not-1")
    if any(l["kind"] == "remove" for l in ff["links"]):
        out.append("atom-removed-by-link")
    if any(l["kind"] == "multiterm" for l in ff["links"]) and any(b["syntax"] == "itp" for b in ff["blocks"]):
        out.append("link-multiterm-file-order")
    nodes = sorted(graph["nodes"], key=lambda n: n[1])
    mr = next((b for b in ff["blocks"] if b["name"] == "MR"), None)
    mr_base = mr["atoms"][0]["resid"] if mr is not None else 1
    # (a copy that comes first keeps the block's own residue numbers: fine when they ARE the residue ids asked for)
    if nodes and nodes[0][3] and nodes[0][1] != mr_base:
        out.append("multires-first-resid-not-1")
    if nodes and nodes[0][1] == 0:
        out.append("resid-start-0")
    return out


def expected_reject(case):
    """inputs the program must refuse: a selected (or default terminal) modification that the force field does
    not define, for a residue it applies to (protein residue name, matching the selection)"""
    import polyply.src.apply_modifications as am
    ff, graph, mods = case["ff"], case["graph"], case["mods"]
    if not ff["mods"]:
        return False
    protein = set(am.protein_resnames.split("|"))
    defined = {m["name"] for m in ff["mods"]}
    nodes = sorted(graph["nodes"], key=lambda n: n[1])
    by_resid = {n[1]: n for n in nodes}
    if mods:
        targets = [(resid, resname, name) for resid, resname, name in real.parse_mods(mods)]
    else:
        targets = [(nodes[0][1], None, "N-ter"), (nodes[-1][1], None, "C-ter")]
    for resid, resname, name in targets:
        node = by_resid.get(resid)
        if node is None:
            return True
        if node[2] not in protein or (resname is not None and resname != node[2]):
            continue
        if name not in defined:
            return True
        # an interaction of the modification between atoms the residue does not have
        mod = next(m for m in ff["mods"] if m["name"] == name)
        block = next((b for b in ff["blocks"] if b["name"] == node[2]), None)
        have = {a["atomname"] for a in block["atoms"]} if block else set()
        for link in ff["links"]:
            # a link that renames an atom of every residue of this name
            if link["kind"] == "rename" and node[2] in link["resnames"]:
                for ref, replace, _ in link["atoms"]:
                    if "atomname" in replace and ref in have:
                        have = (have - {ref}) | {replace["atomname"]}
        if any(a not in have for i in mod["ixns"] for a in i["atoms"]):
            return True
    return False


def shape_of(case, kind, out=None):
    feats = features(case)
    return feats[0] if feats else GENERIC[kind]


# ------------------------------------------------------------------------------------------------ canonical forms

def canon_atoms(atoms):
    return [[a[0], a[1], a[2], sorted(list(kv) for kv in a[3])] for a in atoms]


def canon_ixns(ixns):
    """per-section lists (stable grouping by section name)"""
    out = {}
    for sect, atoms, params, meta in ixns:
        out.setdefault(sect, []).append([list(atoms), list(params), sorted(list(kv) for kv in meta)])
    return dict(sorted(out.items()))


def canon_mol(mol):
    return dict(atoms=canon_atoms(mol["atoms"]), ixns=canon_ixns(mol["ixns"]))


def canon_ff(mff):
    return dict(blocks=[dict(name=b["name"], nrexcl=b["nrexcl"],
                             atoms=[[a[0], a[1], sorted(list(kv) for kv in a[2])] for a in b["atoms"]],
                             ixns=canon_ixns(b["ixns"])) for b in sorted(mff["blocks"], key=lambda b: b["name"])],
                mods=[dict(name=m["name"], atoms=[[a[0], sorted(list(kv) for kv in a[1])] for a in m["atoms"]],
                           ixns=canon_ixns(m["ixns"])) for m in sorted(mff["mods"], key=lambda m: m["name"])])


# ------------------------------------------------------------------------------------------------ cases

def make_case(rng, findings=(), **kw):
    findings = kw.pop("findings", findings)
    ff = gen.gen_ff(rng, findings=findings, **{k: v for k, v in kw.items() if k in ("protein", "multires", "syntax")})
    graph = gen.gen_graph(rng, ff, findings=findings,
                          **{k: v for k, v in kw.items() if k in ("nmin", "nmax", "shape", "start", "keys", "shuffle")})
    mods = gen.gen_mods(rng, ff, graph, findings=findings)
    files = gen.files_of(ff, rng)
    return dict(ff=ff, graph=graph, mods=mods, files=files)


def rebased_multires_cases(rng, count):
    """a multi-residue block whose OWN residue numbers do not start at 1 (a fragment cut out of a larger molecule,
    numbered k, k+1, …), used once, as the FIRST residues of a graph that asks for exactly these ids: every atom
    must be numbered by its residue id like anywhere else"""
    cases, tries = [], 0
    while len(cases) < count and tries < 200 * count:
        tries += 1
        ff = gen.gen_ff(rng, multires=True)
        mr = next((b for b in ff["blocks"] if b["name"] == "MR"), None)
        if mr is None:
            continue
        start = rng.choice([3, 7, 28])
        graph = gen.gen_graph(rng, ff, findings=("multires-first-resid-not-1",), start=start)
        nodes = sorted(graph["nodes"], key=lambda n: n[1])
        nres = len({a["resid"] for a in mr["atoms"]})
        if not nodes or not nodes[0][3] or sum(1 for n in nodes if n[3]) != nres:
            continue                                    # not first, or more than one copy
        for atom in mr["atoms"]:
            atom["resid"] += start - 1
        case = dict(ff=ff, graph=graph, mods=gen.gen_mods(rng, ff, graph), files=gen.files_of(ff, rng))
        if not features(case):
            cases.append(case)
    return cases


def small_cases(rng, thorough):
    """exhaustive small shapes: block-size vectors x tree/unicyclic graphs on <= 5 residues x offsets"""
    cases = []
    sizes = [1, 2, 3]
    shapes = ["linear", "branched", "cyclic"]
    count = 0
    for n in ((2, 3, 4, 5) if thorough else (2, 3)):
        for shape in shapes:
            if shape == "cyclic" and n < 3:
                continue
            for start in ((1, 7, 100) if thorough else (1, 7)):
                count += 1
                sub = random.Random("small %d %s %d %d" % (n, shape, start, rng.randint(0, 10 ** 6)))
                ff = gen.gen_ff(sub, multires=False)
                for b, size in zip(ff["blocks"], [sub.choice(sizes) for _ in ff["blocks"]]):
                    if size < len(b["atoms"]):
                        b["atoms"] = b["atoms"][:size]
                        b["ixns"] = [i for i in b["ixns"] if all(a < size for a in i["atoms"])]
                        b["dangling"] = [dict(d, atoms=[size - 1, size]) for d in b["dangling"]]
                # drop override links that refer to cut atoms
                ff["links"] = [l for l in ff["links"] if l["kind"] != "override"]
                for m in ff["mods"]:
                    if any(len(b["atoms"]) < 2 for b in ff["blocks"]):
                        m["atoms"] = [a for a in m["atoms"] if a[0] != "SC1"]
                        m["ixns"] = []
                graph = gen.gen_graph(sub, ff, nmin=n, nmax=n, shape=shape, start=start)
                cases.append(dict(ff=ff, graph=graph, mods=gen.gen_mods(sub, ff, graph), files=gen.files_of(ff, sub)))
    return cases


def case_replay(case):
    return dict(ff=case["ff"], graph=case["graph"], mods=case["mods"], files=[[e, c] for e, c in case["files"]])


def case_from_replay(data):
    return dict(ff=data["ff"], graph=data["graph"], mods=data["mods"], files=[(e, c) for e, c in data["files"]])


def requests_of(case, out):
    """driver requests for one executed case"""
    mff = real.model_ff(case["ff"])
    graph = real.model_graph(case["graph"])
    if out.get("adj") is not None:
        graph = dict(nodes=graph["nodes"], adj=out["adj"])
    mods = None
    if case["mods"]:
        mods = [[resid, name, resname] for resid, resname, name in real.parse_mods(case["mods"])]
    genexcl = generated_exclusions(out)
    applied_ops = [op for op in out.get("linkops") or [] if op["op"] != "leak"]
    run = dict(op="run", ff=mff, graph=graph, linkops=applied_ops, genexcl=genexcl, mods=mods)
    spec = dict(op="spec", ff=mff, nodes=graph["nodes"], obs=out.get("map"))
    # what every link application requires (read off the link definition) and what it wrote; whether it was
    # applicable is judged by the Lean specification (`LinkUse.applicable`), not taken from the program
    uses = [dict(u, inserts=[], attrs=[], removed=[]) for u in out.get("linkuses") or []]
    for op in applied_ops:
        use = uses[op["use"]]
        if op["op"] == "insert":
            use["inserts"].append(op["ixn"])
        elif op["op"] == "replace":
            use["attrs"] += [[op["node"], k, v] for k, v in op["attrs"]]
        else:
            use["removed"].append(op["node"])
    facts = out.get("facts") or dict(molmeta=[], resnames=[], edges=[])
    frame = dict(op="frame", ff=mff, nodes=graph["nodes"], obs=out.get("final") or dict(atoms=[], ixns=[]),
                 uses=uses, facts=facts, genexcl=genexcl, mods=mods)
    return [run, spec, frame]


def generated_exclusions(out):
    """what `expand_excl` appended (C14's subject): the tail of every section after the flush"""
    if out.get("links") is None or out.get("links_excl") is None:
        return []
    before, after = canon_ixns(out["links"]["ixns"]), canon_ixns(out["links_excl"]["ixns"])
    gen_ = []
    for sect, lst in after.items():
        head = before.get(sect, [])
        if lst[:len(head)] != head:
            raise common.DriverError("expand_excl changed existing interactions of section %s" % sect)
        gen_ += [[sect, atoms, params, meta] for atoms, params, meta in lst[len(head):]]
    return gen_


def execute(case, e2e=True):
    out = real.run_stages(case["files"], case["graph"], case["mods"])
    if e2e:
        out["e2e"] = real.run_gen_params(case["files"], case["graph"], case["mods"])
    return out


def judge(ctx, case, out, answers, tag="random"):
    run, spec, frame = answers
    replay = case_replay(case)
    feats = features(case)
    finding_case = bool(feats)
    if out["stage"] == "load":
        # the real parsers refused the generated files: a generator problem, not a verdict
        ctx.tally(parser_failed=out.get("err"))
        ctx.case(None, stream=tag, outcome="parser-failed")
        return
    # --- tie: what the parsers produced is what the generator meant (the model gets the latter)
    ctx.correspond("parse", canon_ff(out["parsed"]), canon_ff(real.model_ff(case["ff"])), replay)
    # --- correspondence: model of the code vs the code, stage by stage
    if True:
        # (the model mirrors the code on the known-finding shapes too; only atom removal is not modelled)
        model_map = run["map"]
        if out.get("map") is not None:
            if model_map["ok"]:
                ctx.correspond("map", canon_mol(out["map"]), canon_mol(model_map), replay)
                ctx.correspond("nrexcl", out["map"]["nrexcl"], model_map["nrexcl"], replay)
                ctx.correspond("graphs", {k: nodes for k, _, nodes in out["graphs"]},
                               {k: sorted(nodes) for k, nodes in model_map["graphs"]}, replay)
            else:
                ctx.correspond("map-accepts", "ok", "reject:" + model_map.get("err", ""), replay)
        else:
            ctx.correspond("map-accepts", "reject", "ok" if model_map["ok"] else "reject", replay)
        if out.get("links") is not None and model_map["ok"] and not any(o["op"] == "remove" for o in out["linkops"]):
            ctx.correspond("links", canon_mol(out["links_excl"]), canon_mol(run["links"]), replay)
            if out.get("final") is not None:
                if run["final"]["ok"]:
                    ctx.correspond("final", canon_mol(out["final"]), canon_mol(run["final"]), replay)
                else:
                    ctx.correspond("mods-accepts", "ok", "reject:" + run["final"].get("err", ""), replay)
            elif out["stage"] == "mods":
                ctx.correspond("mods-accepts", "reject", "ok" if run["final"]["ok"] else "reject", replay)
        elif out.get("links") is not None and model_map["ok"]:
            # a link removed atoms: the residues are renumbered (known finding, not modelled), but the write-back
            # of the interactions is modelled (`flush`) and compared
            ctx.correspond("links-interactions-after-removal", canon_ixns(out["links_excl"]["ixns"]),
                           canon_ixns(run["links"]["ixns"]), replay)
        ctx.traces += 1
    # --- oracle: the property itself on the implementation's output
    verdict = "ok"
    if expected_reject(case):
        verdict = "rejected-as-it-must"
        if out["ok"]:
            verdict = "accepts-invalid"
            ctx.oracle_fail("accepts-undefined-modification", "the program accepted a selection whose modification the "
                            "force field does not define (or whose atoms the residue does not have)", replay)
    elif not out["ok"]:
        verdict = "reject"
        ctx.oracle_fail(shape_of(case, "reject"),
                        "the program rejected a valid input at stage %s with %s (%s); features %s"
                        % (out["stage"], out.get("err"), out.get("errtext", "")[:120], feats), replay)
    else:
        if spec["diffs"]:
            verdict = "layout"
            ctx.oracle_fail(shape_of(case, "layout"),
                            "molecule after MapToMolecule is not the concatenation of re-indexed block copies: %s"
                            % "; ".join(spec["diffs"][:3]), replay)
        if frame["diffs"]:
            verdict = "frame"
            shape = shape_of(case, "frame", out)
            if shape == "atom-removed-by-link" and set(frame["cats"]) != {"resid"}:
                # the known finding is the 0-based renumbering only; anything else is a violation of its own
                shape = GENERIC["frame"]
            ctx.oracle_fail(shape,
                            "final molecule differs from the block copies where no link or modification "
                            "targets it: %s" % "; ".join(frame["diffs"][:3]), replay)
        e2e = out.get("e2e")
        if e2e is not None:
            if not e2e["ok"]:
                verdict = "e2e-reject"
                ctx.oracle_fail(shape_of(case, "reject"),
                                "gen_params rejected (%s %s) an input its own stages accept"
                                % (e2e.get("err"), e2e.get("errtext", "")[:120]), replay)
            else:
                parsed = real.read_itp(e2e["text"])
                want_atoms, want_sections = real.itp_expectation(out["final"], SECT_ARITY)
                got_atoms, got_sections = real.itp_observation(parsed, SECT_ARITY)
                want_nrexcl = out["final"]["nrexcl"]
                if got_atoms != want_atoms or got_sections != want_sections or parsed["nrexcl"] != want_nrexcl:
                    verdict = "itp"
                    what = _first_diff(got_atoms, want_atoms, got_sections, want_sections)
                    ctx.oracle_fail(shape_of(case, "itp"),
                                    "the .itp written by gen_params differs from the generated molecule: " + what, replay)
    graph = case["graph"]
    n = len(graph["nodes"])
    key = None
    if n >= 2:
        key = json.dumps([[e, c] for e, c in case["files"]] + [graph["nodes"], graph["edges"], case["mods"]], sort_keys=True)
    sample = dict(blocks=[(b["name"], len(b["atoms"]), len(b["ixns"]), b["syntax"]) for b in case["ff"]["blocks"]],
                  nodes=graph["nodes"][:6], mods=case["mods"], atoms=len(out["final"]["atoms"]) if out.get("final") else None,
                  verdict=verdict)
    ctx.case(key, sample=sample, stream=tag, shape=graph.get("shape"), start=graph.get("start"), keys=graph.get("keys"),
             shuffled=graph.get("shuffled"), n=("2" if n <= 2 else "3-5" if n <= 5 else "6-12"),
             multires_copies=graph.get("run_residues", 0) and "yes" or "no",
             mods=("default" if case["mods"] is None else "explicit"), has_mods=bool(case["ff"]["mods"]),
             syntaxes="+".join(sorted({b["syntax"] for b in case["ff"]["blocks"]})),
             nlinkops=("0" if not out.get("linkops") else "1+"), verdict=verdict,
             finding=(feats[0] if feats else "none"))


def _first_diff(got_atoms, want_atoms, got_sections, want_sections):
    for g, w in zip(got_atoms, want_atoms):
        if g != w:
            return "atoms row %s, molecule has %s" % (g, w)
    if len(got_atoms) != len(want_atoms):
        return "%d atom rows, molecule has %d atoms" % (len(got_atoms), len(want_atoms))
    for sect in sorted(set(got_sections) | set(want_sections)):
        if got_sections.get(sect) != want_sections.get(sect):
            return "section %s: file %s, molecule %s" % (sect, str(got_sections.get(sect))[:200], str(want_sections.get(sect))[:200])
    return "moleculetype line"


def run_batch(ctx, cases, tag, e2e=True):
    outs, reqs = [], []
    for case in cases:
        out = execute(case, e2e=e2e)
        outs.append(out)
        reqs += requests_of(case, out)
    answers = ctx.driver.ask(reqs)
    for idx, (case, out) in enumerate(zip(cases, outs)):
        trio = answers[3 * idx: 3 * idx + 3]
        for ans in trio:
            if not ans.get("ok"):
                raise common.DriverError("driver refused a request: %s" % ans)
        judge(ctx, case, out, trio, tag)


def corpus_cases():
    path = os.path.join(common.VERIF, "corpus", PID)
    out = []
    if os.path.isdir(path):
        for name in sorted(os.listdir(path)):
            data = json.load(open(os.path.join(path, name)))
            out.append(case_from_replay(data.get("input", data)))
    return out


def run(ctx):
    ctx.extra["rule"] = RULE
    ctx.extra["trusted"] = [
        "vermouth .ff/.itp readers, Block.to_molecule, Molecule.merge_molecule, write_molecule_itp (driven for real; "
        "merge_molecule / to_molecule are modelled in Model/MapToMol.lean and tied by the `map` correspondence)",
        "link MATCHING (networkx VF2, vermouth match_order) is not modelled here: the interaction keys and atom "
        "attributes each applied link writes are recorded from the real run (interposition on "
        "ApplyLinks.apply_link_between_residues) and fed to the model / the frame oracle",
        "expand_excl (C14): generated exclusions are passed through as a parameter",
        "networkx adjacency / edge order: the model's `graphEdges` reads the adjacency lists off the real MetaMolecule",
    ]
    ctx.assumptions += [
        "residue ids pairwise distinct and contiguous (the quantifier of C01); start >= 1",
        "block names unique in the force field; interaction atoms of a block lie inside the block",
        "known-finding input shapes are generated only when listed in known_findings.txt or VERIF_C01_FINDINGS: "
        + ", ".join(gen.FINDING_SHAPES),
    ]
    rng = ctx.rng
    findings = enabled_findings()
    ctx.extra["explanation"] = "finding streams enabled: %s" % (findings or "none")
    run_batch(ctx, corpus_cases(), "corpus")
    run_batch(ctx, small_cases(rng, ctx.thorough), "small")
    count = ctx.budget(700, 12000)
    cases = []
    for idx in range(count):
        kw = {}
        if idx % 5 == 0:
            kw = dict(protein=True)                      # protein-like resnames, modifications present
        if idx % 7 == 0:
            kw = dict(multires=True, keys="offset")      # copies of a multi-residue block, keys like 28..33
        cases.append(make_case(rng, **kw))
    for chunk in range(0, len(cases), 250):
        run_batch(ctx, cases[chunk:chunk + 250], "random")
    run_batch(ctx, rebased_multires_cases(rng, ctx.budget(30, 300)), "rebased-multires")
    # finding streams: one stream per enabled shape
    for shape in findings:
        sub = random.Random("finding %s %d" % (shape, ctx.seed))
        fcases = []
        tries = 0
        while len(fcases) < ctx.budget(45 if shape == "atom-removed-by-link" else 6, 90) and tries < 2000:
            tries += 1
            # (no modifications together with atom removal: they would be applied by the renumbered resids)
            case = make_case(sub, findings=(shape,), protein=False if shape == "atom-removed-by-link" else None,
                             multires=True if "fragment" in shape or "multires" in shape else None)
            if shape in features(case):
                fcases.append(case)
        run_batch(ctx, fcases, "finding:" + shape)


def replay(ctx, data):
    if data.get("kind") == "no-failing-input-found":
        print("replay names obligations that no longer check:")
        inputs = []
        for item in data.get("no_longer_checks", []):
            print("  ", item["name"], "-", item["detail"][:300])
            if item.get("input"):
                inputs.append(item["input"])
    else:
        inputs = [data.get("input") or data]
    run_batch(ctx, [case_from_replay(i) for i in inputs], "replay")
    for b in ctx.broken:
        print("REPLAY-DISAGREES", b["name"], b["detail"][:600])
