"""C19 — dsDNA completion adds the antiparallel Watson-Crick complement.

Implementation side: real `MetaMolecule` objects built by the real sequence parsers (.fasta, .ig linear
and circular, monomer lists, .json with node keys starting at 0/1/4/7), real `complement_dsDNA`.
Model side: `Dna.strandGraphFrom first`, `Dna.complement` (mirrors the code) and `Dna.specGraphFrom first`
(the property's own statement, evaluated with the Watson-Crick pairing written in the property, not with
the repository's table); `first` is the real key of the first residue — no key normalisation, the
implementation, the model and the specification are compared on the true node keys.
End-to-end stream: real `gen_params(name, outpath, lib=['parmbsc1'], seq=… | seq_file=…, dsdna=…)` into a
temporary directory, residues (resid, resname) read back from the written .itp; model `Dna.genParamsDsdna`
(complement after EITHER source), oracle = the Lean specification (2n residues: strand, then the
antiparallel Watson-Crick complement; n residues without `dsdna`).
"""
import os
import sys
import tempfile
import pathlib

import common

BASES = "ACGT"
RULE = ("EXHAUSTIVE (quick tier, tallied `exhaustive=`): every residue name of BASE_LIBRARY at every position class (single / first / middle / last, linear and ring), all 144 ordered pairs (2-strand, ends of a 3-strand, ends of a 3-ring), 11 names outside the library at every position class (refused), each completed twice (stage 2); then "
        "random DNA strands built by the real parsers (fasta / ig linear / ig circular / monomer list / json with node keys starting at 0, 1, 4, 7 and resids starting at 0, 1, 5, 11, 101, rings with and without a labelled closing edge; compared on the true keys and resids), "
        "length 1..12 quick, up to 200 thorough, random edge attribute dicts (shared keys, values of every scalar type incl. falsy ones, compared typed); the strand ADDED by each completion is completed again as it stands (stage 2); plus a malformed stream with "
        "one unknown residue name; a case is non-trivial when n >= 2; distinct = (kind, sequence, labels); "
        "plus an end-to-end stream: real gen_params(lib=parmbsc1, dsdna=True/False) with the strand given by "
        "-seq or by -seqf (fasta / ig linear / ig circular / json), 2-6 nt, the written .itp read back")


def canon_graph(graph):
    nodes = [[key, graph.nodes[key].get("resid"), graph.nodes[key].get("resname")] for key in graph.nodes]
    edges = sorted([min(u, v), max(u, v), sorted(typed_items(data))]
                   for u, v, data in graph.edges(data=True))
    return dict(nodes=nodes, edges=edges)


def typed_items(data):
    """items of an attribute dict as [key, repr(value)]: values are compared TYPED (0, False, "", None,
    0.0 and "0" are six different labels), in insertion order"""
    return [[str(k), repr(v)] for k, v in data.items()]


def canon_model(jgraph):
    nodes = [list(n) for n in jgraph["nodes"]]
    edges = sorted([min(u, v), max(u, v), sorted(list(kv) for kv in attrs)] for u, v, attrs in jgraph["edges"])
    return dict(nodes=nodes, edges=edges)


def adjacency(graph):
    return {key: list(graph.neighbors(key)) for key in graph.nodes}


def model_adjacency(jgraph):
    adj = {n[0]: [] for n in jgraph["nodes"]}
    for u, v, _ in jgraph["edges"]:
        adj.setdefault(u, []).append(v)
        if u != v:
            adj.setdefault(v, []).append(u)
    return adj


def build_strand(kind, letters, tmpdir):
    """Return the real MetaMolecule of a strand given as one-letter codes."""
    from polyply.src.meta_molecule import MetaMolecule, Monomer
    import vermouth.forcefield
    ff = vermouth.forcefield.ForceField(name="verif")
    if kind.startswith("names"):
        # exhaustive stream: residue NAMES (comma separated in `letters`) at arbitrary positions, so the graph is
        # built directly (the one-letter parsers can only put 5'/3' names at the ends): nodes 0..n-1, resid i+1,
        # edges (i, i+1) in order, then for "names-circular" the closing edge (0, n-1) labelled like parse_ig does
        import networkx as nx
        names = letters.split(",") if letters != "<single-empty>" else [""]
        graph = nx.Graph()
        for i, name in enumerate(names):
            graph.add_node(i, resname=name, resid=i + 1)
        for i in range(len(names) - 1):
            graph.add_edge(i, i + 1)
        if kind == "names-circular":
            graph.add_edge(0, len(names) - 1, linktype="circle")
        return MetaMolecule(graph, force_field=ff, mol_name="dna")
    if kind == "monomers":
        names = ["D" + c for c in letters]
        if len(names) >= 2:
            names[0] += "5"
            names[-1] += "3"
        return MetaMolecule.from_monomer_seq_linear(ff, [Monomer(resname=n, n_blocks=1) for n in names], "dna")
    path = write_seq_file(kind, letters, tmpdir)
    return MetaMolecule.from_sequence_file(ff, pathlib.Path(path), "dna")


def parse_json_kind(kind):
    """(first key, first resid, circular, bare) of "json[-circular][-bare]-<first>[-r<resid0>]" """
    parts = kind.split("-")[1:]
    first = int([p for p in parts if p.isdigit()][0])
    resid0 = [int(p[1:]) for p in parts if p.startswith("r") and p[1:].isdigit()]
    return first, (resid0[0] if resid0 else 1), "circular" in parts, "bare" in parts


def write_seq_file(kind, letters, tmpdir):
    """Write the strand (one-letter codes) as a sequence file of the given kind; returns the path."""
    if kind.startswith("json"):
        # a residue graph given as .json numbers its nodes from any integer (node keys are not residue
        # ids) and carries its own resids; kind = "json[-circular][-bare]-<first key>[-r<first resid>]",
        # "bare" = the ring closing edge has no attributes (API / json rings; .ig rings carry linktype)
        import json as _json
        first, resid0, circular, bare = parse_json_kind(kind)
        names = ["D" + c for c in letters]
        if len(names) >= 2 and not circular:
            names[0] += "5"
            names[-1] += "3"
        ids = list(range(first, first + len(names)))
        nodes = [{"id": idx, "resname": name, "resid": resid0 + num} for num, (idx, name) in enumerate(zip(ids, names))]
        edges = [{"source": a, "target": b} for a, b in zip(ids[:-1], ids[1:])]
        if circular:
            closing = {"source": ids[0], "target": ids[-1]}
            if not bare:
                closing["linktype"] = "circle"
            edges.append(closing)
        # record order: the node records of a .json file need not come in ascending id order ("desc": descending,
        # "shuf": a fixed permutation) - every record carries its resid, the reader has to bring them into order
        # (the EDGE records stay in chain order: the adjacency order of the graph is the order of edge insertion)
        if "desc" in kind.split("-"):
            nodes = nodes[::-1]
        elif "shuf" in kind.split("-"):
            import random as _random
            _random.Random(letters + kind).shuffle(nodes)
        data = {"directed": False, "multigraph": False, "graph": {}, "nodes": nodes, "edges": edges, "links": edges}
        path = os.path.join(tmpdir, "s.json")
        with open(path, "w") as handle:
            _json.dump(data, handle)
        return path
    if kind == "fasta":
        path = os.path.join(tmpdir, "s.fasta")
        with open(path, "w") as handle:
            handle.write(">DNA test\n")
            for i in range(0, len(letters), 7):
                handle.write(letters[i:i + 7] + "\n")
    else:
        path = os.path.join(tmpdir, "s.ig")
        with open(path, "w") as handle:
            handle.write("; DNA test\ntitle\n")
            body = letters + ("2" if kind == "ig-circular" else "1")
            for i in range(0, len(body), 9):
                handle.write(body[i:i + 9] + "\n")
    return path


def strand_request(meta):
    """(names, labels, circ) of a strand-shaped residue graph, read off the real object"""
    keys = list(meta.nodes)
    n = len(keys)
    names = [meta.nodes[k]["resname"] for k in keys]
    labels = []
    for i in range(n - 1):
        a, b = keys[i], keys[i + 1]
        data = meta.edges[(a, b)] if meta.has_edge(a, b) else {}
        labels.append(typed_items(data))
    circ = None
    if n >= 3 and meta.has_edge(keys[0], keys[-1]):
        circ = typed_items(meta.edges[(keys[0], keys[-1])])
    return names, labels, circ


LABEL_KEYS = ["tag", "w", "linktype", "idx"]
LABEL_VALUES = [0, 1, False, True, "", "x", None, 0.0, 2.5, "0", "t1", "circle"]


def random_labels(rng, meta):
    """random edge labels: a small key pool (so that the same key sits on several edges, `linktype`
    included, which the ring parsers already set on the closing edge) and values of every JSON scalar
    type, falsy ones included (0, False, "", None, 0.0)"""
    for u, v in list(meta.edges):
        roll = rng.random()
        if roll < 0.5:
            for _ in range(rng.choice([1, 1, 2, 3])):
                meta.edges[(u, v)][rng.choice(LABEL_KEYS)] = rng.choice(LABEL_VALUES)


def one_case(ctx, kind, letters, label_seed, unknown_at=None):
    """Builds the strand with the real parser; see `meta_case`."""
    import random
    rng = random.Random(label_seed)
    if kind.startswith("names") or kind == "monomers":
        meta = build_strand(kind, letters, None)       # built in memory, no file
    else:
        with tempfile.TemporaryDirectory() as tmpdir:
            meta = build_strand(kind, letters, tmpdir)
    if not kind.startswith("names"):
        random_labels(rng, meta)
    if unknown_at is not None:
        key = list(meta.nodes)[unknown_at]
        meta.nodes[key]["resname"] = "XY" + meta.nodes[key]["resname"]
    replay = dict(kind=kind, letters=letters, label_seed=label_seed, unknown_at=unknown_at)
    return meta_case(ctx, meta, replay)


def meta_case(ctx, meta, replay, stage=1):
    """Runs the implementation on a strand-shaped MetaMolecule; returns the requests for the model."""
    from polyply.src.gen_dna import complement_dsDNA
    names, labels, circ = strand_request(meta)
    # the REAL node keys and resids go to the model and the specification (`first` = key, `resid0` =
    # resid of the first residue; theorems C19_complement_offset / C19_reject_offset cover all of them)
    keys = list(meta.nodes)
    first = int(keys[0]) if keys else 0
    resid0 = int(meta.nodes[keys[0]]["resid"]) if keys else 1
    before = canon_graph(meta)
    adj_before = adjacency(meta)
    max_resid = meta.max_resid
    out = None
    try:
        out = complement_dsDNA(meta)
        impl = dict(ok=True, graph=canon_graph(out))
    except Exception as err:  # pylint: disable=broad-except
        impl = dict(ok=False, err=type(err).__name__)
    reqs = [dict(op="strand", names=names, labels=labels, circ=circ, first=first, resid0=resid0),
            dict(op="spec", names=names, labels=labels, circ=circ, first=first, resid0=resid0)]
    return dict(replay=replay, names=names, labels=labels, circ=circ, before=before, adj=adj_before,
                max_resid=max_resid, impl=impl, reqs=reqs, out=out, stage=stage)


def second_strand_meta(out, n):
    """The strand the implementation ADDED, as it stands in the output (real keys, real resids, real edge
    attributes, ring closure included), as a MetaMolecule of its own."""
    import networkx as nx
    from polyply.src.meta_molecule import MetaMolecule
    import vermouth.forcefield
    keys = list(out.nodes)[n:]
    graph = nx.Graph()
    for key in keys:
        graph.add_node(key, resid=out.nodes[key]["resid"], resname=out.nodes[key]["resname"])
    for u in keys:
        for v in out.adj[u]:
            if v in graph.nodes and not graph.has_edge(u, v):
                graph.add_edge(u, v, **dict(out.edges[(u, v)]))
    return MetaMolecule(graph, force_field=vermouth.forcefield.ForceField(name="verif"), mol_name="dna")


def judge(ctx, case, answers, second=None):
    """answers: [strand, spec, complement]"""
    strand, spec, comp = answers
    replay = case["replay"]
    n = len(case["names"])
    # tie of strandGraph to the real parsers' output (nodes, edges, adjacency order)
    ctx.correspond("strandGraph", case["before"], canon_model(strand["graph"]), replay)
    ctx.correspond("strandGraph-max_resid", case["max_resid"], strand["graph"]["max_resid"], replay)
    if set(str(replay.get("kind", "")).split("-")) & {"desc", "shuf"} and case.get("stage", 1) == 1:
        # node records out of order: parse_json copies the edges in the iteration order of the graph as read, so the
        # ADJACENCY order of the strand differs from the chain order the model's strand graph assumes; nodes, edges,
        # the completion and the specification are compared as for every other input
        ctx.tally(adjacency_tie_skipped_for_unordered_json=True)
    else:
        ctx.correspond("strandGraph-adjacency", {str(k): v for k, v in case["adj"].items()},
                       {str(k): v for k, v in model_adjacency(strand["graph"]).items()}, replay)
    # model of the code vs the code
    impl = case["impl"]
    model = dict(ok=True, graph=canon_model(comp["graph"])) if comp["ok"] else dict(ok=False)
    ctx.correspond("complement_dsDNA", dict(ok=impl["ok"], graph=impl.get("graph")),
                   dict(ok=model["ok"], graph=model.get("graph")), replay)
    # the property itself, evaluated on the implementation's output
    if spec["ok"]:
        want = canon_model(spec["graph"])
        if not impl["ok"]:
            ctx.oracle_fail("rejects-valid-strand", "complement_dsDNA raised %s on a valid strand %s"
                            % (impl["err"], replay), replay)
        elif impl["graph"] != want:
            ctx.oracle_fail("wrong-complement", "%scomplement differs from strand ++ antiparallel Watson-Crick "
                            "complement: got %s want %s"
                            % ("(stage 2: the strand added for %s, completed again) " % (replay,)
                               if case.get("stage", 1) == 2 else "", impl["graph"], want), replay)
    else:
        if impl["ok"]:
            ctx.oracle_fail("accepts-unknown-resname", "complement_dsDNA accepted a strand with an unknown "
                            "residue name: %s" % (replay,), replay)
    stage = case.get("stage", 1)
    if stage == 2:
        # "complementing the added strand again recovers the original sequence"
        third = [node[2] for node in impl["graph"]["nodes"][n:]] if impl["ok"] else "raised " + impl["err"]
        if third != case["original"]:
            ctx.oracle_fail("not-involutive", "complementing the added strand of %s (as it stands in the output: "
                            "names %s, first key %s, first resid %s, circular %s) gives %s, not the original %s"
                            % (replay, case["names"], case["before"]["nodes"][0][0], case["before"]["nodes"][0][1],
                               case["circ"] is not None, third, case["original"]), replay)
        ctx.tally(involution_checked=True)
    key = (replay["kind"], replay["letters"], replay["label_seed"], replay["unknown_at"], stage) if n >= 2 else None
    ctx.case(key, sample=dict(input=replay, stage=stage, names=case["names"][:8],
                              result=impl if n <= 4 else "(%d residues)" % (2 * n)),
             kind=replay["kind"] if stage == 1 else "second-strand", n=("1" if n == 1 else "2" if n == 2 else "3-12" if n <= 12 else ">12"),
             valid=spec["ok"])


NON_LIBRARY = ["DU", "A", "DA53", "da", "<single-empty>", "DA ", "DT35", "DA5'", "T", "dT", "DN"]


def gen_exhaustive_cases(ctx):
    """every residue name of BASE_LIBRARY (as the live module has it) at every position class (single / first /
    middle / last of a linear strand, first / middle / last of a ring), all ordered pairs (as a 2-strand, and as
    the two ends of a 3-strand / 3-ring), and names outside the library at every position class (must be refused);
    deterministic (label seed 0)"""
    from polyply.src.gen_dna import BASE_LIBRARY
    lib = list(BASE_LIBRARY)
    fill = "DG" if "DG" in BASE_LIBRARY else lib[0]
    cases = []

    def put(kind, names, tag):
        letters = ",".join(names) if names != [""] else "<single-empty>"
        cases.append((kind, letters, 0, None, tag))
    for name in lib:
        put("names-linear", [name], "name-x-position")
        for pos in range(3):
            names = [fill] * 3
            names[pos] = name
            put("names-linear", names, "name-x-position")
            put("names-circular", names, "name-x-position")
    for a in lib:
        for b in lib:
            put("names-linear", [a, b], "ordered-pairs")
            put("names-linear", [a, fill, b], "ordered-pairs")
            put("names-circular", [a, fill, b], "ordered-pairs")
    for bad in NON_LIBRARY:
        name = "" if bad == "<single-empty>" else bad
        put("names-linear", [name], "non-library-name")
        for pos in range(3):
            names = [fill] * 3
            names[pos] = name
            if "," in name:
                continue
            put("names-linear", names, "non-library-name")
            put("names-circular", names, "non-library-name")
    return cases


def gen_cases(ctx):
    rng = ctx.rng
    kinds = ["fasta", "ig-linear", "ig-circular", "monomers", "json-0", "json-1", "json-7", "json-circular-1",
             "json-circular-4", "json-circular-bare-0", "json-circular-bare-4-r11", "json-7-r5", "json-1-r0",
             "json-circular-1-r101", "json-desc-0", "json-desc-7-r3", "json-shuf-1", "json-shuf-4-r5",
             "json-circular-desc-1", "json-circular-shuf-4"]
    cases = []
    # exhaustive small shapes first
    for kind in kinds:
        for n in (1, 2, 3, 4):
            if "circular" in kind and n < 3:
                continue
            cases.append((kind, "".join(rng.choice(BASES) for _ in range(n)), rng.randint(0, 10 ** 6), None))
    count = ctx.budget(60, 600)
    maxlen = ctx.budget(12, 200)
    for _ in range(count):
        kind = rng.choice(kinds)
        n = rng.choice([rng.randint(3, 12), rng.randint(3, maxlen)]) if rng.random() < 0.8 else rng.randint(1, 3)
        if "circular" in kind and n < 3:
            n = 3
        letters = "".join(rng.choice(BASES) for _ in range(n))
        unknown = rng.randrange(n) if rng.random() < 0.15 else None
        cases.append((kind, letters, rng.randint(0, 10 ** 6), unknown))
    return cases


# ---------------------------------------------------------------------------------------------------
# end-to-end stream: the real `gen_params(..., dsdna=True|False)` with the strand given by `-seq` or by
# `-seqf`, the written .itp read back (property anchor gen_itp.py: "completing a strand of n nucleotides
# yields 2n residues")

E2E_SOURCES = ["seq", "fasta", "ig-linear", "ig-circular", "json-0", "json-1", "json-7", "json-circular-4",
               "json-circular-bare-1", "json-4-r5", "json-desc-1", "json-shuf-0", "json-circular-shuf-4"]


def read_itp_residues(path):
    """[[resid, resname], ...] of the [ atoms ] section, in order of first appearance"""
    section, out = None, []
    with open(path) as handle:
        for line in handle:
            line = line.split(";")[0].strip()
            if not line:
                continue
            if line.startswith("["):
                section = line.strip("[] \t")
                continue
            if section == "atoms":
                fields = line.split()
                res = [int(fields[2]), fields[3]]
                if not out or out[-1] != res:
                    out.append(res)
    return out


def seq_strings(names):
    """`-seq` arguments "resname:count" (equal neighbours are grouped, as a user would write them)"""
    out = []
    for name in names:
        if out and out[-1][0] == name:
            out[-1][1] += 1
        else:
            out.append([name, 1])
    return ["%s:%d" % (a, b) for a, b in out]


def e2e_case(ctx, source, letters, dsdna):
    from polyply.src.gen_itp import gen_params
    kind = "monomers" if source == "seq" else source
    with tempfile.TemporaryDirectory() as tmpdir:
        # what the sequence parsers make of this input (names, labels, first key), read off the real object
        meta = build_strand(kind, letters, tmpdir)
        names, labels, circ = strand_request(meta)
        first = int(list(meta.nodes)[0]) if len(meta.nodes) else 0
        resid0 = int(meta.nodes[list(meta.nodes)[0]]["resid"]) if len(meta.nodes) else 1
        out = pathlib.Path(tmpdir) / "out.itp"
        kwargs = dict(name="dna", outpath=out, inpath=[], lib=["parmbsc1"], dsdna=dsdna)
        if source == "seq":
            kwargs.update(seq=seq_strings(names), seq_file=None)
        else:
            kwargs.update(seq=None, seq_file=pathlib.Path(write_seq_file(kind, letters, tmpdir)))
        try:
            gen_params(**kwargs)
            impl = dict(ok=True, residues=read_itp_residues(out))
        except Exception as err:  # pylint: disable=broad-except
            impl = dict(ok=False, err=type(err).__name__)
    replay = dict(stream="e2e", source=source, letters=letters, dsdna=dsdna)
    reqs = [dict(op="genparams", source=("seq" if source == "seq" else "seq_file"), dsdna=dsdna,
                 names=names, labels=labels, circ=circ, first=first, resid0=resid0),
            dict(op="spec", names=names, labels=labels, circ=circ, first=first, resid0=resid0)]
    return dict(replay=replay, names=names, impl=impl, reqs=reqs, dsdna=dsdna, resid0=resid0)


def e2e_judge(ctx, case, model, spec):
    replay, impl, names = case["replay"], case["impl"], case["names"]
    n = len(names)
    model_obs = dict(ok=True, residues=[list(r) for r in model["residues"]]) if model["ok"] else dict(ok=False)
    ctx.correspond("gen_params-dsdna", dict(ok=impl["ok"], residues=impl.get("residues")),
                   dict(ok=model_obs["ok"], residues=model_obs.get("residues")), replay)
    if not spec["ok"] and case["dsdna"]:
        # "unknown residue names are rejected" - also when the completion is requested through gen_params
        if impl["ok"]:
            ctx.oracle_fail("gen-params-accepts-unknown-resname", "gen_params(dsdna=True) (%s) on the strand %s, which holds a "
                            "residue name outside the base-pair table, returned normally and wrote %d residues %s"
                            % (replay.get("entry", "function"), names, len(impl["residues"]), impl["residues"]), replay)
    elif spec["ok"] or not case["dsdna"]:
        if case["dsdna"]:
            want = [[node[1], node[2]] for node in spec["graph"]["nodes"]]   # 2n residues
        else:
            want = [[case["resid0"] + i, nm] for i, nm in enumerate(names)]
        if not impl["ok"]:
            ctx.oracle_fail("gen-params-rejects-valid-strand", "gen_params(dsdna=%s) raised %s on %s"
                            % (case["dsdna"], impl["err"], replay), replay)
        elif impl["residues"] != want:
            shape = "gen-params-dsdna-not-2n" if case["dsdna"] and len(impl["residues"]) != 2 * n else \
                "gen-params-wrong-residues"
            ctx.oracle_fail(shape, "gen_params(dsdna=%s) on a strand of %d residues %s wrote %d residues %s, "
                            "want %s" % (case["dsdna"], n, names, len(impl["residues"]), impl["residues"], want),
                            replay)
    ctx.case(("e2e", replay["source"], replay["letters"], replay["dsdna"], replay.get("entry"), replay.get("history")),
             sample=dict(input=replay, names=names, result=impl),
             kind="gen_params/" + ("seq" if replay["source"] == "seq" else "seq_file"),
             e2e_entry=replay.get("entry", "function"), e2e_history=replay.get("history"),
             e2e_names=replay.get("composition", "dna-letters"),
             n=("1" if n == 1 else "2" if n == 2 else "3-12"), valid=spec["ok"])


# residue NAMES through gen_params: known nucleotides, names outside the base-pair table (other polymers, RNA), mixes.
# Both entry points (the function and the command `polyply gen_params`), both sequence sources, with and without the
# flag, and with a history (a failed call before, the same output file written before).
E2E_LIBS = ["parmbsc1", "martini3"]
OTHER_NAMES = ["PEO", "PS", "P3HT"]


def names_file(names, tmpdir, fname="names.txt"):
    path = os.path.join(tmpdir, fname)
    with open(path, "w") as handle:
        for i in range(0, len(names), 4):
            handle.write(" ".join(names[i:i + 4]) + "\n")
    return path


def e2e_names_case(ctx, source, names, dsdna, entry="function", history=None, composition="?"):
    """source 'seq' | 'txt'; entry 'function' | 'cli'; history None | 'after-failed-call' | 'same-outfile-again'"""
    from polyply.src.gen_itp import gen_params
    from polyply.src.meta_molecule import MetaMolecule
    import vermouth.forcefield
    import subprocess
    with tempfile.TemporaryDirectory() as tmpdir:
        out = pathlib.Path(tmpdir) / "out.itp"
        seq_path = names_file(names, tmpdir) if source == "txt" else None

        def call(call_names, call_dsdna, call_path):
            kwargs = dict(name="dna", outpath=out, inpath=[], lib=list(E2E_LIBS), dsdna=call_dsdna)
            if source == "seq":
                kwargs.update(seq=seq_strings(call_names), seq_file=None)
            else:
                kwargs.update(seq=None, seq_file=pathlib.Path(call_path))
            gen_params(**kwargs)
        if history == "after-failed-call":
            try:                                   # a call that must fail: every name unknown, completion requested
                call(["PEO", "PEO"], True, names_file(["PEO", "PEO"], tmpdir, "failed.txt"))
            except Exception:  # pylint: disable=broad-except
                pass
        elif history == "same-outfile-again":
            try:                                   # the same output name was written by an earlier, different call
                call(["DG5", "DC", "DA3"], False, names_file(["DG5", "DC", "DA3"], tmpdir, "earlier.txt"))
            except Exception:  # pylint: disable=broad-except
                pass
        try:
            if entry == "cli":
                # the command as a user types it, from a working directory that holds decoys with the names of the
                # libraries and of the output
                cwd = os.path.join(tmpdir, "cwd")
                os.makedirs(os.path.join(cwd, "parmbsc1"))
                with open(os.path.join(cwd, "dna.itp"), "w") as handle:
                    handle.write("; decoy\n")
                cmd = [sys.executable, os.path.join(common.REPO, "bin", "polyply"), "gen_params", "-name", "dna", "-lib"] + \
                    E2E_LIBS + ["-o", str(out)]
                cmd += ["-seq"] + seq_strings(names) if source == "seq" else ["-seqf", seq_path]
                if dsdna:
                    cmd.append("-dsdna")
                proc = subprocess.run(cmd, cwd=cwd, stdout=subprocess.PIPE, stderr=subprocess.STDOUT, text=True, timeout=300,
                                      env=dict(os.environ, PYTHONPATH=common.REPO))
                if proc.returncode != 0 or not out.exists():
                    raise RuntimeError("polyply gen_params exited %s" % proc.returncode)
            else:
                call(names, dsdna, seq_path)
            impl = dict(ok=True, residues=read_itp_residues(out))
        except Exception as err:  # pylint: disable=broad-except
            impl = dict(ok=False, err=type(err).__name__ if entry != "cli" else "exit")
    replay = dict(stream="e2e", source="seq" if source == "seq" else "names-txt", letters=",".join(names), dsdna=dsdna,
                  entry=entry, history=history, composition=composition)
    labels = [[] for _ in range(max(len(names) - 1, 0))]
    reqs = [dict(op="genparams", source=("seq" if source == "seq" else "seq_file"), dsdna=dsdna,
                 names=names, labels=labels, circ=None, first=0, resid0=1),
            dict(op="spec", names=names, labels=labels, circ=None, first=0, resid0=1)]
    return dict(replay=replay, names=names, impl=impl, reqs=reqs, dsdna=dsdna, resid0=1)


def gen_e2e_names_cases(ctx):
    rng = ctx.rng
    from polyply.src.gen_dna import BASE_LIBRARY
    inner = [k for k in BASE_LIBRARY if len(k) == 2]

    def dna(n):
        names = [rng.choice(inner) for _ in range(n)]
        if n >= 2:
            names[0] += "5"
            names[-1] += "3"
        return names
    specs = []
    for source in ("seq", "txt"):
        for dsdna in (True, False):
            n = rng.randint(2, 5)
            block = [rng.choice(OTHER_NAMES)] * rng.randint(1, 3)
            specs.append((source, block + [rng.choice(OTHER_NAMES)] * rng.randint(0, 2), dsdna, "all-unknown"))
            if dsdna:       # (without the flag a mix of force-field families is a matter of the libraries, not of C19)
                mixed = dna(n)
                mixed[rng.randrange(n)] = rng.choice(OTHER_NAMES + ["A", "U", "DA53"])
                specs.append((source, mixed, dsdna, "mixed"))
            specs.append((source, dna(n), dsdna, "known"))
    specs.append(("seq", ["PEO"], True, "all-unknown"))                     # a single unknown residue
    specs.append(("txt", ["A", "C", "G", "U"], True, "all-unknown"))        # an RNA strand
    out = [(src, names, dsdna, "function", None, comp) for src, names, dsdna, comp in specs]
    # history: the judged call comes after a failed one / writes an output name used before
    out.append(("seq", dna(3), True, "function", "after-failed-call", "known"))
    out.append(("txt", ["PS", "PEO"], True, "function", "after-failed-call", "all-unknown"))
    out.append(("txt", dna(4), True, "function", "same-outfile-again", "known"))
    out.append(("seq", ["PEO", "PEO"], True, "function", "same-outfile-again", "all-unknown"))
    # the command-level entry point
    out.append(("seq", ["PEO"] * 3, True, "cli", None, "all-unknown"))
    out.append(("txt", dna(3), True, "cli", None, "known"))
    if ctx.thorough:
        out.append(("txt", ["PS", "PS", "PEO"], True, "cli", None, "all-unknown"))
        out.append(("seq", dna(2)[:1] + ["PEO"], True, "cli", None, "mixed"))
        out.append(("seq", dna(4), False, "cli", None, "known"))
    rng.shuffle(out)
    return out


def gen_e2e_cases(ctx):
    rng = ctx.rng
    cases = []

    def letters_for(source):
        n = rng.randint(3, 6) if "circular" in source else rng.randint(2, 6)
        return "".join(rng.choice(BASES) for _ in range(n))
    for source in E2E_SOURCES:                      # every source with the flag ...
        cases.append((source, letters_for(source), True))
    for source in ("seq", rng.choice(E2E_SOURCES[1:])):   # ... and the control without it
        cases.append((source, letters_for(source), False))
    for _ in range(ctx.budget(6, 60)):
        source = rng.choice(E2E_SOURCES + ["seq", "seq"])
        cases.append((source, letters_for(source), rng.random() < 0.8))
    return cases


def run_e2e(ctx, specs):
    cases = []
    for spec in specs:
        try:
            if len(spec) == 3:
                cases.append(e2e_case(ctx, *spec))
            else:
                cases.append(e2e_names_case(ctx, *spec))
        except Exception as err:  # pylint: disable=broad-except
            ctx.tally(e2e_setup_failed=type(err).__name__)
    reqs = []
    for case in cases:
        reqs += case["reqs"]
    answers = ctx.driver.ask(reqs) if reqs else []
    for i, case in enumerate(cases):
        e2e_judge(ctx, case, answers[2 * i], answers[2 * i + 1])


def corpus_cases():
    path = os.path.join(common.VERIF, "corpus", "C19")
    out = []
    if os.path.isdir(path):
        import json
        for name in sorted(os.listdir(path)):
            data = json.load(open(os.path.join(path, name)))
            inp = data.get("input", data)
            if inp.get("stream") == "e2e":
                continue
            out.append((inp["kind"], inp["letters"], inp["label_seed"], inp.get("unknown_at")))
    return out


def corpus_e2e_cases():
    path = os.path.join(common.VERIF, "corpus", "C19")
    out = []
    if os.path.isdir(path):
        import json
        for name in sorted(os.listdir(path)):
            data = json.load(open(os.path.join(path, name)))
            inp = data.get("input", data)
            if inp.get("stream") == "e2e":
                out.append((inp["source"], inp["letters"], inp["dsdna"]))
    return out


def ask_and_judge(ctx, cases):
    reqs = []
    for case in cases:
        reqs += case["reqs"]
    answers = ctx.driver.ask(reqs) if reqs else []
    # second round: model complement on the model's own strand graph
    comp_reqs = [dict(op="complement", graph=dict(nodes=answers[2 * i]["graph"]["nodes"],
                                                  edges=answers[2 * i]["graph"]["edges"],
                                                  max_resid=case["max_resid"]))
                 for i, case in enumerate(cases)]
    comp_answers = ctx.driver.ask(comp_reqs) if comp_reqs else []
    for i, case in enumerate(cases):
        case["model_comp"] = comp_answers[i]
        judge(ctx, case, [answers[2 * i], answers[2 * i + 1], comp_answers[i]])


def run_cases(ctx, specs):
    cases = []
    for spec in specs:
        kind, letters, label_seed, unknown = spec[:4]
        try:
            cases.append(one_case(ctx, kind, letters, label_seed, unknown))
            if len(spec) > 4:
                cases[-1]["exhaustive"] = spec[4]
                ctx.tally(exhaustive=spec[4])
        except Exception as err:  # pylint: disable=broad-except
            # the real parser refused / crashed on a valid sequence: not C19's business unless it is the
            # completion itself; record and continue
            ctx.tally(parser_failed=type(err).__name__)
    ask_and_judge(ctx, cases)
    # stage 2: the strand the implementation added, exactly as it stands in the output (real keys, resids
    # n+1.., labels, ring closure), is itself a strand: complete it again — same correspondence, same
    # specification, and its added strand must carry the original names
    second = []
    for case in cases:
        n = len(case["names"])
        if case["impl"]["ok"] and case["out"] is not None and len(case["out"].nodes) == 2 * n:
            try:
                meta2 = second_strand_meta(case["out"], n)
                case2 = meta_case(ctx, meta2, dict(case["replay"]), stage=2)
                case2["original"] = case["names"]
                second.append(case2)
            except Exception as err:  # pylint: disable=broad-except
                ctx.oracle_fail("not-involutive", "the added strand of %s cannot be completed again: %s %s"
                                % (case["replay"], type(err).__name__, err), case["replay"])
    ask_and_judge(ctx, second)
    same_object_stage(ctx, cases)


def same_object_stage(ctx, cases):
    """stage 3 (history on ONE object): `complement_dsDNA` is called a SECOND time on the very MetaMolecule the first
    call returned — "complementing the added strand again recovers the original sequence".  Correspondence: the
    model's `complement` applied to the model's own first result.  Oracle (the statement, on the implementation's
    output): n further residues; the 2n residues present before and the edges among them are unchanged; the new
    strand is separate; read in resid order it carries the ORIGINAL names (Lean: `C19_involutive`)."""
    from polyply.src.gen_dna import complement_dsDNA
    todo = []
    for case in cases:
        n = len(case["names"])
        out, model = case.get("out"), case.get("model_comp")
        if not (case["impl"]["ok"] and out is not None and len(out.nodes) == 2 * n and model and model["ok"]):
            continue
        before = canon_graph(out)
        try:
            again = complement_dsDNA(out)
            impl = dict(ok=True, graph=canon_graph(again))
        except Exception as err:  # pylint: disable=broad-except
            impl = dict(ok=False, err=type(err).__name__)
        todo.append((case, before, impl, dict(op="complement", graph=model["graph"])))
    answers = ctx.driver.ask([t[3] for t in todo]) if todo else []
    for (case, before, impl, _), ans in zip(todo, answers):
        replay = dict(case["replay"], same_object_second_call=True)
        n = len(case["names"])
        want = dict(ok=True, graph=canon_model(ans["graph"])) if ans["ok"] else dict(ok=False)
        ctx.correspond("complement_dsDNA-second-call-same-object", dict(ok=impl["ok"], graph=impl.get("graph")), want, replay)
        if not impl["ok"]:
            ctx.oracle_fail("not-involutive", "the second complement_dsDNA call on the completed molecule of %s raised %s"
                            % (case["replay"], impl["err"]), replay)
        else:
            graph = impl["graph"]
            old_keys = set(node[0] for node in before["nodes"])
            third = [node[2] for node in sorted(graph["nodes"][2 * n:], key=lambda node: node[1])]
            kept = graph["nodes"][:2 * n] == before["nodes"] and \
                [e for e in graph["edges"] if e[0] in old_keys and e[1] in old_keys] == before["edges"]
            crossing = [e for e in graph["edges"] if (e[0] in old_keys) != (e[1] in old_keys)]
            if third != case["names"] or not kept or crossing:
                ctx.oracle_fail("not-involutive", "complementing the added strand again (second complement_dsDNA call on "
                                "the same molecule, input %s, names %s): the residues added are %s, the original sequence "
                                "is %s; the 2n residues present before are %s; edges between old and new residues: %s"
                                % (case["replay"], case["names"], third, case["names"],
                                   "unchanged" if kept else "CHANGED", crossing), replay)
        ctx.tally(involution_same_object_checked=True)
        ctx.case((case["replay"]["kind"], case["replay"]["letters"], case["replay"]["label_seed"], "same-object") if n >= 2 else None,
                 kind="second-call-same-object", n=("1" if n == 1 else "2" if n == 2 else "3-12" if n <= 12 else ">12"))


def run(ctx):
    ctx.extra["rule"] = RULE
    ctx.extra["trusted"] = ["networkx Graph adjacency order (modelled as edge insertion order)",
                            "translator harness/tables/dna.py (resid step and node attributes of gen_dna.py; theorems "
                            "C19_anchor_iterator, C19_table_closed depend on Generated/DnaTables.lean / Tables.lean)"]
    ctx.assumptions.append("circular strands have n >= 3 (a 2-ring is the same edge twice)")
    ctx.extra["trusted"].append("gen_params after the residue graph is built (MapToMolecule, links, itp "
                                "writer) keeps residue order, resids and resnames: observed through the written "
                                ".itp, modelled only up to the input of MapToMolecule")
    run_cases(ctx, corpus_cases() + gen_cases(ctx) + gen_exhaustive_cases(ctx))
    run_e2e(ctx, corpus_e2e_cases() + gen_e2e_cases(ctx) + gen_e2e_names_cases(ctx))


def replay(ctx, data):
    inp = data.get("input") or {}
    if data.get("kind") == "no-failing-input-found":
        print("replay names obligations that no longer check:")
        for item in data.get("no_longer_checks", []):
            print("  ", item["name"], "-", item["detail"][:300])
        inputs = [i["input"] for i in data.get("no_longer_checks", []) if i.get("input")]
    else:
        inputs = [inp]
    specs = [(i["kind"], i["letters"], i["label_seed"], i.get("unknown_at")) for i in inputs
             if i.get("stream") != "e2e"]
    e2e_specs = [(i["source"], i["letters"], i["dsdna"]) if "entry" not in i else
                 ("seq" if i["source"] == "seq" else "txt", i["letters"].split(","), i["dsdna"], i["entry"], i.get("history"),
                  i.get("composition", "?"))
                 for i in inputs if i.get("stream") == "e2e"]
    run_cases(ctx, specs)
    run_e2e(ctx, e2e_specs)
    for b in ctx.broken:
        print("REPLAY-DISAGREES", b["name"], b["detail"][:400])
