"""C11 — Generated .itp files are written and re-read to the same molecule.

Statement (properties.jsonl, fixed): "gen_params writes its output file for every input that passes
mapping and link application, and that file, read back by polyply's own topology reader, yields the
same atoms (name, type, residue, charge, mass) and the same interactions with parameters and
#ifdef/#ifndef guards as the molecule that was built. When no link is missing, the residue graph
recovered from the file is isomorphic to the requested one with equal residue names and ids, so
gen_coords can consume what gen_params produced."

Implementation side (harness/c11_real.py): the REAL composition
`gen_params(name, outpath, inpath | lib, seq | seq_file)` into a temporary directory, then
`Topology.from_gmx_topfile` on a minimal .top that `#include`s the written file (`top`), on ONE .top
whose text is the written itp followed by `[ system ]` / `[ molecules ]` (`flat`, the flattened form)
and `MetaMolecule.from_itp` on the file (`itp`); the molecule right before writing is captured by interposing
`vermouth.gmx.itp.write_molecule_itp` inside this process (no source hook).  Dependency versions: the
installed vermouth / networkx as they are.

Model side (Lean, Model/ItpIO.lean): `genParamsTail`/`writeGenParams` (writer), `readItp`,
`readViaTop` (readers), `resGraphOf`, and the specification `sameMolecule` / `isoByResidB`.

Per case:
  correspondence  writer      : model lines of the captured molecule == lexed lines of the real file
                  reader-itp  : model `readItp` of the lexed real file == block `from_itp` returned
                  reader-top  : model `readViaTop` ... == block `Topology.from_gmx_topfile` returned (#include)
                  reader-flat : model `readViaTop` ... == block `Topology.from_gmx_topfile` returned (single file)
                  resgraph    : model `resGraphOf` of the re-read block == residue graph of the re-read MetaMolecule
                  reader-malformed : mutated files, ok/reject and block (ties the error paths of the reader model)
                  wf-theorem  : when the captured molecule meets the hypotheses `WF` of `C11_roundtrip`
                                the real round trip must hold (the theorem's claim on the real code)
                  writer-text : CHARACTER level (Model/C11Lex.lean): the model's file text == the text the real
                                writer wrote, character for character (citation lines as a multiset)
                  reader-text-itp / -top / -flat : model `readItp ∘ lexLine` on the CHARACTERS of the real
                                file == the block the real reader returned (no harness lexer in between)
                  lexer       : model `lexLine` == real `split_comments` + real `ITPDirector.dispatch` /
                                `parse_header`: EXHAUSTIVE over all lines of length <= 4 (thorough: 5) over the lexer's eight
                                character classes, random longer lines, every line of every written file
                  text-theorem: when `WF` and `tokensOk` hold, lexing the model's text gives the model's
                                token lines (claim of `C11_lex_render`), evaluated by the driver
  oracle (Lean specification on the real output)
                  not-written : mapping and link application passed but no file / gen_params raised
                  reread-refused : the written file is refused by one of polyply's readers
                  molecule-differs : `sameMolecule captured reread` is false (atoms or interactions)
                  resgraph-not-isomorphic : no link missing but `isoByResidB` is false
Streams: (a) generated force fields (random blocks and links, every interaction section the writer
and readers share, guards, groups, comments, virtual sites, exclusions, pairs, missing links, optional
branched residue graphs), (b) every library shipped in polyply/data with short sequences of every
block that occurs in a link.  Shapes listed in notes/C11_findings.md are only generated when
`C11_FINDING_SHAPES=1` (kept out of the default stream until the coordinator decides).
"""
import copy
import hashlib
import json
import os

import common
import c11_real

RULE = ("(a) generated force fields: 1-3 blocks of 1-6 atoms, chain bonds or constraints (optionally the "
        "martini pair bond-under-#ifdef / constraint-under-#ifndef), 0-8 extra interactions drawn from all "
        "18 interaction sections writer and readers share, metas ifdef/ifndef/group/comment/version, links "
        "for a random subset of ordered residue-name pairs (bond + optional angle/dihedral/pair/exclusion, "
        "guards), optional `[ citations ]` with a user .bib (non-ASCII authors) and sometimes a key no .bib "
        "defines, optional `[ modification ]` of the force field's own, non-ASCII command line in the header, linear sequences "
        "of 1-6 residues or branched json graphs (resids from 0, 1 or 4); (b) every library in "
        "polyply/data x sequences X:3, X:2 Y:1, X:1 Y:2 for blocks in links; (c) malformed files for the "
        "reader model.  Non-trivial = the file was written and holds >= 2 residues or >= 1 guarded "
        "interaction; distinct = hash of (force-field text | library, sequence)")

SECTIONS = [  # name, number of atoms (None = variable), number of parameters to generate
    ("bonds", 2, 3), ("angles", 3, 3), ("dihedrals", 4, 4), ("impropers", 4, 3), ("constraints", 2, 2),
    ("pairs", 2, 1), ("pairs_nb", 2, 4), ("exclusions", None, 0), ("virtual_sites2", 3, 2),
    ("virtual_sites3", 4, 3), ("virtual_sites4", 5, 4), ("virtual_sitesn", None, 1),
    ("position_restraints", 1, 4), ("distance_restraints", 2, 6), ("dihedral_restraints", 4, 3),
    ("orientation_restraints", 2, 5), ("angle_restraints", 4, 4), ("angle_restraints_z", 2, 4),
]
NUMBERS = ["1", "2", "9", "0.37", "0.25", "1250", "7000", "180", "120.5", "-0.5", "1.0e+03", "0", "3.5e-01", "1e2"]
ATYPES = ["P1", "SN1a", "C1", "Qd", "TC5", "opls_135"]
TAGS = ["FLEXIBLE", "POSRES", "STIFF"]
FINDING_SHAPES = os.environ.get("C11_FINDING_SHAPES") == "1"
OUT_NAMES = ["out.itp", "polymer.itp", "polymer", "PEO_v1.2", "single.top", "OUT.ITP", "sub/dir.v2/p.itp",
             "sub/noext", "a.b.c.itp", "x.ITP.bak"]
READ_MODES = ["plain", "symlink", "relative", "relative-dir"]


def derived(rng, tag):
    """a random stream derived from the CURRENT state of `rng` without consuming from it (new generator dimensions draw
    from such streams so that the older choices of a seed stay what they were)"""
    import random as _random
    state = rng.getstate()[1]
    return _random.Random("%s|%r|%r" % (tag, state[:2], state[-1]))


def io_variation(rng, spec):
    """where the output is requested and how the .top that includes it is reached"""
    spec["out_name"] = rng.choice(OUT_NAMES)
    spec["out_rel"] = rng.random() < 0.4
    spec["read_mode"] = rng.choice(READ_MODES)
    # the file system of the output directory: that of the temporary directory, or another one (/dev/shm, home ...)
    extra = derived(rng, "c11-io")
    spec["out_fs"] = "other" if extra.random() < 0.3 else "same"
    return spec


BIB_ENTRIES = {
    "RefA": "@article{RefA,\n  author={Gr\u00fcnewald, Fabian and Doma\u0144ski, Jan},\n  journal={J. Ex\u00e4mple},\n"
            "  year={2021},\n  doi={10.1000/a}\n}\n",
    "RefB": "@article{RefB,\n  author={Souza, Paulo C T and Mart\u00ednez-Seara, Hector},\n  year={2019}\n}\n",
}
# shapes recorded in notes/C11_findings.md: real-code losses whose cause lies in the molecule that was
# built (force-field content / link application / vermouth's writer conventions), reported to the
# coordinator; judged only with C11_FINDING_SHAPES=1 or once known_findings.txt lists them
PENDING_SHAPES = {
    "edge-without-bond", "bond-between-non-neighbours", "residue-with-two-resnames",
    "angle-restraints-z-reversed", "unreadable-section", "arity", "both-guards",
}


# ------------------------------------------------------------------------------------------------ generators

def gen_meta(rng, allow_guard=True):
    meta = {}
    roll = rng.random()
    if allow_guard and roll < 0.22:
        meta["ifdef"] = rng.choice(TAGS)
    elif allow_guard and roll < 0.4:
        meta["ifndef"] = rng.choice(TAGS)
    if rng.random() < 0.25:
        meta["group"] = rng.choice(["backbone", "side chain", "link"])
    if rng.random() < 0.2:
        meta["comment"] = rng.choice(["BB-SC1", "fitted", "see paper"])
    return meta


def fmt_ixn(atoms, params, meta, delimiter=False):
    toks = list(atoms) + (["--"] if delimiter else []) + list(params)
    line = " ".join(toks)
    if meta:
        line += " " + json.dumps(meta)
    return line


def gen_block(rng, resname, letter, thorough):
    natoms = rng.choice([1, 2, 2, 3, 3, 4, 5, 6] if thorough else [1, 2, 2, 3, 3, 4, 5])
    names = ["%s%d" % (letter, i + 1) for i in range(natoms)]
    lines = ["[ moleculetype ]", "%s %d" % (resname, rng.choice([1, 1, 2, 3])), "[ atoms ]"]
    with_mass = rng.random() < 0.8
    with_charge = with_mass or rng.random() < 0.8
    for i, nm in enumerate(names):
        fields = [str(i + 1), rng.choice(ATYPES), "1", resname, nm, str(rng.choice([1, i + 1]))]
        if with_charge:
            fields.append(rng.choice(["0.0", "0", "-1.0", "0.25", "1", "-0.5"]))
        if with_mass:
            fields.append(rng.choice(["72.0", "36", "45.5", "12.011"]))
        lines.append(" ".join(fields))
    sections = {}

    def add(section, atoms, params, meta):
        delim = section in ("virtual_sitesn", "exclusions")
        sections.setdefault(section, []).append(fmt_ixn(atoms, params, meta, delimiter=delim))

    # connectivity inside the block: a chain (bonds, constraints, or the guarded pair of both)
    style = rng.choice(["bonds", "bonds", "constraints", "martini"])
    for a, b in zip(names[:-1], names[1:]):
        pair = [a, b] if rng.random() < 0.7 else [b, a]
        if style == "bonds":
            add("bonds", pair, ["1", rng.choice(NUMBERS), rng.choice(NUMBERS)], gen_meta(rng, allow_guard=False))
        elif style == "constraints":
            add("constraints", pair, ["1", rng.choice(NUMBERS)], gen_meta(rng, allow_guard=False))
        else:
            add("bonds", pair, ["1", "0.3", "5000"], {"ifdef": "FLEXIBLE"})
            add("constraints", pair, ["1", "0.3"], {"ifndef": "FLEXIBLE"})
    used = set()
    for _ in range(rng.randint(0, 8 if thorough else 6)):
        section, arity, nparams = rng.choice(SECTIONS)
        if arity is None:
            if natoms < 2:
                continue
            arity = rng.randint(2, min(natoms, 4))
        if arity > natoms:
            continue
        atoms = rng.sample(names, arity)
        if section == "angle_restraints_z" and not FINDING_SHAPES:
            atoms = sorted(atoms, key=names.index)      # see notes/C11_findings.md (angle-restraints-z-reversed)
        params = [str(rng.randint(1, 9))] + [rng.choice(NUMBERS) for _ in range(max(nparams - 1, 0))] if nparams else []
        meta = gen_meta(rng)
        # two interactions on the same atoms need distinct versions to survive block->molecule
        key = (section, tuple(atoms))
        if key in used:
            meta["version"] = str(rng.randint(2, 99))
        used.add(key)
        add(section, atoms, params, meta)
    # small rings / permuted atoms: DISTINCT interactions on the same atom set with identical parameters and metas
    # (the three angles of a three-membered ring, the ring dihedrals of a four-membered ring, impropers around one
    # centre listed in different orders); drawn from a derived stream so that the other choices stay what they were
    extra = derived(rng, "c11-ring|" + resname)
    if natoms >= 3 and extra.random() < 0.35:
        a, b, c = extra.sample(names, 3)
        params = ["2", extra.choice(["60", "60.0", "120"]), extra.choice(NUMBERS)]
        meta = gen_meta(extra)
        for atoms in ([a, b, c], [b, c, a], [c, a, b]):
            if ("angles", tuple(atoms)) not in used and ("angles", tuple(atoms[::-1])) not in used:
                used.add(("angles", tuple(atoms)))
                add("angles", atoms, params, dict(meta))
    if natoms >= 4 and extra.random() < 0.35:
        a, b, c, d = extra.sample(names, 4)
        section = extra.choice(["dihedrals", "dihedrals", "impropers"])
        params = [extra.choice(["1", "2", "9"]), extra.choice(NUMBERS), extra.choice(NUMBERS)] + \
                 (["3"] if section == "dihedrals" else [])
        meta = gen_meta(extra)
        orders = ([a, b, c, d], [b, c, d, a], [c, d, a, b]) if section == "dihedrals" else ([a, b, c, d], [a, c, b, d], [a, d, c, b])
        for atoms in orders:
            if (section, tuple(atoms)) not in used and (section, tuple(atoms[::-1])) not in used:
                used.add((section, tuple(atoms)))
                add(section, atoms, params, dict(meta))
    for section, items in sections.items():
        lines.append("[ %s ]" % section)
        lines += items
    return names, lines


def gen_link(rng, res_a, names_a, res_b, names_b, thorough):
    resname = '"%s"' % res_a if res_a == res_b else '"%s|%s"' % (res_a, res_b)
    lines = ["[ link ]", "resname %s" % resname]
    last, first = names_a[-1], "+" + names_b[0]

    def sel(name, res):
        return "%s {\"resname\": \"%s\"}" % (name, res)
    a_end, b_start = sel(last, res_a), sel(first, res_b)
    kind = rng.choice(["bonds", "bonds", "constraints"])
    meta = gen_meta(rng, allow_guard=False)
    lines.append("[ %s ]" % kind)
    params = ["1", rng.choice(NUMBERS), rng.choice(NUMBERS)] if kind == "bonds" else ["1", rng.choice(NUMBERS)]
    order = [a_end, b_start] if rng.random() < 0.6 else [b_start, a_end]
    lines.append(fmt_ixn(order, params, meta))
    if len(names_a) >= 2 and rng.random() < 0.7:
        lines.append("[ angles ]")
        prev = sel(names_a[-2], res_a)
        atoms = [prev, a_end, b_start] if rng.random() < 0.5 else [b_start, a_end, prev]
        lines.append(fmt_ixn(atoms, ["2", rng.choice(NUMBERS), rng.choice(NUMBERS)], gen_meta(rng)))
    if len(names_a) >= 2 and len(names_b) >= 2 and rng.random() < 0.6:
        lines.append("[ dihedrals ]")
        atoms = [sel(names_a[-2], res_a), a_end, b_start, sel("+" + names_b[1], res_b)]
        if rng.random() < 0.5:
            atoms = atoms[::-1]
        base = gen_meta(rng)
        for version in range(1, rng.randint(1, 3) + 1):
            meta = dict(base, version=str(version))
            lines.append(fmt_ixn(atoms, ["9", rng.choice(NUMBERS), rng.choice(NUMBERS), str(version)], meta))
    if rng.random() < 0.3:
        lines.append("[ pairs ]")
        lines.append(fmt_ixn([sel(names_a[0], res_a), sel("+" + names_b[-1], res_b)], ["1"], gen_meta(rng)))
    if rng.random() < 0.3:
        lines.append("[ exclusions ]")
        lines.append(fmt_ixn([sel(names_a[0], res_a), b_start], [], gen_meta(rng), delimiter=True))
    return lines


def gen_case(rng, index, thorough):
    nblocks = rng.choice([1, 1, 2, 2, 3])
    resnames = ["RA", "RB", "RC"][:nblocks]
    blocks = {}
    text = []
    for res, letter in zip(resnames, "ABC"):
        names, lines = gen_block(rng, res, letter, thorough)
        blocks[res] = names
        text += lines + [""]
    link_pairs = []
    for res_a in resnames:
        for res_b in resnames:
            if rng.random() < 0.8:
                link_pairs.append((res_a, res_b))
    for res_a, res_b in link_pairs:
        text += gen_link(rng, res_a, blocks[res_a], res_b, blocks[res_b], thorough) + [""]
    nres = rng.choice([1, 2, 2, 3, 3, 4, 5, 6] if thorough else [1, 2, 2, 3, 3, 4])
    files = {}
    # choices added later draw from a derived stream so that the cases of a given seed stay what they were
    extra = derived(rng, "c11-extra|%d" % index)
    if extra.random() < 0.3:
        # a force field that defines its own [ modification ] (end-group patches of a polymer force field, as
        # martini3/modifications.ff does for proteins); gen_params patches the default protein termini when no
        # modification is requested, which must leave non-protein residues alone
        mod_name = extra.choice(["END-cap", "ter1", "N-ter", "OH-ter", "zwitter"])
        text += ["[ modification ]", mod_name, "[ atoms ]",
                 '%s {"replace": {"atype": "%s"}}' % (blocks[resnames[0]][0], extra.choice(ATYPES)), ""]
    if rng.random() < 0.3:
        # force-field wide citations: keys a user .bib defines (non-ASCII author names, as in the shipped
        # libraries) and, sometimes, a key no loaded .bib defines (a .ff given without its .bib)
        keys = rng.sample(sorted(BIB_ENTRIES), rng.randint(1, len(BIB_ENTRIES)))
        files["refs_%d.bib" % index] = "".join(BIB_ENTRIES[k] for k in keys)
        if rng.random() < 0.4:
            keys.insert(rng.randint(0, len(keys)), "NoSuchRef")
        text = ["[ citations ]"] + keys + [""] + text
    files["ff_%d.ff" % index] = "\n".join(text) + "\n"
    spec = dict(kind="generated", name=rng.choice(["poly", "mol_A", "P3", "x"]), files=files,
                argv=["polyply", "gen_params", "-name", rng.choice(["poly", "polym\u00e8re", "\u03b1-PEO"]), "-seq"]
                + ["R%s:1" % c for c in "AB"][:rng.randint(0, 2)])
    if rng.random() < 0.75 or nres < 3:
        seq = []
        for _ in range(nres):
            res = rng.choice(resnames)
            if seq and seq[-1][0] == res:
                seq[-1][1] += 1
            else:
                seq.append([res, 1])
        spec["seq"] = ["%s:%d" % (r, n) for r, n in seq]
        if extra.random() < 0.3:
            # the same linear sequence handed over as a json residue graph, numbered from 0, 1 or an offset
            first = extra.choice([0, 0, 1, 4])
            step = extra.choice([1, 1, 1, 2])               # 2 = gapped numbering (0, 2, 4 ... / 1, 3, 5 ...)
            flat = [r for r, n in seq for _ in range(n)]
            del spec["seq"]
            spec["seq_json"] = {"directed": False, "multigraph": False, "graph": {},
                                "nodes": [{"id": i, "resname": r, "resid": first + step * i} for i, r in enumerate(flat)],
                                "edges": [{"source": i - 1, "target": i} for i in range(1, len(flat))]}
    else:
        # a branched residue graph: random tree, parent always has the lower key
        # residue ids of the requested graph: contiguous from 1, from 0 (the boundary value) or from an offset
        first = extra.choice([0, 0, 1, 1, 4])
        nodes = [{"id": i, "resname": rng.choice(resnames), "resid": i + first} for i in range(nres)]
        edges = [{"source": rng.randrange(i), "target": i} for i in range(1, nres)]
        spec["seq_json"] = {"directed": False, "multigraph": False, "graph": {}, "nodes": nodes, "edges": edges}
    if "seq_json" in spec:
        graph = spec["seq_json"]
        # node keys of the requested graph: 0..n-1, from 1, 10/20/30 ..., and the node list in another order than
        # the keys (permuted insertion order); now and then one ring-closing edge (cyclic residue graph)
        relabel = extra.choice(["same", "same", "from1", "tens", "reversed"])
        n = len(graph["nodes"])
        new_id = {"same": lambda i: i, "from1": lambda i: i + 1, "tens": lambda i: 10 * (i + 1),
                  "reversed": lambda i: n - 1 - i}[relabel]
        for node in graph["nodes"]:
            node["id"] = new_id(node["id"])
        for edge in graph["edges"]:
            edge["source"], edge["target"] = new_id(edge["source"]), new_id(edge["target"])
        if extra.random() < 0.3:
            extra.shuffle(graph["nodes"])
        if n >= 3 and extra.random() < 0.2:
            ids = sorted(node["id"] for node in graph["nodes"])
            have = {frozenset((e["source"], e["target"])) for e in graph["edges"]}
            for _ in range(4):
                u, v = extra.sample(ids, 2)
                if frozenset((u, v)) not in have:
                    graph["edges"].append({"source": u, "target": v})
                    break
    elif extra.random() < 0.08:
        # sizes at the boundaries of the column widths of the written file: 9/10/11 and 99/100/101 atoms
        res = resnames[0]
        natoms = len(blocks[res])
        target = extra.choice([9, 10, 11, 99, 100, 101, 21])
        spec["seq"] = ["%s:%d" % (res, max(1, -(-target // natoms)))]
    return io_variation(rng, spec)


def finding_cases():
    """the shapes of notes/C11_findings.md, only with C11_FINDING_SHAPES=1"""
    base_atoms = ("[ moleculetype ]\nRA 1\n[ atoms ]\n1 P1 1 RA A1 1 0.0 72.0\n2 P1 1 RA A2 1 0.0 72.0\n"
                  "3 P1 1 RA A3 1 0.0 72.0\n4 P1 1 RA A4 1 0.0 72.0\n5 P1 1 RA A5 1 0.0 72.0\n"
                  "[ bonds ]\nA1 A2 1 0.3 100\nA2 A3 1 0.3 100\nA3 A4 1 0.3 100\nA4 A5 1 0.3 100\n")
    link = '[ link ]\nresname "RA"\n[ bonds ]\nA5 +A1 1 0.4 100\n'
    cases = []
    cases.append(("cmap-section", base_atoms + "[ cmap ]\nA1 A2 A3 A4 A5 1 24 24\n" + link, ["RA:2"]))
    cases.append(("angle-restraints-z-reversed", base_atoms + "[ angle_restraints_z ]\nA3 A1 1 90 50 1\n" + link, ["RA:2"]))
    cases.append(("both-guards", base_atoms + '[ angles ]\nA1 A2 A3 2 120 50 {"ifdef": "A", "ifndef": "B"}\n' + link, ["RA:2"]))
    cases.append(("edge-without-bond", base_atoms + '[ link ]\nresname "RA"\n[ angles ]\nA4 A5 +A1 2 120 50\n', ["RA:2"]))
    cases.append(("edges-directive-only", base_atoms + '[ link ]\nresname "RA"\n[ edges ]\nA5 +A1\n', ["RA:2"]))
    cases.append(("bond-between-non-neighbours", base_atoms + link +
                  '[ link ]\nresname "RA"\n[ bonds ]\nA1 ++A1 6 0.9 50 {"edge": false}\n'
                  '[ angles ]\nA4 A5 +A1 2 120 50\n+A4 +A5 ++A1 2 120 50 {"version": "2"}\n', ["RA:3"]))
    cases.append(("virtual-sitesn-two-params", base_atoms + "[ virtual_sitesn ]\nA5 A1 A2 -- 3 0.5\n" + link, ["RA:2"]))
    specs = []
    for shape, text, seq in cases:
        specs.append(dict(kind="finding", shape=shape, name="poly", files={"f.ff": text}, seq=seq,
                          argv=["polyply", "gen_params"]))
    return specs


def library_cases(ctx):
    specs = []
    for lib in c11_real.library_names():
        try:
            seqs = c11_real.library_sequences(lib)
        except Exception as err:  # pylint: disable=broad-except
            ctx.tally(library_load_failed=lib)
            continue
        singles = [s for s in seqs if len(s) == 1]
        pairs = [s for s in seqs if len(s) > 1]
        limit = ctx.budget(4, 100)
        if len(pairs) > limit:
            pairs = ctx.rng.sample(pairs, limit)
        for seq in singles + pairs:
            specs.append(io_variation(ctx.rng, dict(kind="library", name="mol", lib=[lib], seq=seq,
                                                    argv=["polyply", "gen_params", "-lib", lib, "-seq"] + seq)))
    return specs


# ------------------------------------------------------------------------------------------------ canonical helpers

def norm_tok(tokn):
    """numeric tokens are compared as numbers (statement: 'same ... parameters')"""
    if tokn is None:
        return None
    try:
        return repr(float(tokn))
    except (TypeError, ValueError):
        return tokn


def norm_mol(mol):
    mol = copy.deepcopy(mol)
    for atom in mol["atoms"]:
        atom["charge"], atom["mass"] = norm_tok(atom["charge"]), norm_tok(atom["mass"])
    for _, items in mol["sections"]:
        for ixn in items:
            ixn["params"] = [norm_tok(p) for p in ixn["params"]]
    return mol


def norm_block(block):
    block = copy.deepcopy(block)
    for atom in block["atoms"]:
        atom["charge"], atom["mass"] = norm_tok(atom["charge"]), norm_tok(atom["mass"])
    for _, items in block["sections"]:
        for ixn in items:
            ixn["params"] = [norm_tok(p) for p in ixn["params"]]
    return block


def canon_lines(lines):
    """comment texts stripped; the citation comment lines of the header compared as a multiset (their
    order is the iteration order of a set and no part of the property)"""
    lines = list(lines)
    first = next((i for i, l in enumerate(lines) if l.get("k") == "h"), len(lines))
    head = lines[:first]
    start = next((i for i, l in enumerate(head) if l.get("k") == "c" and l["t"].strip().startswith("Please cite")), None)
    if start is not None:
        end = next((i for i in range(start + 1, len(head)) if head[i].get("k") != "c"), len(head))
        head[start + 1:end] = sorted(head[start + 1:end], key=lambda l: l["t"].strip())
    lines = head + lines[first:]
    out = []
    for line in lines:
        line = dict(line)
        if line.get("k") == "c":
            line["t"] = line["t"].strip()
        if line.get("k") == "d":
            line["c"] = line["c"].strip() if line.get("c") is not None else None
        out.append(line)
    return out


def text_lines(text):
    """the lines of a file as `readlines()` delivers them, without the line terminator"""
    parts = text.split("\n")
    return parts[:-1] if text.endswith("\n") else parts


def canon_text(lines):
    """the characters of the file; only the citation lines of the header (iteration order of a set, no part
    of the property) are compared as a multiset"""
    lines = list(lines)
    first = next((i for i, l in enumerate(lines) if l.startswith("[")), len(lines))
    start = next((i for i, l in enumerate(lines[:first]) if l.startswith("; Please cite")), None)
    if start is not None:
        end = next((i for i in range(start + 1, first) if not lines[i].startswith(";")), first)
        lines[start + 1:end] = sorted(lines[start + 1:end])
    return lines


def canon_block(block):
    """block JSON (real or model) -> comparable form: sections as a dict of lists (file order kept)"""
    return dict(name=block.get("name"), nrexcl=block.get("nrexcl"),
                atoms=[[a["key"], a["name"], a["atype"], a["resid"], a["resname"], a["cgnr"],
                        norm_tok(a["charge"]), norm_tok(a["mass"])]
                       for a in block["atoms"]],
                sections={name: [[x["atoms"], x["params"], x.get("guard")] for x in items]
                          for name, items in block["sections"] if items})


def canon_graph(nodes, edges):
    return dict(nodes=[list(n) for n in nodes], edges=sorted(set((min(u, v), max(u, v)) for u, v in edges)))


def model_writable(mol):
    return mol is not None and not mol["problems"] and mol["nrexcl"] is not None


def case_key(spec):
    blob = json.dumps([spec.get("files"), spec.get("lib"), spec.get("seq"), spec.get("seq_json"), spec.get("name"),
                       spec.get("out_name"), spec.get("out_rel"), spec.get("read_mode"), spec.get("out_fs")],
                      sort_keys=True)
    return hashlib.sha1(blob.encode()).hexdigest()[:16]


# ------------------------------------------------------------------------------------------------ one case

def report(ctx, shape, what, replay):
    """oracle failure; shapes still waiting for the coordinator's decision are only tallied by default"""
    known = {k["shape"] for k in common.load_known_findings() if k["property"] == "C11"}
    if shape in PENDING_SHAPES and not FINDING_SHAPES and shape not in known:
        ctx.tally(pending_finding=shape)
        ctx.extra.setdefault("pending_findings", {}).setdefault(shape, [])
        if len(ctx.extra["pending_findings"][shape]) < 5:
            ctx.extra["pending_findings"][shape].append(describe(replay))
        return
    ctx.oracle_fail(shape, what, replay)


def why_kind(why):
    for reason in why or []:
        kind = reason.split(":")[0]
        if kind in PENDING_SHAPES:
            return kind
    return None


def run_case(spec):
    """drive the real code; build the driver requests"""
    res = c11_real.run_pipeline(spec)
    cap = res["captured"]
    case = dict(spec=spec, res=res, reqs=[], slots={})

    def ask(slot, req):
        case["slots"][slot] = len(case["reqs"])
        case["reqs"].append(req)

    mol = cap.get("mol")
    if model_writable(mol):
        argv = " ".join(spec.get("argv") or ["polyply", "gen_params"])
        ask("tail", dict(op="tail", mol=mol, argv=argv, moltype=cap["moltype"],
                         citations=cap["citations_ordered"], cmap=cap["cmap"]))
    if res.get("written"):
        lines = c11_real.lex_file(res["text"])
        case["lines"] = lines
        ask("read_itp", dict(op="read", lines=lines, via="itp"))
        ask("read_top", dict(op="read", lines=lines, via="top"))
        raw_lines = text_lines(res["text"])
        case["raw_lines"] = raw_lines
        # the whole file as ONE string: the model cuts it into lines itself (`splitLines`)
        ask("read_text_itp", dict(op="read_text", file=res["text"], via="itp"))
        ask("read_text_top", dict(op="read_text", file=res["text"], via="top"))
        for via in ("top", "itp", "flat"):
            got = res.get(via)
            if got and got["ok"]:
                built = cap.get("built") if model_writable(cap.get("built")) else mol
                if model_writable(built):
                    # the oracle compares with the molecule that was BUILT (captured when the missing links are
                    # reported), not with what the output stage handed to the writer
                    ask("same_" + via, dict(op="same", mol=norm_mol(built), block=norm_block(got["block"])))
                req_graph = cap.get("requested")
                if req_graph is not None:
                    nodes = [[n[1], n[2]] for n in req_graph["nodes"]]
                    resid_of = {n[0]: n[1] for n in req_graph["nodes"]}
                    edges = [[resid_of[u], resid_of[v]] for u, v in req_graph["edges"]]
                    if all(isinstance(n[0], int) and n[0] >= 0 and isinstance(n[1], str) for n in nodes):
                        rec = got["graph"]
                        rec_ok = all(isinstance(n[0], int) and isinstance(n[1], int) and n[1] >= 0 and isinstance(n[2], str)
                                     for n in rec["nodes"])
                        ask("iso_" + via, dict(op="iso", block=got["block"], req=dict(nodes=nodes, edges=edges),
                                               recovered=dict(nodes=rec["nodes"], edges=[list(e) for e in rec["edges"]])
                                               if rec_ok else None,
                                               built=mol if model_writable(mol) else None))
    return case


def judge(ctx, case, answers):
    spec, res = case["spec"], case["res"]
    cap = res["captured"]
    replay = spec
    passed = res["trace"]["passed"]
    mol = cap.get("mol")

    def ans(slot):
        idx = case["slots"].get(slot)
        return None if idx is None else answers[idx]

    links_passed = "links" in passed
    guarded = 0
    nres = 0
    if mol:
        guarded = sum(1 for _, items in mol["sections"] for x in items if x["ifdef"] or x["ifndef"])
        nres = len(set((a["resid"], a["resname"]) for a in mol["atoms"]))
    sections_hit = sorted(name for name, items in (mol["sections"] if mol else []) if items)

    # ---- (1) written whenever mapping and link application pass
    tail = ans("tail")
    if links_passed:
        if not res["written"] or res["raised"] is not None:
            where = ("before the writer was called" if "write" not in res["trace"]["entered"] else
                     "in the writer" if "write" not in passed else
                     "the writer returned but no file is at the requested path")
            shape = "not-written"
            if tail is not None and not tail["ok"]:
                # the model's writer refuses this molecule too: name the reason
                shape = why_kind(tail.get("why")) or "not-written-unwritable-molecule"
            report(ctx, shape, "mapping and link application passed but gen_params %s (%s): raised %s, "
                            "file at the requested path %r: %s, files that appeared instead: %s; input %s"
                            % ("did not write its output", where, res["raised"], res.get("requested_path"),
                               res["written"], [f for f in res.get("new_files", []) if not f.endswith((".ff", ".bib", ".json"))],
                               describe(spec)), replay)
    if tail is not None:
        # the model's prediction of "is a file produced" and of its content
        impl_lines = canon_lines(case["lines"]) if res.get("written") and "write" in passed else None
        model_lines = canon_lines(tail["lines"]) if tail["ok"] else None
        ctx.correspond("writer", impl_lines, model_lines, replay)
        ctx.traces += 1
        # character level: the text itself
        impl_text = canon_text(text_lines(res["text"])) if res.get("written") and "write" in passed else None
        model_text = canon_text(tail["text"]) if tail["ok"] and tail.get("text") is not None else None
        ctx.correspond("writer-text", impl_text, model_text, replay)
        if model_text is not None:
            # `joinLines`: every line followed by a line feed, nothing else
            ctx.correspond("writer-file", "".join(l + "\n" for l in tail["text"]), tail.get("file"), replay)
        if tail["ok"] and tail.get("wf") and tail.get("tokens_ok"):
            ctx.correspond("text-theorem", tail.get("lex_roundtrip"), True, replay)
        ctx.tally(tokens_ok=bool(tail.get("tokens_ok")) if tail["ok"] else None)

    # ---- (2) the readers accept the file and return the same molecule
    if res.get("written"):
        for via, slot in (("itp", "read_itp"), ("top", "read_top"), ("flat", "read_top")):
            got, model = res.get(via), ans(slot)
            impl = canon_block(got["block"]) if got["ok"] else None
            if via in ("top", "flat") and impl is not None:
                impl["name"], impl["nrexcl"] = got.get("block_name"), got.get("nrexcl")
            if via == "itp" and impl is not None:
                impl["name"], impl["nrexcl"] = cap.get("moltype"), got.get("nrexcl")
            mod = canon_block(model["block"]) if model["ok"] else None
            ctx.correspond("reader-" + via, impl, mod, replay)
            model_t = ans("read_text_itp" if via == "itp" else "read_text_top")
            if model_t is not None:
                ctx.correspond("reader-text-" + via, impl, canon_block(model_t["block"]) if model_t["ok"] else None, replay)
            if not got["ok"]:
                report(ctx, (why_kind(tail.get("why")) if tail else None) or "reread-refused", "the file gen_params wrote is refused by %s: %s (%s); input %s"
                                % ({"top": "Topology.from_gmx_topfile (through #include)", "itp": "MetaMolecule.from_itp",
                                    "flat": "Topology.from_gmx_topfile (single file: the written itp followed by "
                                            "[ system ] / [ molecules ])"}[via]
                                   + (" [.top reached as: %s]" % got.get("read_mode") if via == "top" else ""),
                                   got["err"], got.get("cause"), describe(spec)), replay)
                continue
            same = ans("same_" + via)
            if same is not None:
                if not same["same"]:
                    bad = [s[0] for s in same["sections"] if not s[1]]
                    shape = why_kind(same["why"]) or ("angle-restraints-z-reversed" if not same["z_ordered"]
                                                      and bad == ["angle_restraints_z"] else "molecule-differs")
                    report(ctx, shape, "re-read molecule (%s%s) differs from the built one: atoms same=%s, "
                                    "differing sections=%s, extra sections=%s; input %s"
                                    % (via, ", .top reached as: %s" % got.get("read_mode") if via == "top" else "",
                                       same["atoms_same"], bad, same["extra_sections"], describe(spec)), replay)
                if same["wf"] and same["z_ordered"]:
                    # hypotheses of C11_roundtrip(_spec) hold: the theorem promises the round trip
                    ctx.correspond("wf-theorem", same["same"], True, replay)
            iso = ans("iso_" + via)
            if iso is not None:
                model_graph = canon_graph(iso["graph"]["nodes"], iso["graph"]["edges"])
                impl_graph = canon_graph(got["graph"]["nodes"], got["graph"]["edges"])
                ctx.correspond("resgraph", impl_graph, model_graph, replay)
                if cap.get("missing") == [] and not iso["iso"]:
                    hyps = iso["hyps"]
                    # the known library typo: ONE residue id of the built molecule carries two residue names; any
                    # other mismatch of the residues (e.g. shifted ids) is not that shape
                    names_of = {}
                    for atom in (mol["atoms"] if mol else []):
                        names_of.setdefault(atom["resid"], set()).add(atom["resname"])
                    two_names = any(len(v) > 1 for v in names_of.values())
                    shape = ("residue-with-two-resnames" if not hyps["nodes_ok"] and two_names else
                             "resgraph-not-isomorphic" if not hyps["nodes_ok"] else
                             "edge-without-bond" if not hyps["realised"] else
                             "bond-between-non-neighbours" if not hyps["only_adjacent"] else "resgraph-not-isomorphic")
                    report(ctx, shape, "no link is missing but the residue graph recovered from the "
                                    "file (%s) is not isomorphic (by resid, with equal resnames) to the requested one: "
                                    "requested %s, recovered %s, hypotheses %s; input %s"
                                    % (via, cap["requested"], impl_graph, iso["hyps"], describe(spec)), replay)
                if cap.get("missing") == [] and iso["hyps"]["nodes_ok"] and iso["hyps"]["realised"] and iso["hyps"]["only_adjacent"]:
                    # hypotheses of C11_resgraph_iso hold for the built molecule: the theorem's claim, on the model
                    ctx.correspond("iso-theorem", iso["iso_model"], True, replay)
                ctx.tally(iso_checked=(cap.get("missing") == []))
    nontrivial = res.get("written") and (nres >= 2 or guarded >= 1)
    ctx.case(case_key(spec) if nontrivial else None,
             sample=dict(input=describe(spec), stages=passed, written=res["written"], residues=nres,
                         sections=sections_hit, guarded=guarded),
             kind=spec["kind"], stage=("written" if res["written"] else (passed[-1] if passed else "none")),
             residues=("1" if nres <= 1 else "2-3" if nres <= 3 else ">3"),
             guarded=("0" if guarded == 0 else ">=1"), missing_links=(None if "missing" not in cap else len(cap["missing"]) > 0))
    for name in sections_hit:
        ctx.tally(section=name)
    if spec.get("repeat"):
        ctx.tally(second_call_in_process=True)
    ctx.tally(output_file_system=res.get("out_fs"))
    ctx.tally(out_name=spec.get("out_name") or "out.itp", out_path=("relative" if spec.get("out_rel") else "absolute"),
              top_reached=spec.get("read_mode") or "plain")
    if spec["kind"] == "generated":
        fftext = "".join(spec["files"].values())
        ctx.tally(user_citations=("none" if "[ citations ]" not in fftext else
                                  "dangling-key" if "NoSuchRef" in fftext else "all-defined"),
                  non_ascii_header=any(ord(ch) > 127 for ch in (res.get("text") or "").split("[ moleculetype ]")[0]))
    else:
        ctx.tally(non_ascii_header=any(ord(ch) > 127 for ch in (res.get("text") or "").split("[ moleculetype ]")[0]))


def describe(spec):
    io = " -> output %r (%s)" % (spec.get("out_name") or "out.itp", "relative" if spec.get("out_rel") else "absolute")
    if spec.get("lib"):
        return "library %s seq %s%s" % (spec["lib"], spec["seq"], io)
    return "generated force field (%d chars) seq %s%s" % (sum(len(t) for t in spec["files"].values()),
                                                           spec.get("seq") or "json graph", io)


# ------------------------------------------------------------------------------------------------ malformed files for the reader model

def mutate(rng, text):
    lines = text.split("\n")
    body = [i for i, l in enumerate(lines) if l.strip() and not l.lstrip().startswith(";")]
    kind = rng.choice(["drop", "dup-ifdef", "endif", "index0", "indexbig", "unknown-section", "truncate", "else",
                       "swap", "glue-define", "dup-atom", "comment-out"])
    i = rng.choice(body)
    if kind == "drop":
        del lines[i]
    elif kind == "dup-ifdef":
        lines.insert(i, "#ifdef XX")
    elif kind == "endif":
        lines.insert(i, "#endif")
    elif kind in ("index0", "indexbig"):
        toks = lines[i].split()
        if toks and toks[0].isdigit():
            toks[0] = "0" if kind == "index0" else "999"
            lines[i] = " ".join(toks)
    elif kind == "unknown-section":
        lines.insert(i, "[ %s ]" % rng.choice(["foo", "impropers", "cmap", "settles", "system"]))
    elif kind == "truncate":
        toks = lines[i].split()
        lines[i] = " ".join(toks[:max(1, len(toks) - rng.randint(1, 3))])
    elif kind == "else":
        lines.insert(i, "#else")
    elif kind == "swap" and i + 1 < len(lines):
        lines[i], lines[i + 1] = lines[i + 1], lines[i]
    elif kind == "glue-define":
        lines.insert(i, "#define FOO 1")
    elif kind == "dup-atom":
        lines.insert(i, lines[i])
    elif kind == "comment-out":
        lines[i] = "; " + lines[i]
    return kind, "\n".join(lines)


def malformed_stream(ctx, texts):
    """mutated .itp files: real `read_itp` (through MetaMolecule.from_itp) vs the model's `readItp`"""
    import tempfile
    import vermouth.forcefield
    from polyply.src.meta_molecule import MetaMolecule
    rng = ctx.rng
    count = ctx.budget(40, 1200)
    todo = []
    # only files that hold something to mutate (an empty or comment-only file is the oracle's business, not this stream's)
    texts = [(n, t) for n, t in texts if any(l.strip() and not l.lstrip().startswith(";") for l in t.split("\n"))]
    if not texts:
        return
    for _ in range(count):
        name, text = rng.choice(texts)
        kind, mutated = mutate(rng, text)
        lexed = c11_real.lex_file(mutated)
        # pragma forms and numbers the token model deliberately does not cover (see Model/ItpIO.lean)
        if any(l["k"] == "p" and l["t"][0] not in ("#ifdef", "#ifndef", "#endif", "#else", "#define") for l in lexed):
            continue
        if any(l["k"] == "h" and l["n"] in ("moleculetype", "macros") for l in lexed[1:] if l["k"] == "h") and \
                sum(1 for l in lexed if l["k"] == "h" and l["n"] in ("moleculetype", "macros")) > 1:
            continue
        with tempfile.TemporaryDirectory() as tmp:
            path = os.path.join(tmp, "m.itp")
            with open(path, "w") as handle:
                handle.write(mutated)
            try:
                ff = vermouth.forcefield.ForceField("verif_mal")
                MetaMolecule.from_itp(ff, path, name)
                # the block as the reader built it (to_molecule() would renumber the nodes)
                blk = c11_real.block_to_json(ff.blocks[name])
                impl = canon_block(blk)
                impl["name"], impl["nrexcl"] = name, ff.blocks[name].nrexcl
            except Exception:  # pylint: disable=broad-except
                impl = None
        todo.append((kind, mutated, impl, dict(op="read", lines=lexed, via="itp"),
                     dict(op="read_text", file=mutated, via="itp")))
    answers = ctx.driver.ask([t[3] for t in todo] + [t[4] for t in todo])
    for (kind, mutated, impl, _, _), model, model_t in zip(todo, answers[:len(todo)], answers[len(todo):]):
        mod = canon_block(model["block"]) if model["ok"] else None
        ctx.correspond("reader-malformed", impl, mod, dict(kind="malformed", mutation=kind, text=mutated))
        mod_t = canon_block(model_t["block"]) if model_t["ok"] else None
        ctx.correspond("reader-text-malformed", impl, mod_t, dict(kind="malformed", mutation=kind, text=mutated))
        ctx.tally(malformed=kind, malformed_accepted=impl is not None)


# ------------------------------------------------------------------------------------------------ several written files in one system

def nested_include_stream(ctx, cases):
    """SEVERAL files gen_params wrote, read back through ONE .top: every molecule lives in its own directory under
    gen_params' default file name (`<dir>/polymer.itp`) and is pulled in by a small per-molecule file that says
    `#include "polymer.itp"` (same written name, different directories, resolved relative to the including file);
    variants: the files included directly from the .top by their paths, `./` and `../` in the written names.  Oracle:
    the reader accepts the system and every molecule comes back as it does when its file is read alone."""
    import random as _random
    import shutil
    import tempfile
    from polyply.src.topology import Topology
    rng = derived(ctx.rng, "c11-nested")
    usable = [c for c in cases if c["res"].get("written") and (c["res"].get("top") or {}).get("ok")
              and c["res"]["captured"].get("moltype")]
    by_name = {}
    for case in usable:
        by_name.setdefault(case["res"]["captured"]["moltype"], []).append(case)
    names = sorted(by_name)
    if len(names) < 2:
        return
    for index in range(ctx.budget(8, 80)):
        count = rng.choice([2, 2, 3]) if len(names) >= 3 else 2
        chosen = [rng.choice(by_name[n]) for n in rng.sample(names, count)]
        style = rng.choice(["nested", "nested", "nested-dot", "direct", "nested-up"])
        tmp = tempfile.mkdtemp(prefix="c11_nested_")
        try:
            top_lines = []
            layout = []
            for k, case in enumerate(chosen):
                sub = "mol_%d" % k
                os.makedirs(os.path.join(tmp, sub))
                with open(os.path.join(tmp, sub, "polymer.itp"), "w") as handle:
                    handle.write(case["res"]["text"])
                if style == "direct":
                    top_lines.append('#include "%s/polymer.itp"' % sub)
                else:
                    written = {"nested": "polymer.itp", "nested-dot": "./polymer.itp",
                               "nested-up": "../%s/polymer.itp" % sub}[style]
                    with open(os.path.join(tmp, sub, "molecule.itp"), "w") as handle:
                        handle.write('; molecule %d\n#include "%s"\n' % (k, written))
                    top_lines.append('#include "%s/molecule.itp"' % sub)
                layout.append(sub)
            top_lines += ["[ system ]", "verif", "[ molecules ]"]
            counts = [rng.choice([1, 1, 2]) for _ in chosen]
            for case, n in zip(chosen, counts):
                top_lines.append("%s %d" % (case["res"]["captured"]["moltype"], n))
            with open(os.path.join(tmp, "system.top"), "w") as handle:
                handle.write("\n".join(top_lines) + "\n")
            replay = dict(kind="nested", style=style, counts=counts, specs=[c["spec"] for c in chosen])
            try:
                top = Topology.from_gmx_topfile(os.path.join(tmp, "system.top"), "verif_nested")
                err = None
            except Exception as exc:  # pylint: disable=broad-except
                err = "%s: %s" % (type(exc).__name__, str(exc)[:200])
            what = "%d files written by gen_params, each as <dir>/polymer.itp, read through one .top (%s): %s" % (
                len(chosen), style, [describe(c["spec"]) for c in chosen])
            if err is not None:
                report(ctx, "reread-refused", "the files gen_params wrote are refused by Topology.from_gmx_topfile when "
                       "they are part of one system: %s; %s" % (err, what), replay)
            else:
                pos = 0
                for case, n in zip(chosen, counts):
                    alone = canon_block(case["res"]["top"]["block"])
                    alone_graph = canon_graph(case["res"]["top"]["graph"]["nodes"], case["res"]["top"]["graph"]["edges"])
                    for _ in range(n):
                        meta = top.molecules[pos] if pos < len(top.molecules) else None
                        pos += 1
                        got = canon_block(c11_real.block_to_json(meta.molecule)) if meta is not None else None
                        graph = None
                        if meta is not None:
                            gj = c11_real.res_graph_to_json(meta)
                            graph = canon_graph(gj["nodes"], gj["edges"])
                        if got != alone or graph != alone_graph or meta.mol_name != case["res"]["captured"]["moltype"]:
                            report(ctx, "molecule-differs", "molecule %s read as part of one system differs from the "
                                   "same file read alone (block equal: %s, residue graph equal: %s); %s"
                                   % (case["res"]["captured"]["moltype"], got == alone, graph == alone_graph, what), replay)
                            break
                if pos != len(top.molecules):
                    report(ctx, "molecule-differs", "the system holds %d molecules, [ molecules ] asks for %d; %s"
                           % (len(top.molecules), pos, what), replay)
            ctx.tally(nested_include=style)
        finally:
            shutil.rmtree(tmp, ignore_errors=True)


# ------------------------------------------------------------------------------------------------ the lexer against the real one

LEX_ALPHABET = ["a", "B", "#", "[", "]", ";", " ", "\t"]     # one character per class the lexer distinguishes
LEX_EXTRA = ["\n", "\r", "\x0b", "\x0c", "*", "1", ".", "-", "\"", "_", "/", "X", "é"]


def real_lex(raw):
    """what the real reader makes of one physical line: `LineParser.parse` (split_comments, skip when empty),
    `ITPDirector.dispatch` (which bound method), `parse_header` (the section name it computes), `line.split()`"""
    import vermouth.forcefield
    from vermouth.parser_utils import split_comments
    from vermouth.gmx.itp_read import ITPDirector
    director = ITPDirector(vermouth.forcefield.ForceField("verif_lex"))
    line, _ = split_comments(raw, director.COMMENT_CHAR)
    if not line:
        return dict(k="skip")
    try:
        method = director.dispatch(line)
    except IOError:
        return dict(k="x")
    name = method.__name__
    if name == "parse_header":
        director.parse_header(line)
        return dict(k="h", n=director.section[-1])
    if name == "parse_pragma":
        return dict(k="p", t=line.split())
    return dict(k="d", t=line.split())


def canon_lexed(line):
    if line["k"] in ("b", "c"):
        return dict(k="skip")
    if line["k"] == "x":
        return dict(k="x")
    if line["k"] == "h":
        return dict(k="h", n=line["n"])
    return dict(k=line["k"], t=line["t"])


def lexer_stream(ctx, texts):
    import itertools
    rng = ctx.rng
    lines = []
    depth = 5 if ctx.thorough else 4
    for n in range(depth + 1):
        for tup in itertools.product(LEX_ALPHABET, repeat=n):
            lines.append("".join(tup))
    exhaustive = len(lines)
    pool = LEX_ALPHABET * 2 + LEX_EXTRA
    for _ in range(ctx.budget(1500, 30000)):
        lines.append("".join(rng.choice(pool) for _ in range(rng.randint(6, 24))))
    seen = set(lines)
    file_lines = 0
    for _, text in texts:
        for raw in text_lines(text):
            if raw not in seen:
                seen.add(raw)
                lines.append(raw)
                file_lines += 1
    answers = ctx.driver.ask([dict(op="lex", lines=lines)])[0]["lines"]
    for raw, model in zip(lines, answers):
        ctx.correspond("lexer", real_lex(raw), canon_lexed(model), dict(kind="lex", line=raw))
        # the comment text the token model keeps (no reader looks at it): partition at the first ';'
        if model["k"] in ("c", "d"):
            cmt = raw.partition(";")
            want = cmt[2].strip(" \t\n\r\x0b\x0c") if cmt[1] else None
            got = model.get("t") if model["k"] == "c" else model.get("c")
            ctx.correspond("lexer-comment", want, got, dict(kind="lex", line=raw))
    ctx.tally(lexer_lines_exhaustive="exhaustive: all %d lines of length <= %d over %r" % (exhaustive, depth, LEX_ALPHABET),
              lexer_lines_random=len(lines) - exhaustive - file_lines, lexer_lines_from_files=file_lines)


# ------------------------------------------------------------------------------------------------ tables

def check_tables(ctx):
    """the reader tables of the model against the live classes (vermouth's table is not in /repo, so
    it is compared live rather than translated)"""
    from vermouth.gmx.itp_read import ITPDirector
    from polyply.src.top_parser import TOPDirector
    table = ctx.driver.ask([dict(op="table")])[0]

    def live_split(idxs):
        if idxs is None:
            return None
        if all(isinstance(i, int) for i in idxs) and idxs == list(range(len(idxs))):
            return ["strict", len(idxs)]
        if len(idxs) == 1 and isinstance(idxs[0], slice):
            s = idxs[0]
            if s.start in (None, 0) and s.stop is None and s.step is None:
                return ["all"]
            if s.start == 0 and s.step is None:
                return ["slice", s.stop]
        if len(idxs) == 2 and idxs[0] == 0 and isinstance(idxs[1], slice) and idxs[1].start == 2 and idxs[1].stop is None:
            return ["vsn"]
        return ["?", repr(idxs)]
    live = {}
    for key, (method, _) in ITPDirector.METH_DICT.items():
        if len(key) == 2 and key[0] == "moleculetype" and key[1] != "atoms":
            if method.__name__ == "_skip":
                live[key[1]] = ["skip"]
            else:
                live[key[1]] = live_split(ITPDirector.atom_idxs.get(key[1]))
    model = {name: split for name, split in table["split"]}
    ctx.correspond("table:ITPDirector.atom_idxs", live, model, dict(kind="table"))
    live_top = sorted(key[1] for key in TOPDirector.METH_DICT if len(key) == 2 and key[0] == "moleculetype")
    ctx.correspond("table:TOPDirector sections", live_top, sorted(table["top_sections"]), dict(kind="table"))


# ------------------------------------------------------------------------------------------------ run / replay

def run_specs(ctx, specs):
    cases = []
    for spec in specs:
        cases.append(run_case(spec))
    reqs = []
    offsets = []
    for case in cases:
        offsets.append(len(reqs))
        reqs += case["reqs"]
    answers = ctx.driver.ask(reqs) if reqs else []
    for case, off in zip(cases, offsets):
        judge(ctx, case, answers[off:off + len(case["reqs"])])
    return cases


def corpus_specs():
    path = os.path.join(common.VERIF, "corpus", "C11")
    out = []
    if os.path.isdir(path):
        for name in sorted(os.listdir(path)):
            data = json.load(open(os.path.join(path, name)))
            out.append(data.get("input", data))
    return out


def run(ctx):
    ctx.extra["rule"] = RULE
    ctx.extra["trusted"] = [
        "vermouth 0.15 write_molecule_itp / ITPDirector and polyply's TOPDirector are MODELLED at token level "
        "(Model/ItpIO.lean); tied each run by the writer / reader-itp / reader-top / reader-malformed streams",
        "character level of the file (padding, split(), split_comments, strip('[ ]').casefold()) is MODELLED "
        "(Model/C11Lex.lean) and tied by the writer-text / lexer / reader-text-* streams; whitespace = the six ASCII "
        "blanks (Python also strips \\x1c-\\x1f, \\x85, \\xa0 and the Unicode spaces); str(x) of a number is the "
        "harness's token",
        "int()/float() of tokens modelled by String.toNat? / identity; numeric tokens compared after float()",
        "the minimal .top around the written file (#include, [ system ], [ molecules ]) is the harness's",
    ]
    ctx.extra["explanation"] = ("oracle = Lean `sameMolecule` / `isoByResidB` evaluated on what the real readers returned "
                                "for the file the real gen_params wrote; 'written' = output file exists and gen_params "
                                "returned, whenever ApplyLinks.run_molecule returned")
    ctx.assumptions.append("one moleculetype per generated file; pre/post_section_lines and the define meta are never set by polyply")
    ctx.assumptions.append("shapes recorded in notes/C11_findings.md are generated only with C11_FINDING_SHAPES=1")
    check_tables(ctx)
    specs = [s for s in corpus_specs() if s.get("kind") != "malformed"]
    specs += library_cases(ctx)
    count = ctx.budget(60, 2500)
    for index in range(count):
        specs.append(gen_case(ctx.rng, index, ctx.thorough))
    if FINDING_SHAPES:
        specs += finding_cases()
    # process history: the same call a second time in this process (after all the others, some of which fail) — the
    # oracle is applied to the LATER result as well
    again = derived(ctx.rng, "c11-again")
    pool = [s for s in specs if s.get("kind") in ("generated", "library")]
    for spec in again.sample(pool, min(len(pool), ctx.budget(6, 60))):
        specs.append(dict(copy.deepcopy(spec), repeat=True))
    cases = run_specs(ctx, specs)
    texts = [(c["res"]["captured"]["moltype"], c["res"]["text"]) for c in cases
             if c["res"].get("written") and c["res"]["captured"].get("moltype")]
    malformed_stream(ctx, texts[:200])
    nested_include_stream(ctx, cases)
    lexer_stream(ctx, texts[:400])
    pending = ctx.extra.get("pending_findings")
    if pending:
        ctx.extra["explanation"] += ("; inputs showing shapes of notes/C11_findings.md were met and not judged "
                                     "(pending the coordinator's decision): %s" % json.dumps(pending)[:1500])


def replay(ctx, data):
    inputs = []
    if data.get("kind") == "no-failing-input-found":
        print("replay names obligations that no longer check:")
        for item in data.get("no_longer_checks", []):
            print("  ", item["name"], "-", (item["detail"] or "")[:300])
            if item.get("input"):
                inputs.append(item["input"])
    else:
        inputs.append(data.get("input") or data)
    specs = [i for i in inputs if i.get("kind") not in ("malformed", "table", "lex", "nested")]
    for item in inputs:
        if item.get("kind") == "nested":
            # the written files are regenerated from their specs; the stream picks among them again
            nested_include_stream(ctx, run_specs(ctx, item["specs"]))
    run_specs(ctx, specs)
    for item in inputs:
        if item.get("kind") == "lex":
            model = ctx.driver.ask([dict(op="lex", lines=[item["line"]])])[0]["lines"][0]
            ctx.correspond("lexer", real_lex(item["line"]), canon_lexed(model), item)
    for b in ctx.broken:
        print("REPLAY-DISAGREES", b["name"], b["detail"][:400])
