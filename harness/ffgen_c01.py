"""Random force fields and residue graphs for C01 / C13 (importable; read-only use by other builders).

Everything is generated as plain *abstract* Python data first (what the generator MEANT), then rendered
to the two input syntaxes of the program (vermouth `.ff`, polyply `.itp`) as a list of files, each file a
list of independent definition chunks.  The real parsers read the rendered files; the Lean model and the
specification get the abstract data.  All randomness comes from the `random.Random` passed in.

abstract force field
    dict(blocks=[block], links=[link], mods=[mod])
    block = dict(name, nrexcl, syntax 'ff'|'itp', atoms=[atom], ixns=[ixn], dangling=[ixn])
    atom  = dict(atomname, atype, resname, resid (1-based inside the block), cgrp, charge, mass|None)
    ixn   = dict(sect, atoms=[0-based positions in the block], params=[str], meta={})
    link  = dict(kind, resnames=[...], atoms=[(ref, replace-dict, select-dict)], ixns=[dict(sect, atoms=[ref], params)])
    mod   = dict(name, atoms=[(atomname, replace-dict)], ixns=[dict(sect, atoms=[atomname], params)])
abstract residue graph
    dict(nodes=[[key, resid, resname, from_itp|None]] (insertion order), edges=[[u, v] or [u, v, linktype]] (insertion order))

`findings` (a set of shape ids) switches on input shapes for which the unchanged program is known to
violate C01/C13 (see notes/C01_findings.md, notes/C13_findings.md); the default stream avoids them.
"""
import json

SECTIONS = {"bonds": 2, "angles": 3, "dihedrals": 4, "constraints": 2, "pairs": 2, "exclusions": 2,
            "impropers": 4}
PROTEIN_NAMES = ["GLY", "ALA", "SER", "LYS", "TRP", "HIS"]
# polymer residue names, some of them fragments of protein residue names (LA = lactic acid, ...)
POLYMER_NAMES = ["PEO", "PS", "LA", "P3HT", "GL", "N1", "PMA", "LY", "DEX", "A"]
ATOM_NAMES = ["BB", "SC1", "SC2", "SC3", "C1", "O1"]
ATYPES = ["P1", "P2", "C1", "SN1a", "Q5", "TC3", "N4a"]
CHARGES = [-1.0, -0.5, 0.0, 0.0, 0.25, 0.5, 1.0]
MASSES = [72.0, 36.0, 45.0, 54.5, 12.011]
RESID_STARTS = [1, 7, 28, 100]

# shapes on which the unchanged program is known to break the property (kept out of the default stream)
FINDING_SHAPES = ("dup-key-in-block", "atom-removed-by-link", "multires-first-resid-not-1", "resid-start-0",
                  "block-resid-not-1", "link-multiterm-file-order", "ff-itp-file-order")
# former finding shapes that were repaired in /repo (fix: commits 18c3f8a 860ee51 42ca78f d2799d9 7d515ca d19fbd2)
# and are part of the default stream now: a link removing node 1, modification interactions with three atoms,
# force fields whose modifications lack the termini, -mods selections naming another residue, several from_itp
# fragments in any insertion order, from_itp copies inside a ring


def _params(rng, sect=None):
    """parameter tokens; vermouth files `[ dihedrals ]` lines of function type 2 under impropers, so
    dihedrals get type 1/9 and impropers type 2"""
    if sect == "exclusions":
        return []
    first = {"dihedrals": [1, 9], "impropers": [2]}.get(sect, [1, 2, 9])
    return [str(rng.choice(first))] + [rng.choice(["0.35", "0.47", "120", "180", "4000", "25", "1.5"])
                                             for _ in range(rng.randint(1, 3))]


def gen_ixns(rng, natoms, findings=(), allow_meta=True):
    """0-3 interaction sections with random arities over atoms 0..natoms-1 (distinct keys per section)"""
    ixns = []
    names = [s for s, k in SECTIONS.items() if k <= natoms and (allow_meta or s != "impropers")]
    rng.shuffle(names)
    for sect in names[:rng.randint(0, 3)]:
        seen = set()
        for _ in range(rng.randint(1, 3)):
            atoms = rng.sample(range(natoms), SECTIONS[sect])
            version = 1
            if tuple(atoms) in seen:
                if sect == "dihedrals" and allow_meta and rng.random() < 0.7:
                    version = 1 + sum(1 for i in ixns if i["sect"] == sect and i["atoms"] == atoms)
                elif "dup-key-in-block" not in findings:
                    continue
            seen.add(tuple(atoms))
            meta = {}
            if version != 1:
                meta["version"] = version
            elif allow_meta and sect != "exclusions" and rng.random() < 0.2:
                meta["comment"] = "c%d" % rng.randint(0, 9)
            ixns.append(dict(sect=sect, atoms=atoms, params=_params(rng, sect), meta=meta))
            if sect == "dihedrals" and allow_meta and version == 1 and rng.random() < 0.4:
                # a multi-term dihedral, properly tagged: both terms must survive (distinct keys)
                seen.add(tuple(atoms))
                ixns.append(dict(sect=sect, atoms=list(atoms), params=_params(rng, sect), meta={"version": 2}))
    # group by section (first appearance order), as the parsers' dictionaries do
    order = []
    for i in ixns:
        if i["sect"] not in order:
            order.append(i["sect"])
    return [i for s in order for i in ixns if i["sect"] == s]


def gen_atoms(rng, resname, natoms, resid=1, cg0=1, names=None, with_mass=None):
    names = names or ATOM_NAMES
    atoms, cgrp = [], cg0
    with_mass = rng.random() < 0.8 if with_mass is None else with_mass
    for i in range(natoms):
        if i:
            cgrp += rng.choice([0, 1, 1])
        atoms.append(dict(atomname=names[i], atype=rng.choice(ATYPES), resname=resname, resid=resid, cgrp=cgrp,
                          charge=rng.choice(CHARGES), mass=rng.choice(MASSES) if with_mass else None))
    return atoms


def gen_ff(rng, findings=(), protein=None, multires=None, syntax=None):
    """abstract force field: 1-4 single-residue blocks of 1-6 atoms, optional multi-residue block,
    backbone / override / replace links, N-ter / C-ter (+ extra) modifications"""
    protein = rng.random() < 0.5 if protein is None else protein
    multires = rng.random() < 0.35 if multires is None else multires
    pool = list(PROTEIN_NAMES if protein else POLYMER_NAMES)
    # a force field whose modifications lack (some of) the termini; then mostly with polymer residues around,
    # for which the missing modification must simply not matter
    no_termini = protein and rng.random() < 0.15
    if protein and (no_termini or rng.random() < 0.3):
        pool = pool[:3] + rng.sample(POLYMER_NAMES, 3) if no_termini else pool[:4] + rng.sample(POLYMER_NAMES, 2)
    rng.shuffle(pool)
    blocks = []
    for name in pool[:rng.randint(1, 4)]:
        natoms = rng.randint(1, 6)
        syn = syntax or rng.choice(["ff", "itp"])
        blocks.append(dict(name=name, nrexcl=rng.choice([1, 1, 1, 0, 2, 3]), syntax=syn,
                           atoms=gen_atoms(rng, name, natoms),
                           ixns=gen_ixns(rng, natoms, findings, allow_meta=(syn == "ff")), dangling=[]))
    if "block-resid-not-1" in findings:
        for atom in blocks[0]["atoms"]:
            atom["resid"] = 5
    if rng.random() < 0.6:
        # real force fields mostly use one exclusion distance
        for block in blocks:
            block["nrexcl"] = blocks[0]["nrexcl"]
    if multires:
        nres = rng.randint(2, 3)
        atoms, cg = [], 1
        for r in range(nres):
            part = gen_atoms(rng, "R%d" % (r % 2 + 1), rng.randint(1, 3), resid=r + 1, cg0=cg, with_mass=True)
            cg = part[-1]["cgrp"] + rng.choice([0, 1])
            atoms += part
        syn = syntax or rng.choice(["itp", "itp", "ff"])
        if syn == "ff":
            # .ff blocks key their atoms by name: names must be unique in the whole block
            for i, atom in enumerate(atoms):
                atom["atomname"] = "%s%d" % (atom["atomname"], i)
        ixns = gen_ixns(rng, len(atoms), findings, allow_meta=(syn == "ff"))
        blocks.append(dict(name="MR", nrexcl=blocks[0]["nrexcl"] if rng.random() < 0.8 else rng.choice([0, 1, 2]),
                           syntax=syn, atoms=atoms, ixns=ixns, dangling=[]))
    singles = [b for b in blocks if b["name"] != "MR"]
    links = []
    # backbone link between neighbouring residues, first atom of each block is called BB
    if rng.random() < 0.9:
        ixns = [dict(sect="bonds", atoms=["BB", "+BB"], params=_params(rng))]
        if rng.random() < 0.4:
            ixns.append(dict(sect="angles", atoms=["BB", "+BB", "++BB"], params=_params(rng)))
        names = [b["name"] for b in singles]
        mr = next((b for b in blocks if b["name"] == "MR"), None)
        if mr is not None and mr["syntax"] == "itp":
            # the residues of a multi-residue copy take part in the backbone as well (their first atom is BB)
            names += sorted({a["resname"] for a in mr["atoms"]})
        links.append(dict(kind="backbone", resnames=names, atoms=[], ixns=ixns))
    # a one-residue link that re-defines an interaction of a block (same atoms => same key => override)
    cands = [(b, i) for b in singles if b["syntax"] == "ff" for i in b["ixns"]
             if not i["meta"].get("version") and i["sect"] != "exclusions"]
    if cands and rng.random() < 0.5:
        block, ixn = rng.choice(cands)
        links.append(dict(kind="override", resnames=[block["name"]], atoms=[],
                          ixns=[dict(sect=ixn["sect"], atoms=[block["atoms"][p]["atomname"] for p in ixn["atoms"]],
                                     params=_params(rng, ixn["sect"]))]))
    # a link that replaces an attribute of the atoms it names
    if rng.random() < 0.3:
        links.append(dict(kind="replace", resnames=[b["name"] for b in singles],
                          atoms=[("BB", {"charge": rng.choice([0.75, -0.75])}, {}), ("+BB", {}, {})],
                          ixns=[dict(sect="constraints", atoms=["BB", "+BB"], params=_params(rng))]))
    # a one-residue link that names its residue on SOME of its atoms only (no link-wide resname): the residue-level
    # pattern then fits every residue, and it is the atom that carries the name that keeps the link inside residues
    # of that name — other blocks use the same atom names
    two = [b for b in singles if len(b["atoms"]) >= 2]
    if two and rng.random() < 0.3:
        block = rng.choice(two)
        a0, a1 = block["atoms"][0]["atomname"], block["atoms"][1]["atomname"]
        links.append(dict(kind="partial", resnames=[block["name"]], header=False,
                          # (the attribute it replaces, the charge of the SECOND atom, is one no other link reads or writes)
                          atoms=[(a1, {"charge": rng.choice([0.5, -0.5])}, {"resname": block["name"]}), (a0, {}, {})],
                          ixns=[dict(sect="pairs", atoms=[a0, a1], params=_params(rng, "pairs"))]))
    # a link that SELECTS its atom on an attribute (the charge the block gives it); a `replace` of that attribute
    # by another link must not decide whether this one applies, whatever the order of the definitions
    if rng.random() < 0.35:
        probe = rng.choice(singles)["atoms"][0]["charge"]
        links.append(dict(kind="select", resnames=[b["name"] for b in singles],
                          atoms=[("BB", {}, {"charge": probe}), ("+BB", {}, {})],
                          ixns=[dict(sect="exclusions", atoms=["BB", "+BB"], params=[])],
                          edges=[("BB", "+BB")]))
    # an alternative parameter set behind a [ molmeta ] requirement: the molecules gen_params builds carry no
    # meta data, so such a link is never applicable and nothing of it may be seen
    if rng.random() < 0.3:
        links.append(dict(kind="molmeta", resnames=[b["name"] for b in singles], molmeta=[("stiff", "true")],
                          atoms=[("BB", {"atype": "C2s", "charge": -0.25}, {}), ("+BB", {}, {})],
                          ixns=[dict(sect="bonds", atoms=["BB", "+BB"], params=_params(rng)),
                                dict(sect="angles", atoms=["BB", "+BB", "++BB"], params=_params(rng))]))
    # a ring-closure link: applies only along residue-graph edges tagged linktype=circle
    if rng.random() < 0.35:
        links.append(dict(kind="circle", resnames=[b["name"] for b in singles], atoms=[],
                          ixns=[dict(sect="bonds", atoms=["BB", ">BB"], params=_params(rng))],
                          edges=[("BB", ">BB " + json.dumps({"linktype": "circle"}))]))
    # a one-residue link that renames an atom: modifications applied afterwards go by the NEW name
    big = [b for b in singles if len(b["atoms"]) >= 2 and b["syntax"] == "ff"]
    if big and rng.random() < 0.3:
        block = rng.choice(big)
        links.append(dict(kind="rename", resnames=[block["name"]],
                          atoms=[(block["atoms"][1]["atomname"], {"atomname": "SX"}, {})], ixns=[]))
    # a link guarded by [ patterns ] that also replaces an attribute: where the pattern rejects it,
    # nothing of it may be seen (not its interactions, not its `replace`)
    if rng.random() < 0.3:
        probe = rng.choice(singles)["atoms"][0]["atype"]
        links.append(dict(kind="pattern", resnames=[b["name"] for b in singles],
                          atoms=[("BB", {"mass": rng.choice([77.0, 78.5])}, {}), ("+BB", {}, {})],
                          ixns=[dict(sect="pairs", atoms=["BB", "+BB"], params=_params(rng, "pairs"))],
                          patterns=[["BB", "+BB " + json.dumps({"atype": probe})]],
                          # an explicit edge: a link whose only interactions are `pairs` gets no edge from the
                          # .ff reader (only from a later .itp read, finding link-multiterm-file-order)
                          edges=[("BB", "+BB")]))
    if "link-multiterm-file-order" in findings:
        # a .ff link with two terms on the same atoms and no version tag; reading a polyply .itp AFTERWARDS
        # re-tags them (PolyplyParser.finalize -> treat_link_multiple runs over the whole force field)
        links.append(dict(kind="multiterm", resnames=[b["name"] for b in singles], atoms=[],
                          ixns=[dict(sect="pairs", atoms=["BB", "+BB"], params=_params(rng, "pairs")),
                                dict(sect="pairs", atoms=["BB", "+BB"], params=_params(rng, "pairs") + ["7"])]))
        if not any(b["syntax"] == "itp" for b in blocks):
            blocks[-1]["syntax"] = "itp"
            blocks[-1]["ixns"] = [i for i in blocks[-1]["ixns"] if not i["meta"] and i["sect"] != "impropers"]
        if not any(b["syntax"] == "ff" for b in blocks) and len(blocks) > 1:
            blocks[0]["syntax"] = "ff"
    if "atom-removed-by-link" in findings and rng.random() < 0.8:
        # prefer a two-atom block: its second atom is node 1 when the block comes first
        big = [b for b in singles if len(b["atoms"]) == 2] or [b for b in singles if len(b["atoms"]) >= 2]
        if big:
            block = rng.choice(big)
            last = block["atoms"][-1]["atomname"]
            links.append(dict(kind="remove", resnames=[block["name"]],
                              atoms=[(last, {"atomname": None}, {})], ixns=[],
                              non_edges=[(last, "+BB")]))
            if rng.random() < 0.7:
                # another link that MENTIONS the removed atom next to interactions on atoms that stay (other keys
                # than every other link: the pattern link, which also writes pairs, is dropped)
                links[:] = [l for l in links if l["kind"] not in ("pattern", "multiterm")]
                links.append(dict(kind="mention", resnames=[block["name"]], atoms=[],
                                  ixns=[dict(sect="angles", atoms=[last, "BB", "+BB"], params=_params(rng)),
                                        dict(sect="pairs", atoms=["BB", "+BB"], params=_params(rng, "pairs"))],
                                  edges=[("BB", "+BB")]))
    # dangling interactions of .itp blocks (become links): last atom -- first atom of the next residue
    removing = {name for l in links if l["kind"] == "remove" for name in l["resnames"]}
    for block in singles:
        if block["name"] in removing:
            # the removing link carries `[ non-edges ] last +BB`: a link that bonds exactly these two atoms would
            # make the removal depend on which of the two is applied first (see notes/C13_findings.md, non-edges)
            continue
        if block["syntax"] == "itp" and rng.random() < 0.4:
            n = len(block["atoms"])
            block["dangling"].append(dict(sect="bonds", atoms=[n - 1, n], params=_params(rng), meta={}))
    mods = []
    if protein and (no_termini or rng.random() < 0.85):
        prot_blocks = [b for b in singles if b["name"] in PROTEIN_NAMES]
        two = all(len(b["atoms"]) >= 2 for b in prot_blocks)
        names = ["N-ter", "C-ter"]
        if no_termini:
            names = rng.choice([[], ["N-ter"], ["C-ter"]])
        names += rng.sample(["zwit", "cap", "NH2-ter"], rng.randint(0, 2))
        for name in names:
            atoms = [("BB", {"atype": rng.choice(["Q5", "P6"]), "charge": rng.choice([1.0, -1.0, 0.0])})]
            ixns = []
            if two and rng.random() < 0.5:
                atoms.append(("SC1", rng.choice([{}, {"atype": "X1"}, {"mass": 99.0}])))
                if rng.random() < 0.6:
                    ixns.append(dict(sect=rng.choice(["bonds", "constraints"]), atoms=["BB", "SC1"], params=_params(rng)))
                if rng.random() < 0.3:
                    ixns.append(dict(sect="angles", atoms=["BB", "SC1", "BB"], params=_params(rng)))
            elif rng.random() < 0.2:
                # names an atom that no residue has: must change nothing
                atoms.append(("ZZ", {"atype": "X9"}))
            mods.append(dict(name=name, atoms=atoms, ixns=ixns))
    return dict(blocks=blocks, links=links, mods=mods)


# ------------------------------------------------------------------------------------------------ rendering

def _fmt_num(x):
    return repr(float(x))


def render_block(block):
    """one `[ moleculetype ]` definition in the block's syntax"""
    lines = ["[ moleculetype ]", "%s %d" % (block["name"], block["nrexcl"]), "[ atoms ]"]
    for i, a in enumerate(block["atoms"]):
        line = "%d %s %d %s %s %d %s" % (i + 1, a["atype"], a["resid"], a["resname"], a["atomname"], a["cgrp"],
                                         _fmt_num(a["charge"]))
        if a["mass"] is not None:
            line += " " + _fmt_num(a["mass"])
        lines.append(line)
    sect = None
    itp = block["syntax"] == "itp"
    every = block["ixns"] + (block["dangling"] if itp else [])
    order = []
    for ixn in every:
        if ixn["sect"] not in order:
            order.append(ixn["sect"])
    for sect in order:
        lines.append("[ %s ]" % sect)
        for ixn in every:
            if ixn["sect"] != sect:
                continue
            if itp:
                refs = [str(p + 1) for p in ixn["atoms"]]
            else:
                refs = [block["atoms"][p]["atomname"] for p in ixn["atoms"]]
            if sect == "exclusions" or itp:
                line = " ".join(refs + ixn["params"])
            else:
                line = " ".join(refs + ixn["params"])
            if ixn["meta"] and not itp:
                line += " " + json.dumps(ixn["meta"])
            lines.append(line)
    return "\n".join(lines) + "\n"


def render_link(link):
    lines = ["[ link ]"] + (['resname "%s"' % "|".join(link["resnames"])] if link.get("header", True) else [])
    if link.get("molmeta"):
        lines.append("[ molmeta ]")
        for k, v in link["molmeta"]:
            lines.append("%s %s" % (k, v))
    if link["atoms"]:
        lines.append("[ atoms ]")
        for ref, replace, select in link["atoms"]:
            lines.append("%s %s" % (ref, json.dumps(dict(select, **({"replace": replace} if replace else {})))))
    order = []
    for ixn in link["ixns"]:
        if ixn["sect"] not in order:
            order.append(ixn["sect"])
    for sect in order:
        lines.append("[ %s ]" % sect)
        for ixn in link["ixns"]:
            if ixn["sect"] == sect:
                lines.append(" ".join(ixn["atoms"] + ixn["params"]))
    if link.get("edges"):
        lines.append("[ edges ]")
        for a, b in link["edges"]:
            lines.append("%s %s" % (a, b))
    if link.get("patterns"):
        lines.append("[ patterns ]")
        for parts in link["patterns"]:
            lines.append(" ".join(parts))
    if link.get("non_edges"):
        lines.append("[ non-edges ]")
        for a, b in link["non_edges"]:
            lines.append("%s %s" % (a, b))
    return "\n".join(lines) + "\n"


def render_mod(mod):
    lines = ["[ modification ]", mod["name"], "[ atoms ]"]
    for name, replace in mod["atoms"]:
        lines.append("%s %s" % (name, json.dumps({"replace": replace} if replace else {})))
    order = []
    for ixn in mod["ixns"]:
        if ixn["sect"] not in order:
            order.append(ixn["sect"])
    for sect in order:
        lines.append("[ %s ]" % sect)
        for ixn in mod["ixns"]:
            if ixn["sect"] == sect:
                lines.append(" ".join(ixn["atoms"] + ixn["params"]))
    return "\n".join(lines) + "\n"


def files_of(ff, rng=None, split=True):
    """[(extension, [chunk, ...])]: .itp-syntax blocks go to .itp files, the rest (blocks, links, mods)
    to .ff files; with `rng` the definitions are spread over 1-2 files per syntax."""
    ff_chunks = [render_block(b) for b in ff["blocks"] if b["syntax"] == "ff"]
    ff_chunks += [render_link(l) for l in ff["links"]] + [render_mod(m) for m in ff["mods"]]
    itp_chunks = [render_block(b) for b in ff["blocks"] if b["syntax"] == "itp"]
    files = []
    for ext, chunks in (("ff", ff_chunks), ("itp", itp_chunks)):
        if not chunks:
            continue
        if split and rng is not None and len(chunks) > 1 and rng.random() < 0.4:
            cut = rng.randint(1, len(chunks) - 1)
            files += [(ext, chunks[:cut]), (ext, chunks[cut:])]
        else:
            files.append((ext, chunks))
    return files


def file_text(chunks):
    return "\n".join(chunks)


# ------------------------------------------------------------------------------------------------ graphs

def gen_graph(rng, ff, findings=(), nmin=3, nmax=12, shape=None, start=None, keys=None, shuffle=None):
    """random connected residue graph over the single-residue blocks of `ff`, with 0-2 runs of `from_itp`
    nodes when the force field has a multi-residue block"""
    singles = [b for b in ff["blocks"] if b["name"] != "MR"]
    multi = next((b for b in ff["blocks"] if b["name"] == "MR"), None)
    shape = shape or rng.choice(["linear", "linear", "branched", "cyclic"])
    starts = RESID_STARTS + ([0] if "resid-start-0" in findings else [])
    start = rng.choice(starts) if start is None else start
    n = rng.randint(nmin, nmax)
    keys = keys or rng.choice(["0..n-1", "offset", "scattered", "strings", "perm"])
    shuffle = (rng.random() < 0.6) if shuffle is None else shuffle
    # residue sequence: positions 0..n-1 (resid = start + position)
    seq = [[rng.choice(singles)["name"], None] for _ in range(n)]
    runs = []
    if multi is not None:
        res_names = []
        for atom in multi["atoms"]:
            if len(res_names) < atom["resid"]:
                res_names.append(atom["resname"])
        m = len(res_names)
        ncopies = rng.choice([1, 1, 2, 2, 3])
        # two separate runs (two fragments) instead of one run of 2 copies
        separate = rng.random() < 0.3 and ncopies >= 2
        need = ncopies * m + (1 if separate else 0)
        if need <= n:
            pos = rng.randint(0, n - need)
            if pos == 0 and start != 1 and "multires-first-resid-not-1" not in findings:
                if need + 1 <= n:
                    pos = 1
                else:
                    start = 1
            at = pos
            for copy in range(ncopies):
                if separate and copy == 1:
                    at += 1
                run = list(range(at, at + m))
                for j, p in enumerate(run):
                    seq[p] = [res_names[j], "MR"]
                if copy == 0 or (separate and copy == 1):
                    runs.append(list(run))
                else:
                    runs[-1] += run
                at += m
    # edges over positions
    edges = []
    if shape in ("linear", "cyclic"):
        edges = [[i, i + 1] for i in range(n - 1)]
    else:
        in_run = {p for run in runs for p in run}
        for i in range(1, n):
            # keep runs of from_itp residues chained, branch elsewhere
            if i in in_run and (i - 1) in in_run and any(i in run and i - 1 in run for run in runs):
                edges.append([i - 1, i])
            else:
                edges.append([rng.randrange(i), i])
    if shape == "cyclic" and n >= 3:
        in_run = {p for run in runs for p in run}
        if in_run and rng.random() < 0.4:
            # close the ring among residues outside (after or before) the from_itp runs only
            free = [p for p in range(n) if p not in in_run]
            lo_side = [p for p in free if p < min(in_run)]
            hi_side = [p for p in free if p > max(in_run)]
            side = hi_side if len(hi_side) >= 3 else lo_side if len(lo_side) >= 3 else None
            if side:
                edges.append([side[0], side[-1]])
            else:
                shape = "linear"
        else:
            j = rng.randint(2, n - 1)
            i = rng.randint(0, j - 2)
            edges.append([i, j])
    # keys
    if keys == "0..n-1":
        klist = list(range(n))
    elif keys == "offset":
        off = rng.choice([1, 5, 28, 100])
        klist = list(range(off, off + n))
    elif keys == "perm":
        klist = list(range(n))
        rng.shuffle(klist)
    elif keys == "scattered":
        klist = rng.sample(range(0, 400), n)
    else:
        klist = ["n%03d" % k for k in rng.sample(range(0, 400), n)]
    order = list(range(n))
    if shuffle:
        rng.shuffle(order)
    nodes = [[klist[p], start + p, seq[p][0], seq[p][1]] for p in order]
    elist = []
    closing = edges[-1] if shape == "cyclic" and len(edges) >= n else None
    for edge in edges:
        u, v = edge
        label = None
        if edge is closing and rng.random() < 0.5:
            label = "circle"                                   # ring closure tagged as the .ig reader tags it
        elif rng.random() < 0.04:
            label = rng.choice(["circle", "special"])          # any edge of a .json graph may carry a linktype
        if rng.random() < 0.5:
            u, v = v, u
        elist.append([klist[u], klist[v]] + ([label] if label else []))
    if shuffle:
        rng.shuffle(elist)
    return dict(nodes=nodes, edges=elist, shape=shape, start=start, keys=keys, shuffled=bool(shuffle),
                nruns=len(runs), run_residues=sum(len(r) for r in runs))


def gen_mods(rng, ff, graph, findings=()):
    """`-mods` selection: None = default (protein termini), or explicit [[resspec, modname], ...]"""
    if not ff["mods"] or rng.random() < 0.5:
        return None
    out = []
    nodes = graph["nodes"]
    for _ in range(rng.randint(1, 3)):
        key, resid, resname, from_itp = rng.choice(nodes)
        if rng.random() < 0.25:
            resname = rng.choice(PROTEIN_NAMES)          # a selection that names another residue: must change nothing
        spec = "%s#%d" % (resname, resid) if resname[-1].isdigit() else "%s%d" % (resname, resid)
        out.append([spec, rng.choice(ff["mods"])["name"]])
    return out


def to_json_graph(graph):
    """node-link JSON as read by polyply's `.json` sequence reader"""
    nodes = []
    for key, resid, resname, from_itp in graph["nodes"]:
        node = {"id": key, "resname": resname, "resid": resid}
        if from_itp:
            node["from_itp"] = from_itp
        nodes.append(node)
    edges = [dict({"source": e[0], "target": e[1]}, **({"linktype": e[2]} if len(e) > 2 else {})) for e in graph["edges"]]
    # networkx >= 3.4 reads the edge list from "edges", older versions from "links": give both
    return {"directed": False, "multigraph": False, "graph": {}, "nodes": nodes, "edges": edges, "links": edges}
