"""Generator, renderer and real-code runner shared by the C02 / C10 / C14 checks.

An *abstract case* is a JSON-able dict

    blocks : [ {name, nrexcl, syntax ("ff"|"itp"), atoms:[{name, atype, cg, extra:{..}}],
                ixns:[[section, [0-based atom indices, >= n means "atom of a following residue"], [params], {meta}]]} ]
    links  : [ {atoms:[[key, {json attrs}]], ixns:[[section, [atom tokens], [params], {meta}]],
                edges:[[k1, k2, linktype|None]], nonedges:[[k1, k2]], patterns:[[[key, {attrs}], ..]]} ]
    graph  : {nodes:[[key, resid, resname]], edges:[[u, v, linktype|None]]}

`render` turns it into the text of a polyply `.ff` file and a polyply `.itp` file; `build` reads those
with the repository's own parsers (`load_ff_library`) and makes the real `MetaMolecule`; `dump_input`
dumps the state after `MapToMolecule.run_molecule` (the INPUT of the Lean link model) and `dump_output`
the observable state after `ApplyLinks.run_molecule`.

Value encoding (attribute values travel as tagged strings so that Python equality of the values the
generator produces coincides with string equality): str -> "s:..", int -> "i:..", float -> "f:..",
None -> "~", bool -> "b:..", anything else -> "o:repr".
"""
import json
import os
import pathlib

ATOM_POOL = ["BB", "SC1", "SC2", "C1", "C2", "N1"]
ATYPES = ["P1", "P2", "Q1"]
TAGS = ["t1", "t2"]
SECTION_NATOMS = {"bonds": 2, "angles": 3, "constraints": 2, "dihedrals": 4, "pairs": 2, "exclusions": 2}


# ------------------------------------------------------------------------------------------ encoding

def enc(value):
    if value is None:
        return "~"
    if isinstance(value, bool):
        return "b:%s" % value
    if isinstance(value, str):
        return "s:" + value
    if isinstance(value, int):
        return "i:%d" % value
    if isinstance(value, float):
        return "f:%r" % value
    try:
        import numpy
        if isinstance(value, numpy.integer):
            return "i:%d" % int(value)
        if isinstance(value, numpy.floating):
            return "f:%r" % float(value)
    except ImportError:  # pragma: no cover
        pass
    return "o:%r" % (value,)


def enc_attrs(attrs, skip=()):
    """molecule-side attribute dict -> [[key, encoded value]] in dict order"""
    return [[str(k), enc(v)] for k, v in attrs.items() if k not in skip]


def enc_tmpl(value):
    """link-side (template) value: equality or Choice"""
    import vermouth.molecule
    if isinstance(value, vermouth.molecule.Choice):
        return {"choice": [enc(v) for v in value.value]}
    if isinstance(value, vermouth.molecule.LinkPredicate):
        raise Unsupported("link predicate %r" % (value,))
    return {"eq": enc(value)}


def enc_tattrs(attrs, skip=()):
    return [[str(k), enc_tmpl(v)] for k, v in attrs.items() if k not in skip]


def enc_order(order):
    """vermouth order token -> ["num", n] | ["rel", +-k] | ["star", k]"""
    if isinstance(order, bool):
        raise Unsupported("boolean order")
    if isinstance(order, int):
        return ["num", int(order)]
    if isinstance(order, str) and order and len(set(order)) == 1 and order[0] in "><*":
        if order[0] == ">":
            return ["rel", len(order)]
        if order[0] == "<":
            return ["rel", -len(order)]
        return ["star", len(order)]
    raise Unsupported("order %r" % (order,))


class Unsupported(Exception):
    """the real objects contain something the model does not cover (counted, never a verdict)"""


# ------------------------------------------------------------------------------------------ rendering

def _jattrs(attrs):
    return json.dumps(attrs, separators=(", ", ": "))


def render(case):
    """-> dict(ff=text or None, itp=text or None)"""
    ff_lines, itp_lines = [], []
    for block in case["blocks"]:
        natoms = len(block["atoms"])
        if block.get("syntax", "ff") == "ff":
            out = ff_lines
            out += ["[ moleculetype ]", "%s %d" % (block["name"], block["nrexcl"]), "[ atoms ]"]
            for idx, atom in enumerate(block["atoms"]):
                line = "%d %s 1 %s %s %d %s %s" % (idx + 1, atom["atype"], block["name"], atom["name"], atom.get("cg", 1),
                                                   atom.get("charge", "0.0"), atom.get("mass", "45.0"))
                if atom.get("extra"):
                    line += " " + _jattrs(atom["extra"])
                out.append(line)
            last = None
            for section, atoms, params, meta in block["ixns"]:
                if section != last:
                    out.append("[ %s ]" % section)
                    last = section
                if any(a >= natoms for a in atoms):
                    raise ValueError(".ff blocks cannot hold dangling interactions")
                line = " ".join([block["atoms"][a]["name"] for a in atoms] + list(params))
                if meta:
                    line += " " + _jattrs(meta)
                out.append(line)
        else:
            out = itp_lines
            out += ["[ moleculetype ]", "%s %d" % (block["name"], block["nrexcl"]), "[ atoms ]"]
            for idx, atom in enumerate(block["atoms"]):
                out.append("%d %s %d %s %s %d %s %s" % (idx + 1, atom["atype"], atom.get("resid", 1), atom.get("resname", block["name"]),
                                                        atom["name"], atom.get("cg", 1), atom.get("charge", "0.0"), atom.get("mass", "45.0")))
            # `section_order` (optional): the directives of the block in another order — the lines of one section
            # keep their order; the block is the same definition
            ixns = block["ixns"]
            if block.get("section_order"):
                rank = {name: i for i, name in enumerate(block["section_order"])}
                ixns = sorted(ixns, key=lambda item: rank.get(item[0], len(rank)))       # stable
            last = None
            for section, atoms, params, meta in ixns:
                if section != last:
                    out.append("[ %s ]" % section)
                    last = section
                out.append(" ".join([str(a + 1) for a in atoms] + list(params)))
    for link in case.get("links", []):
        out = ff_lines
        out.append("[ link ]")
        for key, value in link.get("header", {}).items():
            out.append("%s %s" % (key, json.dumps(value)))
        if link.get("molmeta"):
            out.append("[ molmeta ]")
            for key, value in link["molmeta"].items():
                out.append("%s %s" % (key, json.dumps(value)))
        # the sections of one link definition, by default in the order the shipped libraries use; a case may ask for
        # another order (`section_order`: a permutation of these names) — the definition is the same
        sections = {}
        # `inline_atoms`: the attributes of a link atom are written behind its FIRST mention in an interaction line
        # instead of in an `[ atoms ]` section (both spellings are in the shipped libraries); atoms that no
        # interaction mentions stay in `[ atoms ]`
        inline = {}
        if link.get("inline_atoms") and not any(" " in a for _s, ats, _p, _m in link.get("ixns", []) for a in ats):
            mentioned = {a for _s, ats, _p, _m in link.get("ixns", []) for a in ats}
            inline = {key: attrs for key, attrs in link.get("atoms", []) if key in mentioned and attrs}
        listed = [(key, attrs) for key, attrs in link.get("atoms", []) if key not in inline]
        if listed:
            sec = sections.setdefault("atoms", [])
            sec.append("[ atoms ]")
            for key, attrs in listed:
                sec.append("%s %s" % (key, _jattrs(attrs)))
        last = None
        todo_inline = dict(inline)
        for section, atoms, params, meta in link.get("ixns", []):
            sec = sections.setdefault("ixns", [])
            if section != last:
                sec.append("[ %s ]" % section)
                last = section
            atoms = [("%s %s" % (a, _jattrs(todo_inline.pop(a)))) if a in todo_inline else a for a in atoms]
            line = " ".join(list(atoms) + (["--"] if section not in SECTION_NATOMS else []) + list(params))
            if meta:
                line += " " + _jattrs(meta)
            sec.append(line)
        if link.get("edges"):
            sec = sections.setdefault("edges", [])
            sec.append("[ edges ]")
            for k1, k2, linktype in link["edges"]:
                sec.append("%s %s%s" % (k1, k2, "" if linktype is None else " " + _jattrs({"linktype": linktype})))
        if link.get("nonedges"):
            sec = sections.setdefault("nonedges", [])
            sec.append("[ non-edges ]")
            for entry in link["nonedges"]:
                k1, k2 = entry[0], entry[1]
                extra = entry[2] if len(entry) > 2 and entry[2] else None
                sec.append("%s %s%s" % (k1, k2, "" if not extra else " " + _jattrs(extra)))
        if link.get("patterns"):
            sec = sections.setdefault("patterns", [])
            sec.append("[ patterns ]")
            for pattern in link["patterns"]:
                sec.append(" ".join("%s %s" % (key, _jattrs(attrs)) for key, attrs in pattern))
        # `[ atoms ]` always comes first (vermouth rejects an `[ atoms ]` line for an atom that exists already)
        order = [n for n in (link.get("section_order") or []) if n != "atoms"]
        for name in ["atoms"] + order + [n for n in ("ixns", "edges", "nonedges", "patterns") if n not in order]:
            out += sections.get(name, [])
    return dict(ff="\n".join(ff_lines) + "\n" if ff_lines else None,
                itp="\n".join(itp_lines) + "\n" if itp_lines else None)


# ------------------------------------------------------------------------------------------ real objects

def build(case, tmpdir, order=("ff", "itp")):
    """read the rendered files with the repository's parsers and build the real MetaMolecule"""
    import networkx as nx
    from polyply.src.load_library import load_ff_library
    from polyply.src.meta_molecule import MetaMolecule
    texts = render(case)
    paths = []
    for ext in order:
        if texts[ext]:
            path = os.path.join(tmpdir, "case." + ext)
            with open(path, "w") as handle:
                handle.write(texts[ext])
            paths.append(pathlib.Path(path))
    force_field = load_ff_library("verif", None, paths)
    graph = nx.Graph()
    from_itp = {int(k): v for k, v in case["graph"].get("from_itp", {}).items()}
    for key, resid, resname in case["graph"]["nodes"]:
        if key in from_itp:
            graph.add_node(key, resid=resid, resname=resname, from_itp=from_itp[key])
        else:
            graph.add_node(key, resid=resid, resname=resname)
    for u, v, linktype in case["graph"]["edges"]:
        if linktype is None:
            graph.add_edge(u, v)
        else:
            graph.add_edge(u, v, linktype=linktype)
    meta = MetaMolecule(graph, force_field=force_field, mol_name="verif")
    return force_field, meta


def dump_link(link, allow_explicit=False):
    atoms = []
    for key in link.nodes:
        attrs = link.nodes[key]
        if "order" not in attrs:
            raise Unsupported("link atom without order")
        replace = attrs.get("replace", {}) or {}
        removes = ("atomname" in replace) and replace["atomname"] is None
        atoms.append(dict(key=str(key), order=enc_order(attrs["order"]),
                          attrs=enc_tattrs(attrs, skip=("order", "replace")),
                          replace=enc_attrs(replace), removes=bool(removes)))
    ixns = []
    for section, lst in link.interactions.items():
        for ixn in lst:
            if any(callable(p) for p in ixn.parameters):
                raise Unsupported("parameter effector")
            version = ixn.meta.get("version", 1)
            if isinstance(version, bool) or not isinstance(version, int) or version < 0:
                raise Unsupported("version %r" % (version,))
            ixns.append(dict(section=section, atoms=[str(a) for a in ixn.atoms], version=version,
                             params=[str(p) for p in ixn.parameters], meta=sorted(enc_attrs(ixn.meta))))
    edges = [[str(u), str(v), (enc(data["linktype"]) if "linktype" in data else None)] for u, v, data in link.edges(data=True)]
    nonedges = []
    for from_key, to_attrs in link.non_edges:
        order = to_attrs.get("order", 0)
        if isinstance(order, bool) or not isinstance(order, int):
            raise Unsupported("non-edge with a non-numeric order")
        nonedges.append(dict(frm=str(from_key), order=int(order),
                             attrs=enc_tattrs(to_attrs, skip=("order", "replace", "modifications"))))
    patterns = [[dict(key=str(key), attrs=enc_tattrs(attrs, skip=("order", "replace", "modifications")))
                 for key, attrs in pattern] for pattern in link.patterns]
    if link.molecule_meta.get("by_atom_id") and not allow_explicit:
        raise Unsupported("explicit (by_atom_id) link")
    return dict(atoms=atoms, ixns=ixns, edges=edges, nonedges=nonedges, patterns=patterns,
                molmeta=enc_tattrs(link.molecule_meta))


def dump_ixns(molecule):
    out = []
    for section, lst in molecule.interactions.items():
        for ixn in lst:
            version = ixn.meta.get("version", 1)
            if isinstance(version, bool) or not isinstance(version, int) or version < 0:
                raise Unsupported("version %r" % (version,))
            out.append(dict(section=section, atoms=[int(a) for a in ixn.atoms], version=version,
                            params=[str(p) for p in ixn.parameters], meta=sorted(enc_attrs(ixn.meta))))
    return out


def dump_xixns(links):
    """the interactions of the `by_atom_id` links in the order `run_molecule` visits them (links in definition
    order, sections in dict order), atoms as the tokens written in the file"""
    out = []
    for link in links:
        if not link.molecule_meta.get("by_atom_id"):
            continue
        for section, lst in link.interactions.items():
            for ixn in lst:
                if any(callable(p) for p in ixn.parameters):
                    raise Unsupported("parameter effector")
                out.append(dict(section=section, atoms=[str(a) for a in ixn.atoms],
                                params=[str(p) for p in ixn.parameters], meta=sorted(enc_attrs(ixn.meta))))
    return out


def dump_input(meta, explicit=False):
    """state after MapToMolecule.run_molecule: what ApplyLinks.run_molecule reads.  With `explicit` the
    `by_atom_id` links are accepted (they stay in `links`: the double loop visits them too) and their
    interactions are listed in `xixns`."""
    molecule = meta.molecule
    atoms = [dict(key=int(k), resid=int(molecule.nodes[k]["resid"]), attrs=enc_attrs(molecule.nodes[k]))
             for k in molecule.nodes]
    edges = [[int(u), int(v)] for u, v in molecule.edges]
    res = []
    for key in meta.nodes:
        node = meta.nodes[key]
        frag = node["graph"]
        res.append(dict(key=int(key), resid=int(node["resid"]),
                        attrs=enc_attrs(node, skip=("graph",)),
                        frag=[dict(key=int(a), attrs=enc_attrs(frag.nodes[a])) for a in frag.nodes],
                        fedges=[[int(u), int(v)] for u, v in frag.edges]))
    redges = [[int(u), int(v), (enc(data["linktype"]) if "linktype" in data else None)]
              for u, v, data in meta.edges(data=True)]
    links = [dump_link(link, allow_explicit=explicit) for link in meta.force_field.links]
    out = dict(atoms=atoms, edges=edges, ixns=dump_ixns(molecule), molmeta=enc_attrs(molecule.meta),
               nrexcl=int(molecule.nrexcl), res=res, redges=redges, links=links)
    if explicit:
        out["xixns"] = dump_xixns(meta.force_field.links)
    return out


def canon_output(atoms, edges, ixns):
    return dict(atoms=sorted([a["key"], sorted(a["attrs"])] for a in atoms),
                edges=sorted(sorted(e) for e in edges),
                ixns=sorted([i["section"], i["atoms"], i["version"], i["params"], i["meta"]] for i in ixns))


def dump_output(meta):
    """observable state after ApplyLinks.run_molecule (canonical: sorted)"""
    molecule = meta.molecule
    atoms = [dict(key=int(k), attrs=enc_attrs(molecule.nodes[k])) for k in molecule.nodes]
    edges = [[int(u), int(v)] for u, v in molecule.edges]
    return canon_output(atoms, edges, dump_ixns(molecule))


def dump_resgraph(meta):
    """residue graph with fragments (input of the C10 model)"""
    res = []
    for key in meta.nodes:
        node = meta.nodes[key]
        frag = node["graph"]
        res.append(dict(key=int(key), resid=int(node["resid"]), resname=str(node.get("resname")),
                        frag=[int(a) for a in frag.nodes], fedges=[[int(u), int(v)] for u, v in frag.edges]))
    return dict(res=res, redges=[[int(u), int(v)] for u, v in meta.edges])


# ------------------------------------------------------------------------------------------ generators

def gen_blocks(rng, nblocks, syntax, nrexcl_choices=(1,), dangling=False, max_atoms=4):
    """random blocks; atoms of one block are bonded in a chain (plus extras); shared atom names across
    blocks so that links with resname choices find their atoms in several blocks"""
    blocks = []
    names = ["A", "B", "C", "D"][:nblocks]
    for name in names:
        natoms = rng.randint(1, max_atoms)
        atom_names = rng.sample(ATOM_POOL, natoms)
        if rng.random() < 0.7:
            atom_names[0] = "BB"
            atom_names = list(dict.fromkeys(atom_names))
            natoms = len(atom_names)
        atoms = []
        for aname in atom_names:
            atom = dict(name=aname, atype=rng.choice(ATYPES), cg=1)
            if syntax == "ff" and rng.random() < 0.3:
                atom["extra"] = {"tag": rng.choice(TAGS)}
            atoms.append(atom)
        ixns = []
        for i in range(natoms - 1):
            ixns.append(["bonds", [i, i + 1], ["1", "0.%d" % rng.randint(10, 60), str(rng.randint(100, 900))], {}])
        if natoms >= 3 and rng.random() < 0.6:
            ixns.append(["angles", [0, 1, 2], ["1", str(rng.randint(90, 180)), str(rng.randint(10, 90))], {}])
        if natoms >= 4 and rng.random() < 0.5:
            ixns.append(["dihedrals", [0, 1, 2, 3], ["1", str(rng.randint(0, 180)), str(rng.randint(1, 9)), "1"], {}])
        if natoms >= 3 and rng.random() < 0.3:
            ixns.append(["constraints", [0, 2], ["1", "0.%d" % rng.randint(10, 60)], {}])
        block = dict(name=name, nrexcl=rng.choice(list(nrexcl_choices)), syntax=syntax, atoms=atoms, ixns=ixns)
        if dangling and syntax == "itp":
            add_dangling(rng, block)
        blocks.append(block)
    return blocks


def add_dangling(rng, block):
    """dangling interactions (indices >= n refer to the following residues), grouped per section"""
    n = len(block["atoms"])
    extra = []
    roll = rng.random()
    span = 2 if roll < 0.25 else 1
    # bond last -> first of next
    extra.append(["bonds", [n - 1, n], ["1", "0.%d" % rng.randint(10, 60), str(rng.randint(100, 900))], {}])
    if rng.random() < 0.6:
        a = [max(n - 2, 0), n - 1, n] if n >= 2 else [0, n, 2 * n]
        if len(set(a)) == 3 and (span == 2 or max(a) < 2 * n):
            extra.append(["angles", a, ["1", str(rng.randint(90, 180)), str(rng.randint(10, 90))], {}])
    if span == 2 and rng.random() < 0.8:
        extra.append(["angles", [n - 1, n, 2 * n], ["1", str(rng.randint(90, 180)), str(rng.randint(10, 90))], {}])
        if rng.random() < 0.5:
            # (every dangling interaction keeps an atom of its own residue, and consecutive atoms lie in the same
            # or in consecutive residues: the residue pattern of the resulting link is then a path)
            extra.append(["dihedrals", [n - 1, n, 2 * n - 1, 2 * n], ["1", str(rng.randint(0, 180)), str(rng.randint(1, 9)), "3"], {}])
    if rng.random() < 0.4 and n >= 2:
        atoms = [n - 2, n - 1, n, n + 1] if n >= 2 else None
        if atoms and max(atoms) < 2 * n:
            # a multi-term dihedral: two lines on the same atoms
            extra.append(["dihedrals", atoms, ["9", "0", str(rng.randint(1, 9)), "1"], {}])
            extra.append(["dihedrals", atoms, ["9", "180", str(rng.randint(1, 9)), "2"], {}])
    # every other section kind on its own (each becomes a link of its own: pairs-only, exclusions-only, constraints-only):
    # one atom of the residue itself, one atom of the next residue
    for section, params, prob in (("pairs", ["1"], 0.3), ("exclusions", [], 0.2), ("constraints", ["1", "0.%d" % rng.randint(10, 60)], 0.2)):
        if rng.random() < prob:
            atoms = [rng.randrange(n), n + rng.randrange(n)]
            if not any(x[1] == atoms for x in extra):
                extra.append([section, atoms, list(params), {}])
    # sections must stay grouped: append each new interaction after the last one of its section
    ixns = list(block["ixns"])
    for item in extra:
        pos = max([i for i, x in enumerate(ixns) if x[0] == item[0]], default=None)
        if pos is None:
            ixns.append(item)
        else:
            ixns.insert(pos + 1, item)
    block["ixns"] = ixns


def gen_graph(rng, nres, resnames, labelled=0.15, permute=0.35, ring=0.3, start=1):
    """random connected residue graph: a random tree (often a path), optionally one ring-closing edge;
    resids contiguous from `start`, either along the construction order or permuted"""
    keys = list(range(nres))
    edges = []
    path_like = rng.random() < 0.5
    for i in range(1, nres):
        j = i - 1 if path_like else rng.randrange(i)
        edges.append([j, i])
    if nres >= 3 and rng.random() < ring:
        for _ in range(5):
            u, v = sorted(rng.sample(keys, 2))
            if [u, v] not in edges:
                edges.append([u, v])
                break
    resids = list(range(start, start + nres))
    if rng.random() < permute:
        rng.shuffle(resids)
    nodes = [[k, resids[k], rng.choice(resnames)] for k in keys]
    ledges = [[u, v, (rng.choice(["br", "x"]) if rng.random() < labelled else None)] for u, v in edges]
    order = list(range(nres))
    if rng.random() < 0.3:
        rng.shuffle(order)
    return dict(nodes=[nodes[i] for i in order], edges=ledges)


def rekey_graph(rng, graph):
    """the same residue graph under other node keys: an offset, gaps, a permutation of 0..n-1, reversed key order
    (keys stay integers: the link model keys residues by Nat); resids, names, edge labels untouched"""
    keys = [k for k, _r, _n in graph["nodes"]]
    style = rng.choice(["offset", "gaps", "perm", "reversed"])
    if style == "offset":
        ren = {k: k + 28 for k in keys}
    elif style == "gaps":
        ren = {k: 3 * k + 5 for k in keys}
    elif style == "perm":
        new = list(keys)
        rng.shuffle(new)
        ren = dict(zip(keys, new))
    else:
        ren = {k: max(keys) - k for k in keys}
    out = dict(graph, nodes=[[ren[k], r, n] for k, r, n in graph["nodes"]],
               edges=[[ren[u], ren[v], lt] for u, v, lt in graph["edges"]])
    if "from_itp" in graph:
        out["from_itp"] = {str(ren[int(k)]): v for k, v in graph["from_itp"].items()}
    return out


def _order_token(kind, delta, rank):
    """prefix of a link atom key for a residue at resid offset `delta` from the reference residue"""
    if kind == "num":
        return ("+" * delta) if delta > 0 else ("-" * (-delta))
    if kind == "rel":
        return (">" * rank) if delta > 0 else ("<" * rank)
    return "*" * rank


def gen_link_from_graph(rng, case, perturb=0.35):
    """derive a link from a connected set of residues of the case's graph (so that it usually matches),
    then perturb it with some probability (wrong order / resname / attribute, extra vetoes)"""
    graph = case["graph"]
    blocks = {b["name"]: b for b in case["blocks"]}
    adj = {}
    for u, v, _ in graph["edges"]:
        adj.setdefault(u, set()).add(v)
        adj.setdefault(v, set()).add(u)
    info = {k: (resid, resname) for k, resid, resname in graph["nodes"]}
    k = rng.choice([1, 2, 2, 2, 3, 3, 4])
    start = rng.choice(list(info))
    chosen = [start]
    while len(chosen) < k:
        frontier = sorted(set().union(*[adj.get(c, set()) for c in chosen]) - set(chosen))
        if not frontier:
            break
        chosen.append(rng.choice(frontier))
    ref = chosen[0]
    ref_resid = info[ref][0]
    # order tokens
    prefixes = {ref: ""}
    style = rng.choice(["num", "num", "rel", "star", "mixed"])
    ups = sorted([c for c in chosen[1:] if info[c][0] > ref_resid], key=lambda c: info[c][0])
    downs = sorted([c for c in chosen[1:] if info[c][0] < ref_resid], key=lambda c: -info[c][0])
    star_rank = 0
    for group in (ups, downs):
        for rank, c in enumerate(group, start=1):
            delta = info[c][0] - ref_resid
            kind = style if style != "mixed" else rng.choice(["num", "rel", "star"])
            if kind == "num" and abs(delta) > 3:
                kind = "rel"
            if kind == "star":
                star_rank += 1
                prefixes[c] = "*" * star_rank
            else:
                prefixes[c] = _order_token(kind, delta, rank)
    if len(set(prefixes.values())) != len(prefixes):
        return None
    # atoms: one or two per residue, taken from the residue's block
    atoms, per_res = [], {}
    for c in chosen:
        block = blocks[info[c][1]]
        picks = rng.sample(block["atoms"], min(len(block["atoms"]), rng.choice([1, 1, 2])))
        per_res[c] = []
        for atom in picks:
            key = prefixes[c] + atom["name"]
            attrs = {}
            roll = rng.random()
            if roll < 0.6:
                attrs["resname"] = info[c][1]
            elif roll < 0.85:
                others = [n for n in blocks if n != info[c][1]]
                attrs["resname"] = "|".join(sorted([info[c][1]] + rng.sample(others, min(1, len(others))))) if others else info[c][1]
            # else: no resname on this atom
            if rng.random() < 0.25:
                attrs["atype"] = atom["atype"]
            if atom.get("extra") and rng.random() < 0.5:
                attrs.update(atom["extra"])
            if rng.random() < 0.12:
                attrs["replace"] = {"atype": rng.choice(["Z1", "Z2"])}
            elif rng.random() < 0.05:
                attrs["replace"] = {"tag": rng.choice(["r1", "r2"])}
            atoms.append([key, attrs])
            per_res[c].append(key)
    if not any("resname" in a[1] for a in atoms) and not case.get("allow_no_resname"):
        # (a link none of whose atoms names a residue is never considered by the code: withheld shape
        # `link-without-resname-skipped`, see notes/C02_findings.md)
        atoms[0][1]["resname"] = info[chosen[0]][1]
    # interactions: bonds along the chosen tree edges, an angle, sometimes pairs / exclusions
    ixns = []
    tree_edges = [(u, v) for i, u in enumerate(chosen) for v in chosen[i + 1:] if v in adj.get(u, set())]
    for u, v in tree_edges:
        section = rng.choice(["bonds", "bonds", "constraints"])
        params = ["1", "0.%d" % rng.randint(10, 60), str(rng.randint(100, 900))] if section == "bonds" else ["1", "0.%d" % rng.randint(10, 60)]
        meta = {"version": rng.choice([1, 2])} if rng.random() < 0.1 else {}
        ixns.append([section, [rng.choice(per_res[u]), rng.choice(per_res[v])], params, meta])
    keys = [a[0] for a in atoms]
    if len(keys) >= 3 and rng.random() < 0.5 and tree_edges:
        u, v = rng.choice(tree_edges)
        third = [x for x in keys if x not in (per_res[u][0], per_res[v][0])]
        if third and (third[0] in per_res[u] or third[0] in per_res[v]):
            first = third[0]
            mid = per_res[u][0] if first in per_res[u] else per_res[v][0]
            last = per_res[v][0] if first in per_res[u] else per_res[u][0]
            ixns.append(["angles", [first, mid, last], ["1", str(rng.randint(90, 180)), str(rng.randint(10, 90))], {}])
    if len(chosen) >= 2 and rng.random() < 0.2:
        u, v = rng.sample(chosen, 2)
        if (u, v) in tree_edges or (v, u) in tree_edges:
            section = rng.choice(["pairs", "exclusions"])
            ixns.append([section, [per_res[u][0], per_res[v][0]], (["1"] if section == "pairs" else []), {}])
    if len(chosen) == 1 and len(keys) >= 2:
        ixns.append(["bonds", keys[:2], ["1", "0.%d" % rng.randint(10, 60), str(rng.randint(100, 900))], {}])
    if not ixns and len(chosen) > 1:
        return None
    link = dict(atoms=atoms, ixns=ixns, edges=[], nonedges=[], patterns=[])
    # edge labels of the chosen residue edges
    for u, v, linktype in graph["edges"]:
        if u in chosen and v in chosen and linktype is not None and rng.random() < 0.8:
            link["edges"].append([per_res[u][0], per_res[v][0], linktype])
    if tree_edges and rng.random() < 0.08:
        u, v = rng.choice(tree_edges)
        link["edges"].append([per_res[u][0], per_res[v][0], rng.choice(["br", "x"])])
    # vetoes
    if rng.random() < 0.2 and len(chosen) >= 2:
        u = rng.choice(chosen)
        target_block = rng.choice(list(blocks.values()))
        link["nonedges"].append([per_res[u][0], rng.choice(["+", "-", ""]) + rng.choice(target_block["atoms"])["name"]])
    if rng.random() < 0.2:
        npat = rng.choice([1, 2])
        for _ in range(npat):
            pat = []
            for key, _attrs in rng.sample(atoms, min(len(atoms), rng.choice([1, 2]))):
                pat.append([key, {"atype": rng.choice(ATYPES + ["Z1"])}])
            link["patterns"].append(pat)
    # perturbations
    if rng.random() < perturb:
        what = rng.choice(["resname", "order", "attr", "atomname", "remove"])
        if what == "resname":
            key, attrs = rng.choice(atoms)
            attrs["resname"] = rng.choice(list(blocks))
        elif what == "attr":
            key, attrs = rng.choice(atoms)
            attrs["atype"] = rng.choice(ATYPES)
        elif what == "atomname":
            key, attrs = rng.choice(atoms)
            attrs["atomname"] = "|".join(rng.sample(ATOM_POOL, 2))
            # the parser re-derives the atom name from the key at every mention: repeat the choice there
            for ixn in ixns:
                ixn[1] = [a if a != key else "%s %s" % (a, _jattrs({"atomname": attrs["atomname"]})) for a in ixn[1]]
        elif what == "remove" and len(atoms) >= 2:
            # schedule the removal of an atom that takes part in no interaction of this link
            used = {a for _, ats, _, _ in ixns for a in ats}
            free = [a for a in atoms if a[0] not in used]
            if free:
                rng.choice(free)[1]["replace"] = {"atomname": None}
        elif what == "order" and len(chosen) >= 2:
            # rename the prefix of one non-reference residue consistently
            c = rng.choice(chosen[1:])
            old = prefixes[c]
            new = rng.choice(["+", "++", "-", ">", ">>", "<", "*", "**"])
            if new != old and new not in prefixes.values():
                ren = {k: new + k[len(old):] for k in per_res[c]}
                if not (set(ren.values()) & set(keys)):
                    for atom in atoms:
                        atom[0] = ren.get(atom[0], atom[0])
                    for ixn in ixns:
                        ixn[1] = [ren.get(a, a) for a in ixn[1]]
                    for edge in link["edges"]:
                        edge[0], edge[1] = ren.get(edge[0], edge[0]), ren.get(edge[1], edge[1])
                    for ne in link["nonedges"]:
                        ne[0] = ren.get(ne[0], ne[0])
                    for pat in link["patterns"]:
                        for item in pat:
                            item[0] = ren.get(item[0], item[0])
    # an extra link atom that schedules a block atom for removal (`replace: {atomname: null}`)
    if rng.random() < 0.1:
        c = rng.choice(chosen)
        block = blocks[info[c][1]]
        free = [a for a in block["atoms"] if prefixes[c] + a["name"] not in [k for k, _ in atoms]]
        if free:
            atom = rng.choice(free)
            atoms.append([prefixes[c] + atom["name"], {"resname": info[c][1], "replace": {"atomname": None}}])
    return link


def gen_case(rng, syntax=None, max_res=7, removal=True, allow_no_resname=False):
    """one random C02 case"""
    syntax = syntax or rng.choice(["ff", "ff", "itp", "mixed"])
    nblocks = rng.choice([1, 2, 2, 3])
    if syntax == "mixed":
        blocks = gen_blocks(rng, nblocks, "ff")
        for block in blocks:
            if rng.random() < 0.5:
                block["syntax"] = "itp"
                for atom in block["atoms"]:
                    atom.pop("extra", None)
                if rng.random() < 0.7:
                    add_dangling(rng, block)
    else:
        blocks = gen_blocks(rng, nblocks, syntax, dangling=(syntax == "itp"))
    nres = rng.randint(1, max_res) if rng.random() < 0.1 else rng.randint(2, max_res)
    if rng.random() < 0.2:
        # residue names that contain each other (A, AB, ABC): a name must be compared as a whole, never as a prefix
        nested = ["A", "AB", "ABC", "ABCD"]
        for block, name in zip(blocks, nested):
            block["name"] = name
    graph = gen_graph(rng, nres, [b["name"] for b in blocks], start=rng.choice([1, 1, 1, 3, 7, 28]))
    if rng.random() < 0.3:
        graph = rekey_graph(rng, graph)
    case = dict(blocks=blocks, links=[], graph=graph)
    if allow_no_resname:
        case["allow_no_resname"] = True
    nlinks = rng.choice([0, 1, 2, 2, 3, 4]) if syntax != "itp" else rng.choice([0, 0, 1, 2])
    for _ in range(nlinks):
        link = gen_link_from_graph(rng, case)
        if link is None:
            continue
        if not removal:
            for _key, attrs in link["atoms"]:
                if attrs.get("replace", {}).get("atomname", 0) is None:
                    attrs.pop("replace")
        case["links"].append(link)
    # a link that only relabels a residue type in the written topology: `replace: {resname: …}` on every atom of the block
    # (the pre-filter, the residue-level match and the atom match keep seeing the names the molecule was mapped with)
    if rng.random() < 0.08 and syntax != "itp":
        block = rng.choice(blocks)
        relabel = dict(atoms=[[a["name"], {"resname": block["name"], "replace": {"resname": block["name"] + "X"}}] for a in block["atoms"]],
                       ixns=[], edges=[], nonedges=[], patterns=[])
        case["links"].insert(rng.randint(0, len(case["links"])), relabel)
    # "defined last wins": sometimes repeat a link with other parameters
    if case["links"] and rng.random() < 0.25:
        import copy
        dup = copy.deepcopy(rng.choice(case["links"]))
        for ixn in dup["ixns"]:
            ixn[2] = [p if i == 0 else p + "9" for i, p in enumerate(ixn[2])]
        case["links"].append(dup)
    return case
