"""C08 — a topology is read as its preprocessed, flattened equivalent.

Property (properties.jsonl, fixed): "Reading a .top file yields the same defaults, atom types, type tables,
defines, molecule types and molecule list as reading the single file obtained by textually inlining every
#include (resolved relative to the including file) whose enclosing #ifdef/#ifndef/#else condition holds for
the macros defined (outside conditionals) before that point, independent of comments, blank lines and
whitespace. The molecule list is the [molecules] section expanded in order with the stated counts, each
instance an independent copy of its molecule type, and an #error aborts reading exactly when its condition
is active."

Implementation side: include trees are written to a temporary directory tree and read by the REAL
`Topology.from_gmx_topfile` (absolute path, or `chdir` + bare file name = the "no working directory" path);
the only interposition is a wrapper around `polyply.src.top_parser.read_itp` that records the line lists the
director hands to vermouth.  Model side: `TopParse.readTop` (per-file director, pragmas, sections, include
recursion, finalize).  Specification side: `TopParse.flatten` (the flattened file of the statement, computed
by Lean from the raw files) — the ORACLE writes that single file, reads it with the real reader and
compares the two real Topology objects (the relation in the property); `#error` iff; `[molecules]` expansion;
independence of the instances; whitespace / comment invariance (metamorphic).

Known-finding candidates are generated only with `VERIF_C08_FINDINGS=1` (see notes/C08_findings.md); every
such case carries a stable `shape` id.
"""
import collections
import copy
import json
import os
import shutil
import tempfile

import common

RULE = ("random include trees in a temporary directory tree (1-9 files, nested directories, relative paths "
        "with ./ and dir/../, repeated includes, top file in the root or in a sub directory, read by absolute "
        "path or after chdir): force-field part with [defaults]/[atomtypes]/[nonbond_params]/five kinds of type "
        "tables, #define before/after use, #ifdef/#ifndef/#else/#endif around includes, type lines and #error "
        "(active and inactive), molecule part with 1-5 moleculetypes over several files (conditionals inside "
        "moleculetypes, the same relative include name in sibling directories resolving to different files), "
        "[molecules] with repeated names and counts 0-3, random blank lines / comments / star comments / blanks and "
        "tabs before, inside and after every kind of line incl. #include/#define/#ifdef/#error; plus a malformed stream (missing file, unclosed or stray conditionals, "
        "nested conditionals, unknown pragma/section, misformatted header, unknown molecule, bad count, "
        "Buckingham, include cycle).  distinct = hash of the file tree; a case is non-trivial when it has >= 1 include.  "
        "Single raw lines: `tokenize` (fuzzed lines vs split_comments + str.split) and `dispatch` (the model's classify vs the "
        "REAL TOPDirector.dispatch / is_pragma / is_star_comment / is_section_header and the section name the real "
        "parse_header computes): EXHAUSTIVE over all strings of length <= 5 (thorough <= 6) over the alphabet "
        "{a # * [ ] ; blank tab}, plus hand-written and random longer lines with \\n \\r \\x0b \\x0c, upper case, inner blanks/tabs")

FINDINGS = True
FINDING_SHAPES = ["tab-inside-section-header", "include-inside-moleculetype", "section-across-files", "molecules-in-included-file",
                  "define-inside-conditional", "conditional-after-moleculetype", "instance-parameter-lists-aliased"]
TYPE_POOL = ["CT", "CA", "N", "O", "HC", "P", "S"]
TYPE_SECTIONS = {"bondtypes": 2, "angletypes": 3, "dihedraltypes": 4, "constrainttypes": 2, "pairtypes": 2}


def num(rng):
    return repr(float(common.dyadic(rng, 1 / 64, 4, 6)))


# ------------------------------------------------------------------------------------------------ generator

class Tree:
    """files (path -> list of text lines without newline) under construction"""

    def __init__(self, rng):
        self.rng = rng
        self.files = {}
        self.atypes = rng.sample(TYPE_POOL, rng.randint(2, 4))
        self.defined = []          # macros defined so far (outside conditionals, textual order)
        self.undefined = ["NOPE", "UNSET"]
        self.molnames = []
        self.units = {}            # moleculetype name -> its text lines
        self.counter = 0
        self.expect_abort = False
        self.rich = False          # extra stream: moleculetypes with several residues (unit_rich_molecule)

    def fresh(self, directory, stem):
        self.counter += 1
        return (directory + "/" if directory else "") + "%s%d.itp" % (stem, self.counter)

    def include_line(self, frm, to):
        rng = self.rng
        rel = os.path.relpath(to, os.path.dirname(frm) or ".")
        roll = rng.random()
        if roll < 0.2:
            rel = "./" + rel
        elif roll < 0.35 and os.path.dirname(to) and not rel.startswith(".."):
            first = rel.split("/")[0]
            if "/" in rel:
                rel = first + "/../" + rel            # dir/../dir/file : the directory exists
        quote = '"' if rng.random() < 0.85 else ""
        sep = rng.choice([" ", " ", " ", "  ", "\t", "   ", " \t"])
        return "#include%s%s%s%s" % (sep, quote, rel, quote)

    # ---- units
    def unit_defaults(self):
        rng = self.rng
        line = rng.choice(["1 1", "1 2 yes", "1 1 yes 1.0 1.0", "1 3 no 0.5 0.8333", "1 2 no"])
        if self.rich and rng.random() < 0.25:
            line = rng.choice(["1", "1 1 no 1.0 1.0 0.5", "1 2 yes 0.5"])      # 1, 6 and 4 tokens (zip stops at the shorter)
        return ["[ defaults ]", line]

    def unit_atomtypes(self):
        rng = self.rng
        out = ["[ atomtypes ]"]
        for name in self.atypes:
            form = rng.random()
            if form < 0.5:
                out.append("%s 12.011 0.0 A %s %s" % (name, num(rng), num(rng)))
            elif form < 0.8:
                out.append("%s 6 12.011 0.0 A %s %s" % (name, num(rng), num(rng)))
            else:
                out.append("%s B%s 6 12.011 -0.5 A %s %s" % (name, name, num(rng), num(rng)))
        return out

    def unit_nonbond(self):
        rng = self.rng
        out = ["[ nonbond_params ]"]
        for _ in range(rng.randint(1, 3)):
            out.append("%s %s 1 %s %s" % (rng.choice(self.atypes), rng.choice(self.atypes), num(rng), num(rng)))
        return out

    def unit_types(self):
        rng = self.rng
        sec = rng.choice(list(TYPE_SECTIONS))
        out = ["[ %s ]" % sec]
        for _ in range(rng.randint(1, 4)):
            key = [rng.choice(self.atypes + (["X"] if sec == "dihedraltypes" else [])) for _ in range(TYPE_SECTIONS[sec])]
            params = [rng.choice(["1", "2", "9"])] + [num(rng) for _ in range(rng.randint(1, 3))]
            out.append(" ".join(key + params))
            if rng.random() < 0.25:
                out.append(" ".join(key + params[:1] + [num(rng), num(rng), "2"]))
        return out

    def unit_param(self):
        roll = self.rng.random()
        if roll < 0.15:
            return self.unit_defaults()
        if roll < 0.35:
            return self.unit_atomtypes()
        if roll < 0.5:
            return self.unit_nonbond()
        return self.unit_types()

    def unit_molecule(self, inner_conditionals=True):
        rng = self.rng
        name = "MOL%d" % (len(self.molnames) + 1)
        self.molnames.append(name)
        natoms = rng.randint(2, 5)
        out = ["[ moleculetype ]", "%s %d" % (name, rng.randint(1, 3)), "[ atoms ]"]
        for i in range(natoms):
            out.append("%d %s %d RES A%d %d %s 12.011" % (i + 1, rng.choice(self.atypes), 1 + i // 3, i + 1, i + 1,
                                                         rng.choice(["0.0", "0.5", "-0.25"])))
        secs = rng.sample(["bonds", "angles", "dihedrals", "constraints", "pairs", "exclusions", "position_restraints"],
                          rng.randint(1, 4))
        for sec in secs:
            arity = {"bonds": 2, "angles": 3, "dihedrals": 4, "constraints": 2, "pairs": 2, "exclusions": 2,
                     "position_restraints": 1}[sec]
            if arity > natoms:
                continue
            cond = inner_conditionals and rng.random() < 0.25
            if cond:
                out.append("#ifdef %s" % rng.choice(["FLEXIBLE", "POSRES"]))
            out.append("[ %s ]" % sec)
            for _ in range(rng.randint(1, 3)):
                atoms = rng.sample(range(1, natoms + 1), arity)
                params = [] if sec == "exclusions" else ["1"] + [num(rng) for _ in range(rng.randint(0, 2))]
                out.append(" ".join([str(a) for a in atoms] + params))
            if cond:
                if rng.random() < 0.4:
                    out.append("#else")
                    out.append("[ %s ]" % sec)
                    out.append(" ".join([str(a) for a in rng.sample(range(1, natoms + 1), arity)] + ["1"]))
                out.append("#endif")
        self.units[name] = list(out)
        return out

    def unit_rich_molecule(self):
        """a moleculetype with several residues: residue numbering from 1 / with an offset / from 0 / with gaps / NOT
        monotonic / repeated (di-block 1 2 3 1 2 3), residue names containing each other, the same residue name with
        different atom names; linear, branched and cyclic residue graphs; inter-residue edges from [ bonds ] or
        [ constraints ]; the interaction sections in random order"""
        rng = self.rng
        name = "MOL%d" % (len(self.molnames) + 1)
        self.molnames.append(name)
        nres = rng.randint(2, 6)
        scheme = rng.choice(["one", "offset", "zero", "gaps", "nonmonotonic", "repeated"])
        if scheme == "one":
            resids = list(range(1, nres + 1))
        elif scheme == "offset":
            start = rng.choice([7, 28, 99999])
            resids = list(range(start, start + nres))
        elif scheme == "zero":
            resids = list(range(0, nres))
        elif scheme == "gaps":
            resids, cur = [], rng.choice([1, 3])
            for _ in range(nres):
                resids.append(cur)
                cur += rng.randint(1, 4)
        elif scheme == "nonmonotonic":
            half = nres // 2
            resids = list(range(half + 1, nres + 1)) + list(range(1, half + 1))
        else:
            half = (nres + 1) // 2
            resids = (list(range(1, half + 1)) * 2)[:nres]
        pool = rng.choice([["RES"], ["PEO", "PE", "PEOA"], ["A", "B"], ["PS", "PS", "PSS"]])
        resnames = [rng.choice(pool) for _ in range(nres)]
        if scheme == "repeated" and rng.random() < 0.6:
            # the two copies of the numbering carry different residue names (a di-block copolymer)
            resnames = [pool[0] if i < (nres + 1) // 2 else pool[-1] + "X" for i in range(nres)]
        out = ["[ moleculetype ]", "%s %d" % (name, rng.randint(1, 3)), "[ atoms ]"]
        first_atom, atom = [], 0
        intra = []
        for res in range(nres):
            size = rng.randint(1, 3)
            first_atom.append(atom + 1)
            names = rng.choice([["BB", "SC1", "SC2"], ["C1", "C2", "C3"], ["BB", "SC1", "SC2"]])
            for k in range(size):
                atom += 1
                out.append("%d %s %d %s %s %d %s 12.011" % (atom, rng.choice(self.atypes), resids[res], resnames[res],
                                                            names[k], atom, rng.choice(["0.0", "0.5", "-0.25"])))
                if k:
                    intra.append((atom - 1, atom))
        natoms = atom
        inter = [(first_atom[i], first_atom[i + 1]) for i in range(nres - 1)]
        if nres > 2 and rng.random() < 0.35:
            inter.append((first_atom[-1], first_atom[0]))                      # a ring of residues
        if nres > 3 and rng.random() < 0.35:
            inter.append((first_atom[0], first_atom[rng.randint(2, nres - 1)]))  # a branch / second ring
        if nres > 2 and rng.random() < 0.15:
            inter.pop(rng.randrange(nres - 1))                                 # two fragments
        bonds, constraints = list(intra), []
        for pair in inter:
            (constraints if rng.random() < 0.3 else bonds).append(pair)
        sections = []
        if bonds:
            sections.append(["[ bonds ]"] + ["%d %d 1 %s %s" % (a, b, num(rng), num(rng)) for a, b in bonds])
        if constraints:
            sections.append(["[ constraints ]"] + ["%d %d 1 %s" % (a, b, num(rng)) for a, b in constraints])
        if natoms >= 3 and rng.random() < 0.5:
            sections.append(["[ angles ]"] + ["%s 1 %s %s" % (" ".join(str(a) for a in rng.sample(range(1, natoms + 1), 3)),
                                                             num(rng), num(rng)) for _ in range(rng.randint(1, 2))])
        if rng.random() < 0.3:
            sections.append(["[ exclusions ]", " ".join(str(a) for a in rng.sample(range(1, natoms + 1), 2))])
        if rng.random() < 0.3:
            sections.append(["[ position_restraints ]", "%d 1 %s %s %s" % (rng.randint(1, natoms), num(rng), num(rng), num(rng))])
        rng.shuffle(sections)
        for sec in sections:
            out += sec
        self.units[name] = list(out)
        return out

    def deep_chain(self, frm, depth):
        """a chain of `depth` files, each including the next by a relative path that changes the directory"""
        rng = self.rng
        self.counter += 1
        dirs = ["deep%d" % self.counter, "deep%d/a" % self.counter, "deep%d/a/b" % self.counter, "common"]
        paths = ["%s/chain%d_%d.itp" % (rng.choice(dirs), self.counter, i) for i in range(depth)]
        for i, path in enumerate(paths):
            lines = self.unit_types() if rng.random() < 0.6 else self.define_line()
            if i + 1 < depth:
                lines = lines + [self.include_line(path, paths[i + 1])] if rng.random() < 0.5 else \
                    [self.include_line(path, paths[i + 1])] + lines
            self.files[path] = lines
        return [self.include_line(frm, paths[0])]

    # ---- files
    def param_file(self, path, depth, simple):
        """a force-field file: no moleculetypes.  `simple` = no #define and no conditionals anywhere below
        (such a file may be included from inside a conditional)"""
        rng = self.rng
        lines = []
        if rng.random() < 0.3:
            lines.append("* star comment of %s" % path)
        for _ in range(rng.randint(1, 4)):
            roll = rng.random()
            if roll < 0.5:
                lines += self.unit_param()
            elif roll < 0.62 and not simple:
                lines += self.define_line()
            elif roll < 0.8 and not simple:
                lines += self.conditional_block(path, depth)
            elif depth < 3:
                lines += self.include_of_param(path, depth, simple)
            else:
                lines += self.unit_param()
        self.files[path] = lines

    def define_line(self):
        rng = self.rng
        tag = rng.choice(["FLEXIBLE", "POSRES", "HEAVY_H", "gb_1", "gd_2", "USE_X"])
        if rng.random() < 0.5:
            line = "#define %s" % tag
        else:
            line = "#define %s %s" % (tag, " ".join(num(rng) for _ in range(rng.randint(1, 2))))
        if tag not in self.defined:
            self.defined.append(tag)
        return [line]

    def include_of_param(self, frm, depth, simple):
        rng = self.rng
        simple_files = [p for p, l in self.files.items() if "simple" in p and l is not None]
        if simple_files and rng.random() < 0.25:
            return [self.include_line(frm, rng.choice(simple_files))]      # repeated include
        directory = rng.choice(["ff", "ff/sub", "ff/sub/deep", "common"])
        child = self.fresh(directory, "simple" if simple else "par")
        self.files[child] = None                                           # reserve (no cycles)
        defined_before = list(self.defined)
        self.param_file(child, depth + 1, simple)
        del defined_before
        return [self.include_line(frm, child)]

    def conditional_block(self, path, depth):
        """#ifdef/#ifndef TAG ... [#else ...] #endif with includes of simple files, type lines, #error"""
        rng = self.rng
        kind = rng.choice(["#ifdef", "#ifndef"])
        tag = rng.choice(self.defined + self.undefined) if self.defined else rng.choice(self.undefined)
        first_active = (tag in self.defined) == (kind == "#ifdef")
        out = ["%s %s" % (kind, tag)]
        out += self.conditional_body(path, depth, first_active)
        if rng.random() < 0.45:
            out.append("#else")
            out += self.conditional_body(path, depth, not first_active)
        out.append("#endif")
        return out

    def conditional_body(self, path, depth, active):
        rng = self.rng
        out = []
        for _ in range(rng.randint(1, 2)):
            roll = rng.random()
            if roll < 0.5 and depth < 3:
                out += self.include_of_param(path, depth, True)
            elif roll < 0.7:
                out += self.unit_types()
            else:
                if active and rng.random() < 0.85:
                    continue                       # mostly keep the tree readable
                out.append("#error this force field needs %s" % rng.choice(["water", "a ring", "nothing"]))
                if active:
                    self.expect_abort = True
        return out

    def sibling_molecule_files(self, frm):
        """two or three directories, each with `mol.itp` that includes ITS OWN `local.itp` by the same relative name"""
        rng = self.rng
        self.counter += 1
        out = []
        for tag in rng.sample(["A", "B", "C"], rng.randint(2, 3)):
            directory = "sib%d/mol%s" % (self.counter, tag)
            local = directory + "/local.itp"
            self.files[local] = self.unit_types() + (self.unit_nonbond() if rng.random() < 0.4 else [])
            path = directory + "/mol.itp"
            lines = ['#include "local.itp"'] if rng.random() < 0.7 else ['#include "./local.itp"']
            lines += self.unit_molecule()
            self.files[path] = lines
            out.append(self.include_line(frm, path))
        return out

    def molecule_file(self, path, depth):
        rng = self.rng
        lines = []
        if rng.random() < 0.3:
            lines += self.unit_types()
        for _ in range(rng.randint(1, 2)):
            lines += self.unit_rich_molecule() if self.rich and rng.random() < 0.7 else self.unit_molecule()
            if depth < 2 and rng.random() < 0.3:
                child = self.fresh(rng.choice(["mols", "mols/water", "common"]), "mol")
                self.molecule_file(child, depth + 1)
                lines.append(self.include_line(path, child))
                if rng.random() < 0.5:
                    lines += self.unit_types()     # the includer resumes with a (top-level) header
        self.files[path] = lines


DECOY_LINES = ["; a decoy: a file of the same name that no #include of the tree resolves to", "#define DECOY_WAS_READ",
               "[ atomtypes ]", "DECOY 1.0 0.0 A 0.5 0.5"]


def include_paths(lines):
    """the paths as written on the #include lines of a file"""
    out = []
    for line in lines:
        toks = line.split(";")[0].split()
        if len(toks) >= 2 and toks[0] == "#include":
            out.append(toks[1].strip('"'))
    return out


def add_tree_decoys(files, top):
    """files INSIDE the tree that no include resolves to: for every include path as written in a file of directory D,
    the same relative path below the root and below the directory of the top file (where a reader that resolves
    relative to the process working directory / the top file instead of the including file would look)"""
    topdir = os.path.dirname(top)
    added = []
    for path, lines in list(files.items()):
        for written in include_paths(lines):
            for base in ("", topdir):
                cand = os.path.normpath(os.path.join(base, written))
                if cand.startswith("..") or os.path.isabs(cand) or cand in files:
                    continue
                files[cand] = list(DECOY_LINES)
                added.append(cand)
    return added


def gen_tree(rng, malformed=None, shape=None, opts=None):
    """`opts` (extra stream only, all choices from the DERIVED rng handed in): rich (several residues per
    moleculetype), sysinc (the [ molecules ] section lives in an included file), bigcount, deep (include depth),
    decoys (same-named files inside the tree that no include resolves to)"""
    opts = opts or {}
    tree = Tree(rng)
    tree.rich = bool(opts.get("rich"))
    top = rng.choice(["system.top", "system.top", "run/system.top", "run/a/system.top"])
    lines = []
    # force-field part (conditionals live here)
    for _ in range(rng.randint(0, 2)):
        lines += tree.define_line()
    ff = "ff/forcefield.itp"
    tree.files[ff] = None
    tree.param_file(ff, 1, False)
    lines.append(tree.include_line(top, ff))
    if opts.get("deep"):
        lines += tree.deep_chain(top, opts["deep"])
    for _ in range(rng.randint(0, 2)):
        roll = rng.random()
        if roll < 0.4:
            lines += tree.conditional_block(top, 1)
        elif roll < 0.7:
            lines += tree.unit_param()
        else:
            lines += tree.define_line()
    # molecule part (no conditionals outside moleculetypes)
    inline_top = []
    for _ in range(rng.randint(1, 3)):
        if rng.random() < 0.3:
            known = len(tree.molnames)
            lines += tree.unit_rich_molecule() if tree.rich and rng.random() < 0.7 else tree.unit_molecule()
            inline_top += tree.molnames[known:]
        else:
            child = tree.fresh(rng.choice(["mols", "mols/lipids", ""]), "mol")
            tree.molecule_file(child, 1)
            lines.append(tree.include_line(top, child))
    if rng.random() < 0.35:
        lines += tree.sibling_molecule_files(top)
    if not tree.molnames:
        lines += tree.unit_molecule()
        inline_top += tree.molnames[-1:]
    counts = [0, 1, 2, 3, 7, 21, 25] if opts.get("bigcount") else [0, 1, 1, 2, 3]
    layout = None
    if opts.get("sysinc"):
        # the [ molecules ] section lives in an INCLUDED file.  The real reader expands it when that file ends: every
        # molecule type it names must have been READ by then, i.e. be defined in a file whose reading has ended (any
        # included file before this point) or in the file that holds the section — not in the part of the top file
        # collected so far (that is the known shape `molecules-in-included-file`).
        layout = rng.choice(["system+molecules", "molecules-only", "own-moleculetype", "own-include"])
        sysfile = tree.fresh(rng.choice(["", "sub", "mols", "run/sys"]), "system")
        sys_lines = []
        if layout == "own-moleculetype":
            sys_lines += tree.unit_rich_molecule() if rng.random() < 0.7 else tree.unit_molecule(inner_conditionals=False)
        elif layout == "own-include":
            child = tree.fresh(rng.choice(["mols", "sub/more"]), "mol")
            tree.rich = True
            tree.molecule_file(child, 2)
            sys_lines.append(tree.include_line(sysfile, child))
        usable = [name for name in tree.molnames if name not in inline_top]
        if not usable:
            child = tree.fresh("mols", "mol")
            tree.molecule_file(child, 2)
            lines.append(tree.include_line(top, child))
            usable = [name for name in tree.molnames if name not in inline_top]
        molecules = [[rng.choice(usable), rng.choice(counts)] for _ in range(rng.randint(1, 5))]
        if layout == "molecules-only":
            lines += ["[ system ]", "a generated system"]
        else:
            sys_lines += ["[ system ]", "a generated system"]
        sys_lines.append("[ molecules ]")
        sys_lines += ["%s %d" % (name, count) for name, count in molecules]
        if len(molecules) > 1 and rng.random() < 0.25:
            sys_lines.insert(len(sys_lines) - rng.randint(1, len(molecules) - 1), "[ molecules ]")   # the header twice
        tree.files[sysfile] = sys_lines
        lines.append(tree.include_line(top, sysfile))
    else:
        lines += ["[ system ]", "a generated system"]
        molecules = [[rng.choice(tree.molnames), rng.choice(counts)] for _ in range(rng.randint(1, 5))]
        lines.append("[ molecules ]")
        for name, count in molecules:
            lines.append("%s %d" % (name, count))
        if opts and len(molecules) > 1 and rng.random() < 0.25:
            lines.insert(len(lines) - rng.randint(1, len(molecules) - 1), "[ molecules ]")           # the header twice
    tree.files[top] = lines
    case = dict(files={p: list(l) for p, l in tree.files.items()}, top=top, molecules=molecules, valid=True,
                units=tree.units,
                malformed=malformed, shape=shape, expect_abort=tree.expect_abort, chdir=rng.random() < 0.4)
    if opts:
        case["extra"] = dict(opts, layout=layout)
        if layout:
            case["molfile"] = sysfile          # the file that holds the [ molecules ] section
    if malformed:
        apply_malformed(rng, case, malformed)
    if shape:
        apply_shape(rng, case, tree, shape)
    if opts.get("decoys") and not malformed:
        case["decoys"] = add_tree_decoys(case["files"], top)
    return case


def apply_malformed(rng, case, kind):
    case["valid"] = False
    files, top = case["files"], case["top"]
    victim = rng.choice(sorted(files))
    if kind == "missing-file":
        files[top].insert(0, '#include "does/not/exist.itp"')
    elif kind == "missing-file-inactive":
        files[top][0:0] = ["#ifdef NEVER_DEFINED_TAG", '#include "does/not/exist.itp"', "#endif"]
        case["valid"] = True
    elif kind == "unclosed-conditional":
        files[victim].insert(0, "#ifdef FLEXIBLE")
    elif kind == "stray-endif":
        files[victim].insert(0, "#endif")
    elif kind == "stray-else":
        files[victim].insert(0, "#else")
    elif kind == "nested-conditional":
        files[victim][0:0] = ["#ifdef A1", "#ifdef A2", "#endif", "#endif"]
    elif kind == "unknown-pragma":
        files[victim].insert(0, "#undef FLEXIBLE")
    elif kind == "unknown-section":
        files[top][0:0] = ["[ cmap_what ]", "1 2 3"]
    elif kind == "bad-header":
        files[top].insert(0, "[ atomtypes")
    elif kind == "unknown-molecule":
        files[case.get("molfile", top)].append("GHOST 2")
    elif kind == "bad-count":
        files[case.get("molfile", top)].append("%s many" % case["molecules"][0][0])
    elif kind == "buckingham":
        files[top][0:0] = ["[ defaults ]", "2 1"]
    elif kind == "cycle":
        files[top].insert(0, '#include "%s"' % os.path.basename(top))
    elif kind == "bad-number":
        files[top][0:0] = ["[ atomtypes ]", "QQ 12.0 0.0 A abc 0.1"]
    elif kind == "define-without-tag":
        files[victim].insert(0, "#define")
    elif kind == "include-without-path":
        files[victim].insert(0, "#include")
    elif kind == "molecules-three-tokens":
        files[case.get("molfile", top)].append("%s 1 2" % case["molecules"][0][0])
    elif kind == "molecules-one-token":
        files[case.get("molfile", top)].append(case["molecules"][0][0])
    elif kind == "atomtype-too-long":
        files[top][0:0] = ["[ atomtypes ]", "QQ BQ 6 12.0 0.0 A 0.5 0.1 7"]
    elif kind == "negative-count":
        # range(0, -2) is empty: the line is legal and adds nothing
        files[case.get("molfile", top)].append("%s -2" % case["molecules"][0][0])
        case["molecules"] = case["molecules"] + [[case["molecules"][0][0], 0]]
        case["valid"] = True


def apply_shape(rng, case, tree, shape):
    """known-finding candidates (notes/C08_findings.md); each is a tree the property quantifies over"""
    files, top = case["files"], case["top"]
    case["valid"] = True
    atype = tree.atypes[0]
    mol = ["[ moleculetype ]", "POSMOL 1", "[ atoms ]", "1 %s 1 RES A1 1 0.0 12.0" % atype, "2 %s 1 RES A2 2 0.0 12.0" % atype,
           "[ bonds ]", "1 2 1 0.1 1000"]
    idx = files[top].index("[ system ]")
    if shape == "include-inside-moleculetype":
        defined = rng.random() < 0.5
        files["posre.itp" if "/" not in top else os.path.dirname(top) + "/posre.itp"] = ["[ position_restraints ]", "1 1 1000 1000 1000"]
        files[top][idx:idx] = mol + ["#ifdef POSRES_X", '#include "posre.itp"', "#endif"]
        if defined:
            files[top].insert(0, "#define POSRES_X")
    elif shape == "section-across-files":
        d = os.path.dirname(top)
        files[(d + "/" if d else "") + "more_types.itp"] = ["%s %s 1 0.125 1000.0" % (atype, atype)]
        files[top][idx:idx] = ["[ bondtypes ]", '#include "more_types.itp"']
    elif shape == "molecules-in-included-file":
        # NARROWED: a [ molecules ] section in an included file is legal and read like the flattened file when it is
        # the only one and every molecule type it names has been read by the end of that file (generated by the extra
        # stream, option `sysinc`, WITHOUT a shape tag).  The known shape is only what really fails on the clean tree:
        import random
        d = os.path.dirname(top)
        variant = random.Random("c08-shape|" + json.dumps(case["molecules"])).choice(["several-files", "type-after-section"])
        case["variant"] = variant
        if variant == "several-files":
            # (1) several files carry [ molecules ]: the included one is expanded FIRST and every director counts from 0
            name = case["molecules"][0][0]
            files[(d + "/" if d else "") + "mols_list.itp"] = ["[ molecules ]", "%s 2" % name]
            files[top].append('#include "mols_list.itp"')
        else:
            # (2) the molecule type is defined in the including file (collected, not yet read) BEFORE the include
            # that holds the section: KeyError
            del files[top][files[top].index("[ molecules ]"):]
            files[top][idx:idx] = mol
            files[(d + "/" if d else "") + "mols_list.itp"] = ["[ molecules ]", "POSMOL 2"]
            files[top].append('#include "mols_list.itp"')
            case["molecules"] = [["POSMOL", 2]]
    elif shape == "define-inside-conditional":
        files[top][0:0] = ["#ifdef NEVER_DEFINED_TAG", "#define HIDDEN_TAG", "#endif", "#ifdef HIDDEN_TAG",
                           "#error HIDDEN_TAG must not be defined", "#endif"]
    elif shape == "conditional-after-moleculetype":
        files[top][idx:idx] = mol + ["[ system ]", "title", "#ifdef NEVER_DEFINED_TAG", "#error not for this system", "#endif"]
    elif shape == "tab-inside-section-header":
        files[top][idx:idx] = ["[\tbondtypes\t]", "%s %s 1 0.125 1000.0" % (atype, atype)]
        case["noise_free"] = True
    elif shape == "instance-parameter-lists-aliased":
        files[top][idx:idx] = mol
        files[top].append("POSMOL 2")
        case["molecules"] = case["molecules"] + [["POSMOL", 2]]


def noisy(rng, lines):
    """the same file with blank lines, comments and extra whitespace"""
    out = []
    for line in lines:
        if rng.random() < 0.2:
            out.append(rng.choice(["", "   ", "; a comment line", "\t; indented comment", "* a star comment"]))
        toks = line.split()
        if not toks:
            text = line
        elif line.startswith("["):
            # only blanks inside the brackets: the reader strips '[', ']' and ' ' (a tab there is the finding
            # `tab-inside-section-header`)
            text = rng.choice(["", " ", "\t"]) + rng.choice([" ", "  ", ""]).join(toks)
        else:
            text = rng.choice(["", " ", "\t", "   "]) + rng.choice([" ", "  ", "\t", " \t "]).join(toks)
        if rng.random() < 0.3:
            text += rng.choice(["  ", "\t", " \t ", " ; trailing comment", "\t; c", ";x"])
        out.append(text)
    return out


# ------------------------------------------------------------------------------------------------ real code

def canon_val(val):
    if isinstance(val, bool) or val is None or isinstance(val, str):
        return val
    if isinstance(val, int):
        return int(val)
    if isinstance(val, float):
        return common.rat_str(val)
    try:
        import numpy
        if isinstance(val, numpy.integer):
            return int(val)
        if isinstance(val, numpy.floating):
            return common.rat_str(float(val))
    except ImportError:
        pass
    if isinstance(val, (list, tuple)):
        return [canon_val(v) for v in val]
    if isinstance(val, dict):
        return sorted([str(k), canon_val(v)] for k, v in val.items())
    return str(val)


def dump_molecule(mol):
    """canonical dump of a vermouth Block / Molecule"""
    nodes = [[canon_val(key), sorted([str(k), canon_val(v)] for k, v in mol.nodes[key].items() if k != "graph")]
             for key in mol.nodes]
    inters = sorted([str(sec), [[canon_val(list(i.atoms)), [str(p) for p in i.parameters], canon_val(dict(i.meta))]
                                if hasattr(i, "atoms") else str(i) for i in lst]]
                    for sec, lst in mol.interactions.items() if lst)
    edges = sorted(sorted([canon_val(u), canon_val(v)], key=str) for u, v in mol.edges)
    return dict(nodes=nodes, interactions=inters, edges=edges, nrexcl=canon_val(getattr(mol, "nrexcl", None)))


def graph_edges(graph):
    return sorted(sorted([canon_val(u), canon_val(v)], key=str) for u, v in graph.edges)


def dump_instances(topology):
    """for every molecule instance (in list order): its name, the edges of its atom graph and its residue graph
    (nodes: key, resid, resname, the atoms the residue holds; edges) — "each instance an independent copy of its
    molecule type" is about these too, not only about names and counts"""
    out = []
    for meta in topology.molecules:
        res_nodes = []
        for key in meta.nodes:
            data = meta.nodes[key]
            sub = data.get("graph")
            res_nodes.append([canon_val(key), canon_val(data.get("resid")), canon_val(data.get("resname")),
                              None if sub is None else sorted((canon_val(n) for n in sub.nodes), key=str)])
        out.append(dict(name=meta.mol_name, natoms=len(meta.molecule.nodes), atom_edges=graph_edges(meta.molecule),
                        res_nodes=sorted(res_nodes, key=str), res_edges=graph_edges(meta)))
    return out


def canon_line(text):
    if text.startswith("["):
        return ["[", text.strip("[ ]").casefold()]
    return text.split()


def dump_topology(topology, groups):
    types = sorted([str(it), sorted([list(key), [[list(p), None if m is None else [m["condition"], m["tag"]]]
                                                 for p, m in entries]] for key, entries in table.items())]
                   for it, table in topology.types.items() if table)
    nonbond = []
    for key, val in topology.nonbond_params.items():
        names = sorted(key)
        nonbond.append([names[0], names[-1], canon_val(val.get("f")), canon_val(val["nb1"]), canon_val(val["nb2"])])
    return dict(
        defaults=sorted([str(k), canon_val(v)] for k, v in topology.defaults.items()),
        defines=sorted([str(k), None if v is True else [str(x) for x in v]] for k, v in topology.defines.items()),
        atomtypes=sorted([str(name)] + [canon_val(row.get(f)) for f in ("nb1", "nb2", "ptype", "charge", "mass",
                                                                          "atom_num", "bond_type")]
                         for name, row in topology.atom_types.items()),
        nonbond=sorted(nonbond),
        types=types,
        groups=sorted([[canon_line(l) for l in grp] for grp in groups]),
        blocks=sorted([[str(name), dump_molecule(block)] for name, block in topology.force_field.blocks.items()],
                      key=lambda item: item[0]),
        molecules=[m.mol_name for m in topology.molecules],
        instances=dump_instances(topology),
        mol_idx=sorted([str(k), [int(i) for i in v]] for k, v in topology.mol_idx_by_name.items() if v),
    )


_SCRATCH = []


def scratch_base():
    """where the temporary trees live: a per-process directory on the memory file system if there is one (mkdir / rmdir
    on the disk dominate the run time of this check otherwise), else the default of `tempfile`"""
    if not _SCRATCH:
        base = None
        if os.path.isdir("/dev/shm") and os.access("/dev/shm", os.W_OK):
            import atexit
            base = os.path.join("/dev/shm", "polyply_verif_c08_%d" % os.getpid())
            try:
                os.makedirs(base, exist_ok=True)
                atexit.register(shutil.rmtree, base, True)
            except OSError:
                base = None
        _SCRATCH.append(base)
    return _SCRATCH[0]


def write_tree(root, files):
    for path, lines in files.items():
        full = os.path.join(root, path)
        os.makedirs(os.path.dirname(full), exist_ok=True)
        with open(full, "w") as handle:
            handle.write("".join(line + "\n" for line in lines))


def make_decoy_library(files, top):
    """a GROMACS-style library directory (what $GMXLIB / $GMXDATA/top point at) in a fresh temporary directory: a file
    with DIFFERENT content (DECOY_LINES) under the name of every file of the tree (relative to the root and relative
    to the directory of the top file), under every include path as written and under its base name.  Returns
    (directory to remove afterwards, library directory)."""
    libroot = os.path.realpath(tempfile.mkdtemp(prefix="c08lib_", dir=scratch_base()))
    lib = os.path.join(libroot, "x", "y", "z", "share", "gromacs", "top")
    os.makedirs(lib)
    topdir = os.path.dirname(top)
    names = set()
    for path, lines in files.items():
        names.add(path)
        names.add(os.path.relpath(path, topdir or "."))
        names.add(os.path.basename(path))
        for written in include_paths(lines):
            names.add(written)
            names.add(os.path.basename(written))
    decoys = {}
    for name in names:
        full = os.path.normpath(os.path.join(lib, name))
        if full.startswith(libroot + os.sep) and not os.path.isabs(name):
            decoys[os.path.relpath(full, libroot)] = list(DECOY_LINES)
    write_tree(libroot, decoys)
    return libroot, lib


ADDRESSES = ["abs", "bare", "rel", "up"]


def read_real(files, top, chdir=False, keep=False, address=None, env=False, before=()):
    """write the tree, read it with the real reader.  Returns (dump | None, error name | None, topology | None).

    `address`: how the top file is named in the call — "abs" (absolute path), "bare" (process cwd = its directory, bare
    file name: `os.path.dirname` gives ''), "rel" (cwd = root of the tree, relative path), "up" (cwd = a sub directory
    of its directory, '../name'); default: "bare" if `chdir` else "abs".
    `env`: the ENVIRONMENT of a GROMACS user — $GMXLIB and $GMXDATA point at a library that holds same-named files with
    different content, and (address "abs") the process cwd is that library directory, i.e. a directory with decoys of
    the same names.  None of this may change what is read ("resolved relative to the including file").
    `before`: trees (files, top) that are written to the SAME directory and read first, in this process (history);
    the directory is emptied in between.  cwd and environment are restored afterwards."""
    import polyply.src.top_parser as top_parser
    from polyply.src.topology import Topology
    address = address or ("bare" if chdir else "abs")
    root = os.path.realpath(tempfile.mkdtemp(prefix="c08_", dir=scratch_base()))
    groups = []
    original = top_parser.read_itp

    def recording(lines, force_field):
        groups.append(list(lines))
        return original(lines, force_field)
    cwd = os.getcwd()
    saved_env = {key: os.environ.get(key) for key in ("GMXLIB", "GMXDATA")}
    libroot = None

    def call(the_top):
        topdir = os.path.join(root, os.path.dirname(the_top))
        if address == "bare":
            os.chdir(topdir)
            return Topology.from_gmx_topfile(os.path.basename(the_top), "verif")
        if address == "rel":
            os.chdir(root)
            return Topology.from_gmx_topfile(the_top, "verif")
        if address == "up":
            sub = os.path.join(topdir, "c08_cwd_below_top")
            os.makedirs(sub, exist_ok=True)
            os.chdir(sub)
            return Topology.from_gmx_topfile(os.path.join("..", os.path.basename(the_top)), "verif")
        return Topology.from_gmx_topfile(os.path.join(root, the_top), "verif")
    try:
        if env:
            libroot, lib = make_decoy_library(files, top)
            os.environ["GMXLIB"] = lib
            os.environ["GMXDATA"] = os.path.dirname(lib)
            os.chdir(lib)
        top_parser.read_itp = recording
        for old_files, old_top in before:
            write_tree(root, old_files)
            try:
                call(old_top)
            except (Exception, RecursionError):  # pylint: disable=broad-except
                pass
            os.chdir(lib if env else cwd)
            shutil.rmtree(root, ignore_errors=True)
            os.makedirs(root)
            del groups[:]
        write_tree(root, files)
        try:
            topology = call(top)
        except RecursionError:
            return None, "RecursionError", None
        except Exception as exc:  # pylint: disable=broad-except
            return None, type(exc).__name__, None
        return dump_topology(topology, groups), None, (topology if keep else None)
    finally:
        top_parser.read_itp = original
        os.chdir(cwd)
        for key, val in saved_env.items():
            if val is None:
                os.environ.pop(key, None)
            else:
                os.environ[key] = val
        shutil.rmtree(root, ignore_errors=True)
        if libroot:
            shutil.rmtree(libroot, ignore_errors=True)


def read_units(units):
    """every moleculetype text read on its own by vermouth's itp reader"""
    import vermouth.forcefield
    from vermouth.gmx.itp_read import read_itp
    from polyply.src.meta_molecule import _make_edges
    out = {}
    for name, lines in units.items():
        force_field = vermouth.forcefield.ForceField("alone")
        try:
            read_itp(list(lines), force_field)
            _make_edges(force_field)
            out[name] = dump_molecule(force_field.blocks[name])
        except Exception:  # pylint: disable=broad-except
            continue
    return out


def fs_json(files):
    return [[[p for p in path.split("/") if p], lines] for path, lines in sorted(files.items())]


# ------------------------------------------------------------------------------------------------ model canon

def fnum(tok):
    if tok is None or tok == "":
        return tok
    return common.rat_str(float(tok))


def canon_model(top):
    numbered = ("nbfunc", "comb-rule", "fudgeLJ", "fudgeQQ")
    atomtypes = []
    for name, nb1, nb2, ptype, charge, mass, atnum, btype in top["atomtypes"]:
        atomtypes.append([name, fnum(nb1), fnum(nb2), ptype, fnum(charge), fnum(mass), fnum(atnum), btype])
    nonbond = []
    for a, b, func, nb1, nb2 in top["nonbond"]:
        a, b = sorted([a, b])
        nonbond.append([a, b, int(func), fnum(nb1), fnum(nb2)])
    return dict(
        defaults=sorted([k, fnum(v) if k in numbered else v] for k, v in top["defaults"]),
        defines=sorted([k, v] for k, v in top["defines"]),
        atomtypes=sorted(atomtypes),
        nonbond=sorted(nonbond),
        types=sorted([it, sorted([key, [[p, c] for p, c in entries]] for key, entries in table)] for it, table in top["types"] if table),
        groups=sorted(top["groups"]),
        molecules=top["molecules"],
        mol_idx=sorted([k, v] for k, v in top["mol_idx"] if v),
    )


def observable(dump, with_meta=True, with_groups=True, with_blocks=False, with_instances=False):
    """the part of a real dump that a given comparison looks at (the Lean model has no notion of graph edges: the
    blocks and the instances are compared between REAL reads only)"""
    out = {k: dump[k] for k in ("defaults", "defines", "atomtypes", "nonbond", "molecules", "mol_idx")}
    if with_meta:
        out["types"] = dump["types"]
    else:
        out["types"] = [[it, [[key, [p for p, _ in entries]] for key, entries in table]] for it, table in dump["types"]]
    if with_groups:
        out["groups"] = dump["groups"]
    if with_blocks:
        out["blocks"] = dump["blocks"]
    if with_instances:
        out["instances"] = dump["instances"]
    return out


# ------------------------------------------------------------------------------------------------ one case

def tree_case(case):
    files, top = case["files"], case["top"]
    dump, err, topology = read_real(files, top, chdir=case.get("chdir", False), keep=True)
    extra = {}
    if topology is not None:
        extra = instance_checks(topology)
    reqs = [dict(op="read", fs=fs_json(files), top=[p for p in top.split("/") if p]),
            dict(op="flatten", fs=fs_json(files), top=[p for p in top.split("/") if p])]
    return dict(case=case, dump=dump, err=err, extra=extra, reqs=reqs)


def residue_graph_of_type(block):
    """the residue graph of a molecule type, computed here from its atoms and edges: one node per (resid, resname) with
    the atoms that carry it; two residues are joined iff an edge of the atom graph joins an atom of each"""
    member, groups = {}, {}
    for key in block.nodes:
        res = (canon_val(block.nodes[key].get("resid")), canon_val(block.nodes[key].get("resname")))
        member[key] = res
        groups.setdefault(res, []).append(canon_val(key))
    nodes = sorted([list(res), sorted(atoms, key=str)] for res, atoms in groups.items())
    edges = sorted(set(tuple(sorted([member[u], member[v]], key=str)) for u, v in block.edges if member[u] != member[v]), key=str)
    return nodes, [[list(a), list(b)] for a, b in edges]


def residue_graph_of_instance(meta):
    label = {key: (canon_val(meta.nodes[key].get("resid")), canon_val(meta.nodes[key].get("resname"))) for key in meta.nodes}
    nodes = sorted([list(label[key]), sorted((canon_val(n) for n in meta.nodes[key]["graph"].nodes), key=str)
                    if meta.nodes[key].get("graph") is not None else None] for key in meta.nodes)
    edges = sorted(set(tuple(sorted([label[u], label[v]], key=str)) for u, v in meta.edges), key=str)
    return nodes, [[list(a), list(b)] for a, b in edges]


def instance_checks(topology):
    """every instance equals a fresh copy of its type; mutating one instance leaves the others and the type alone"""
    res = dict(equal=True, independent=True, deep_alias=False, detail="")
    blocks = topology.force_field.blocks
    for mol in topology.molecules:
        want = dump_molecule(blocks[mol.mol_name].to_molecule())
        got = dump_molecule(mol.molecule)
        if got != want:
            res["equal"] = False
            res["detail"] = "instance of %s differs from its type: %s vs %s" % (mol.mol_name, got, want)
            return res
        # ... and its residue graph is the residue graph of the type
        want_res = residue_graph_of_type(blocks[mol.mol_name])
        got_res = residue_graph_of_instance(mol)
        if got_res != want_res:
            res["equal"] = False
            res["detail"] = "the residue graph (nodes, edges) of an instance of %s is %s, that of its type is %s" \
                % (mol.mol_name, json.dumps(got_res)[:400], json.dumps(want_res)[:400])
            return res
    by_name = {}
    for idx, mol in enumerate(topology.molecules):
        by_name.setdefault(mol.mol_name, []).append(idx)
    for name, idxs in by_name.items():
        if len(idxs) < 2:
            continue
        first, second = topology.molecules[idxs[0]], topology.molecules[idxs[1]]
        before_second = dump_molecule(second.molecule)
        before_block = dump_molecule(blocks[name])
        before_meta = sorted(str(second.nodes[n]) for n in second.nodes)
        node = next(iter(first.molecule.nodes))
        first.molecule.nodes[node]["position"] = [1.0, 2.0, 3.0]
        first.molecule.nodes[node]["atomname"] = "MUTATED"
        for sec in list(first.molecule.interactions):
            first.molecule.interactions[sec] = first.molecule.interactions[sec][:-1]
        first.molecule.interactions["verif"].append("x")
        meta_node = next(iter(first.nodes))
        first.nodes[meta_node]["resname"] = "MUTATED"
        if dump_molecule(second.molecule) != before_second or dump_molecule(blocks[name]) != before_block \
                or sorted(str(second.nodes[n]) for n in second.nodes) != before_meta:
            res["independent"] = False
            res["detail"] = "mutating instance %d of %s changed instance %d or the molecule type" % (idxs[0], name, idxs[1])
            return res
        # one level deeper: the parameter LISTS of the interactions
        for sec, lst in second.molecule.interactions.items():
            for pos, inter in enumerate(lst):
                other = first.molecule.interactions.get(sec, [])
                if pos < len(other) and hasattr(other[pos], "parameters") and other[pos].parameters is inter.parameters \
                        and isinstance(inter.parameters, list):
                    res["deep_alias"] = True
        break
    return res


def judge_tree(ctx, item, answers):
    case, dump, err = item["case"], item["dump"], item["err"]
    model, flat = answers
    replay = dict(kind="tree", case=case)
    impl_c = dict(ok=dump is not None)
    if dump is not None:
        impl_c["top"] = observable(dump)
    model_c = dict(ok=bool(model["ok"]))
    if model["ok"]:
        model_c["top"] = canon_model(model["top"])
    agree = ctx.correspond("readTop", impl_c, model_c, replay)
    nfiles = len(case["files"])
    shape_tag = case.get("shape")
    follow = []
    if case["valid"]:
        if not flat["ok"]:
            # the statement's flattened file does not exist (an active include names a missing file)
            if dump is not None:
                ctx.oracle_fail(shape_tag or "missing-include-accepted", "an active #include names a file that does not "
                                "exist (%s) but the tree was read" % flat.get("err"), replay)
        else:
            follow.append(dict(kind="flat", lines=flat["lines"], abort=flat["abort"]))
            # coverage of the theorem C08_flatten_equiv_partial: is the tree in its well-formed class?
            ctx.tally(theorem_hypothesis_holds=flat.get("well_formed"), **({"wf_of_shape_" + shape_tag: flat.get("well_formed")} if shape_tag else {}))
    if dump is not None and case["valid"] and case.get("units"):
        # the molecule types are what the moleculetype texts say: each one read on its own by vermouth's itp
        # reader must be the block the topology reader produced
        alone = read_units(case["units"])
        got = dict((name, blk) for name, blk in dump["blocks"])
        for name, want in alone.items():
            if name in got and got[name] != want:
                ctx.oracle_fail(shape_tag or "moleculetype-lines-lost", "molecule type %s read through the topology differs "
                                "from its text read by the itp reader alone: %s vs %s"
                                % (name, json.dumps(got[name])[:300], json.dumps(want)[:300]), replay)
                break
        ctx.tally(moleculetypes_checked=min(len(alone), 5))
    if dump is not None:
        extra = item["extra"]
        if not extra.get("equal", True):
            ctx.oracle_fail(shape_tag or "instance-differs-from-type", extra["detail"], replay)
        if not extra.get("independent", True):
            ctx.oracle_fail(shape_tag or "instances-not-independent", extra["detail"], replay)
        if shape_tag == "instance-parameter-lists-aliased" and extra.get("deep_alias"):
            ctx.oracle_fail(shape_tag, "two instances of one molecule type share the parameter list objects of their "
                            "interactions (Block.to_molecule passes interaction.parameters on uncopied)", replay)
    ctx.case(json.dumps(case["files"], sort_keys=True) if nfiles > 1 else None,
             sample=dict(top=case["top"], files={p: l[:12] for p, l in list(case["files"].items())[:3]},
                         result=("rejected: " + str(err)) if dump is None else dict(molecules=dump["molecules"])),
             files=min(nfiles, 8), outcome="ok" if dump is not None else "reject", malformed=case.get("malformed"),
             shape=shape_tag, chdir=case.get("chdir", False), agree=agree,
             topdir=os.path.dirname(case["top"]) or ".",
             molecules_section=(case.get("extra") or {}).get("layout") or "top-file",
             **{"extra_" + k: (v if k == "deep" else bool(v)) for k, v in (case.get("extra") or {}).items() if k != "layout"})
    return follow


def judge_flat(ctx, item, flat, model_single, expand):
    """the relation of the property: real(tree) vs real(flattened file); #error iff; [molecules] expansion"""
    case, dump, err = item["case"], item["dump"], item["err"]
    replay = dict(kind="tree", case=case, flattened=flat["lines"])
    shape_tag = case.get("shape")
    fdump, ferr, _ = read_real({"flat.top": flat["lines"]}, "flat.top")
    # model of the single-file reader vs the real reader on the flattened file
    impl_c = dict(ok=fdump is not None)
    if fdump is not None:
        impl_c["top"] = observable(fdump)
    model_c = dict(ok=bool(model_single["ok"]))
    if model_single["ok"]:
        model_c["top"] = canon_model(model_single["top"])
    ctx.correspond("readSingle(flatten)", impl_c, model_c, replay)
    # #error aborts reading exactly when its condition is active
    if flat["abort"] and dump is not None:
        ctx.oracle_fail(shape_tag or "error-directive-ignored", "an #error whose condition is active (macros %s) did not "
                        "abort reading" % case.get("defined", "?"), replay)
    if not flat["abort"] and dump is None and case.get("malformed") is None:
        ctx.oracle_fail(shape_tag or "rejects-valid-tree", "reading raised %s although no #error is active and the tree is a valid "
                        "input (nothing malformed was generated)" % err, replay)
    # the relation
    if (dump is None) != (fdump is None):
        ctx.oracle_fail(shape_tag or "flatten-accept-differs", "tree read %s, flattened file read %s"
                        % ("ok" if dump is not None else "raised " + str(err), "ok" if fdump is not None else "raised " + str(ferr)),
                        replay)
    elif dump is not None:
        left = observable(dump, with_meta=False, with_groups=False, with_blocks=True, with_instances=True)
        right = observable(fdump, with_meta=False, with_groups=False, with_blocks=True, with_instances=True)
        if left != right:
            diff = [k for k in left if left[k] != right[k]]
            ctx.oracle_fail(shape_tag or ("flatten-differs-" + diff[0]), "reading the tree and reading the flattened file "
                            "differ in %s: %s vs %s" % (diff, json.dumps(left[diff[0]])[:300], json.dumps(right[diff[0]])[:300]),
                            replay)
        # [molecules] expanded in order with the stated counts (specification evaluated by the driver)
        if expand is not None and (dump["molecules"] != expand["molecules"] or dump["mol_idx"] != sorted(expand["mol_idx"])):
            ctx.oracle_fail(shape_tag or "molecules-not-expanded-in-order", "[molecules] %s gives molecule list %s / %s, "
                            "expected %s / %s" % (case["molecules"], dump["molecules"], dump["mol_idx"],
                                                  expand["molecules"], expand["mol_idx"]), replay)
    ctx.tally(flatten_relation_checked=True, abort_expected=flat["abort"])


def judge_noise(ctx, item, seed):
    """comments, blank lines and whitespace do not change what is read"""
    import random
    case, dump = item["case"], item["dump"]
    rng = random.Random(seed)
    files = {p: noisy(rng, l) for p, l in case["files"].items()}
    ndump, nerr, _ = read_real(files, case["top"], chdir=case.get("chdir", False))
    replay = dict(kind="tree", case=dict(case, files=files), original=case["files"])
    if (dump is None) != (ndump is None):
        ctx.oracle_fail("whitespace-changes-acceptance", "adding comments/blank lines/whitespace turns %s into %s"
                        % ("ok" if dump is not None else "reject", "ok" if ndump is not None else "raised " + str(nerr)), replay)
    elif dump is not None and observable(dump, with_blocks=True, with_instances=True) != \
            observable(ndump, with_blocks=True, with_instances=True):
        ctx.oracle_fail("whitespace-changes-result", "adding comments/blank lines/whitespace changes the topology", replay)
    ctx.tally(whitespace_checked=True)


def derived_rng(label, case):
    """a PRNG that depends only on the case (not on ctx.rng: the other cases of a seed stay what they are)"""
    import random
    import zlib
    return random.Random("%s|%d" % (label, zlib.crc32(json.dumps([case["files"], case["top"]], sort_keys=True).encode())))


def judge_environment(ctx, item):
    """the ENVIRONMENT dimension: the same tree, named in another way (bare file name from its directory, relative
    path, '../name', absolute path from a directory full of same-named decoys) while $GMXLIB / $GMXDATA point at a
    library of same-named files with different content.  "#include (resolved relative to the including file)": the
    result must be the one of the plain read (which the other oracles compare with the flattened file)."""
    case, dump, err = item["case"], item["dump"], item["err"]
    rng = derived_rng("c08-env", case)
    address = rng.choice(["bare", "bare", "bare", "abs", "rel", "up"])
    edump, eerr, _ = read_real(case["files"], case["top"], address=address, env=True)
    replay = dict(kind="tree", case=case, environment=dict(address=address, GMXLIB="a library with same-named files",
                                                           cwd="that library" if address == "abs" else "see address"))
    if (dump is None) != (edump is None):
        ctx.oracle_fail("environment-changes-acceptance", "the tree read plainly: %s; read as %r with GMXLIB/GMXDATA pointing at a "
                        "library of same-named files: %s" % ("ok" if dump is not None else "raised " + str(err), address,
                                                             "ok" if edump is not None else "raised " + str(eerr)), replay)
    elif dump is not None and edump != dump:
        diff = [k for k in dump if dump[k] != edump[k]]
        ctx.oracle_fail("environment-changes-result", "reading the tree as %r with GMXLIB/GMXDATA pointing at a library of same-named "
                        "files (and a cwd with such files) differs from the plain read in %s: %s vs %s"
                        % (address, diff, json.dumps(edump[diff[0]])[:300], json.dumps(dump[diff[0]])[:300]), replay)
    ctx.tally(environment_checked=True, **{"environment_address_" + address: True})


HISTORY_MOL = ["[ moleculetype ]", "HISTMOL 1", "[ atoms ]", "1 CT 1 HIS A1 1 0.0 12.0", "2 CT 2 HIS A2 2 0.0 12.0",
               "[ bonds ]", "1 2 1 0.1 1000"]


def judge_history(ctx, item):
    """process history: in the SAME directory (same absolute paths) and the same process first a variant of the tree
    with other content (an extra #define in every file, an extra moleculetype, other molecule counts) is read, then
    a variant whose reading FAILS at the very end (unclosed conditional in the top file), then the tree itself: the
    later result must be the one of the first, fresh read — no defines / blocks / cached files of an earlier call"""
    case, dump, err = item["case"], item["dump"], item["err"]
    files, top = case["files"], case["top"]
    variant = {path: ["#define HIST_%d 1 2" % i] + list(lines) for i, (path, lines) in enumerate(sorted(files.items()))}
    if "[ system ]" in variant[top]:
        idx = variant[top].index("[ system ]")
        variant[top][idx:idx] = HISTORY_MOL
        variant[top].append("HISTMOL 3")
    broken = {path: list(lines) for path, lines in variant.items()}
    broken[top].insert(0, "#ifdef FLEXIBLE")
    ldump, lerr, _ = read_real(files, top, chdir=case.get("chdir", False), before=[(variant, top), (broken, top)])
    replay = dict(kind="tree", case=case, history=["variant with extra defines/moleculetype", "failing variant", "the tree"])
    if (dump is None) != (ldump is None):
        ctx.oracle_fail("history-changes-acceptance", "fresh read: %s; the same read after two other reads in this process: %s"
                        % ("ok" if dump is not None else "raised " + str(err), "ok" if ldump is not None else "raised " + str(lerr)),
                        replay)
    elif dump is not None and ldump != dump:
        diff = [k for k in dump if dump[k] != ldump[k]]
        ctx.oracle_fail("history-changes-result", "the tree read after a different tree and a failed read (same directory, same "
                        "process) differs from its fresh read in %s: %s vs %s"
                        % (diff, json.dumps(ldump[diff[0]])[:300], json.dumps(dump[diff[0]])[:300]), replay)
    ctx.tally(history_checked=True)


DISPATCH_ALPHABET = ["a", "#", "*", "[", "]", ";", " ", "\t"]      # one character of every class the lexer distinguishes
DISPATCH_SEEDS = ["[ Atoms ]", "[ moleculeType ]", "[ a b ]", "[a\tb]", "[\ta\t]", "[ a ] x", "[a", "a ]", "  [ x ] ; c", "[;]",
                  "[ a ;]", "a;[", "[]", "[ ]", "[  ]", "]", "][", "[ [a] ]", "[[ a ]]", "[ a ]]", "[ A\x0b]", "[ a ]\n", "[ a ]\r\n",
                  "\x0c[ a ]", "#include \"x\"", "#ifdef\tX", "#", "# define A", "#define A ; c", "\t#define A 1", " # ", "*x", " * x", "*",
                  "* [ a ]", "a * #", "a # [", "a\x0bb\x0cc\rd\ne", "\n", "\r\n", " \x0b\x0c ", "A B\tC", ";#", ";*", ";[", "#;", "*;", "[;"]


def real_dispatch(topology, line):
    """what `LineParser.parse` (split_comments with TOPDirector.COMMENT_CHAR, skip when empty) and the REAL
    `TOPDirector.dispatch` make of one raw line: None (skipped) | [kind, ...].  The section name of a header is the
    one the real `parse_header` leaves in `section` on a fresh director."""
    from vermouth.parser_utils import split_comments
    from polyply.src.top_parser import TOPDirector
    data, _ = split_comments(line, TOPDirector.COMMENT_CHAR)
    if not data:
        return None
    director = TOPDirector(topology)
    try:
        method = director.dispatch(data)
    except IOError:
        return ["badHeader"]
    if method == director.parse_top_pragma:
        return ["pragma", data.split()]
    if method == director.parse_header:
        method(data, 0)
        return ["header", director.section[-1]]
    if method == director.parse_section:
        return ["content", data.split()]
    # anything else must be a method that ignores the line (the star comment goes to `_skip`)
    before = (list(director.section), director.current_meta, director.current_itp, list(director.itp_lines),
              list(director.molecules))
    result = method(data, 0)
    after = (list(director.section), director.current_meta, director.current_itp, list(director.itp_lines),
             list(director.molecules))
    if result is None and before == after:
        return ["star"]
    return ["other", getattr(method, "__name__", str(method))]


def lexer_cases(ctx):
    """two streams over single raw lines, asked from the model in ONE driver call:
    `tokenize` — the tokenizer of the model vs vermouth's split_comments + str.split on fuzzed lines;
    `dispatch` — the model's `classify` vs the REAL `TOPDirector.dispatch` (is_pragma, is_star_comment,
    SectionLineParser.is_section_header / dispatch) and the section name the REAL `parse_header` computes:
    EXHAUSTIVE over all strings of length <= 5 (thorough: <= 6) over DISPATCH_ALPHABET, plus hand-written and
    random longer lines with the other white-space characters, upper case, headers with inner blanks / tabs."""
    import itertools
    import vermouth.forcefield
    from vermouth.parser_utils import split_comments
    from polyply.src.topology import Topology
    rng = ctx.rng
    alphabet = ["a", "B", "1", ".", "-", "#", "[", "]", "*", ";", " ", " ", "\t", "\"", "_", "/"]
    lines = ["", " ", ";", " ; x", "[ atoms ] ; c", "#include \"a/b.itp\"", "a;b;c", "\t1 2\t3  ;;"]
    for _ in range(ctx.budget(150, 1500)):
        lines.append("".join(rng.choice(alphabet) for _ in range(rng.randint(0, 14))))
    maxlen = ctx.budget(5, 6)
    exhaustive = ["".join(t) for n in range(maxlen + 1) for t in itertools.product(DISPATCH_ALPHABET, repeat=n)]
    wide = ["a", "b", "A", "Z", "1", "#", "#", "*", "[", "[", "]", "]", ";", " ", " ", " ", "\t", "\n", "\r", "\x0b", "\x0c", "\"", "_"]
    extra = list(DISPATCH_SEEDS)
    for _ in range(ctx.budget(600, 6000)):
        body = "".join(rng.choice(wide) for _ in range(rng.randint(1, 12)))
        roll = rng.random()
        if roll < 0.35:                       # header-like
            body = rng.choice(["", " ", "\t", "\x0c "]) + "[" + body + rng.choice(["]", "]", " ]", "\t]", "] x", ""]) + \
                rng.choice(["", " ", "\n", "\r\n", " ; c"])
        elif roll < 0.5:
            body = rng.choice(["", " ", "\t"]) + rng.choice(["#", "*"]) + body
        extra.append(body)
    answers = ctx.driver.ask([dict(op="tokenize", lines=lines), dict(op="classify", lines=exhaustive + extra)])
    for line, toks in zip(lines, answers[0]["tokens"]):
        data, _ = split_comments(line, ";")
        ctx.correspond("tokenize", data.split(), toks, dict(kind="tokenize", line=line))
    ctx.tally(tokenizer_lines=len(lines))
    topology = Topology(vermouth.forcefield.ForceField("verif"))
    kinds = collections.Counter()
    for line, model in zip(exhaustive + extra, answers[1]["kinds"]):
        impl = real_dispatch(topology, line)
        ctx.correspond("dispatch", impl, model, dict(kind="dispatch", line=line))
        kinds[impl[0] if impl else "skipped"] += 1
    ctx.tally(**{"dispatch_exhaustive_len<=%d_over_%d_chars" % (maxlen, len(DISPATCH_ALPHABET)): len(exhaustive),
                 "dispatch_random_lines": len(extra)})
    ctx.tally(**{"dispatch_kind_" + k: v for k, v in kinds.items()})
    ctx.extra["dispatch_stream"] = ("dispatch: exhaustive over all %d strings of length <= %d over %r + %d hand-written/random "
                                    "longer lines; kinds %s" % (len(exhaustive), maxlen, "".join(DISPATCH_ALPHABET), len(extra),
                                                                dict(kinds)))


# ------------------------------------------------------------------------------------------------ driver

def corpus_cases():
    path = os.path.join(common.VERIF, "corpus", "C08")
    out = []
    if os.path.isdir(path):
        for name in sorted(os.listdir(path)):
            data = json.load(open(os.path.join(path, name)))
            inp = data.get("input", data)
            if inp.get("kind") == "tree":
                out.append(inp["case"])
    return out


def run_cases(ctx, cases, noise=True):
    items = [tree_case(copy.deepcopy(case)) for case in cases]
    reqs = []
    for item in items:
        reqs += item["reqs"]
    answers = ctx.driver.ask(reqs)
    second, plan = [], []
    for i, item in enumerate(items):
        follow = judge_tree(ctx, item, answers[2 * i:2 * i + 2])
        for flat in follow:
            second.append(dict(op="readsingle", lines=flat["lines"]))
            second.append(dict(op="expand", molecules=[[n, int(c)] for n, c in item["case"]["molecules"]]))
            plan.append((item, flat))
    answers2 = ctx.driver.ask(second)
    for k, (item, flat) in enumerate(plan):
        judge_flat(ctx, item, flat, answers2[2 * k], answers2[2 * k + 1] if item["case"].get("malformed") is None else None)
    if noise:
        for k, item in enumerate(items):
            if item["case"]["valid"] and k % 2 == 0 and not item["case"].get("shape"):
                judge_noise(ctx, item, ctx.rng.randint(0, 10 ** 9))
    for k, item in enumerate(items):
        extra = bool(item["case"].get("extra"))
        if k % 3 == 1 or (extra and k % 3 == 0):
            judge_environment(ctx, item)
        if item["case"]["valid"] and k % 20 == (3 if not extra else 5):
            judge_history(ctx, item)


MALFORMED = ["missing-file", "missing-file-inactive", "unclosed-conditional", "stray-endif", "stray-else",
             "nested-conditional", "unknown-pragma", "unknown-section", "bad-header", "unknown-molecule", "bad-count",
             "buckingham", "cycle", "bad-number"]


# the extra stream also knows these (the boundaries of the token counts the reader unpacks)
EXTRA_MALFORMED = ["define-without-tag", "include-without-path", "molecules-three-tokens", "molecules-one-token",
                   "atomtype-too-long", "negative-count"]


def run(ctx):
    ctx.extra["rule"] = RULE
    ctx.extra["trusted"] = ["vermouth LineParser.parse (the loop: split_comments with COMMENT_CHAR, skip empty lines, "
                            "dispatch(line)(line, lineno) — re-enacted line by line by the `dispatch` stream), vermouth read_itp and "
                            "Block.to_molecule (the model hands the collected moleculetype lines on unchanged)",
                            "white space is one of the six ASCII characters blank \\t \\n \\r \\x0b \\x0c and section names are ASCII "
                            "(str.split/strip/casefold know more)",
                            "the file system (modelled as a finite map from lexically normalised path to lines)",
                            "CPython float()/int() on the number tokens"]
    ctx.extra["explanation"] = (
        "Proof level: C08_flatten_equiv_partial (Lean, induction on include depth and on the lines of a file) shows for "
        "every WELL-FORMED include tree that reading the tree and reading the flattened text give the same observables "
        "(direction tree-read => flat-read); the counter `theorem_hypothesis_holds` in input_distribution says how many "
        "generated trees are in that class.  The five dropped well-formedness clauses have kernel-checked counterexamples "
        "(C08_cx_*) that the harness replays on the real code under VERIF_C08_FINDINGS=1 (shapes in notes/C08_findings.md). "
        "The model is tied to the code by the translated tables (sections, atom_idxs, and the literals of _defaults, _atomtypes, "
        "pragma_actions, header_actions, the #else inversion dict, COMMENT_CHAR — theorems C08_*_anchor / C08_inverse_table / "
        "C08_pragma_dispatch / C08_comment_char break when such a literal changes), by the exhaustive `dispatch` stream on "
        "single lines and by the correspondence on every tree "
        "(tree read and flattened read); the oracle is the relation of the statement between two REAL reads, plus #error iff, "
        "[molecules] expansion, instance independence (mutation), whitespace/comment metamorphism and 'every moleculetype "
        "equals its text read alone by vermouth'.")
    ctx.assumptions += ["moleculetype names are unique within an include tree (grompp rejects duplicates; with two different "
                        "definitions the one read last wins and the reading order of tree and flattened text differs)",
                        "every directory named on an include path exists (the OS resolves dir/.. only then)",
                        "no [ macros ] section and no `$` in content lines (vermouth macro substitution not modelled)",
                        "include paths contain no blanks"]
    rng = ctx.rng
    lexer_cases(ctx)
    cases = corpus_cases()
    for i in range(ctx.budget(300, 3500)):
        malformed = rng.choice(MALFORMED) if rng.random() < 0.15 else None
        cases.append(gen_tree(rng, malformed=malformed))
    if FINDINGS:
        for shape in FINDING_SHAPES:
            for _ in range(ctx.budget(2, 10)):
                cases.append(gen_tree(rng, shape=shape))
    # extra stream: the input dimensions of notes/EXTENSION_BRIEF.md (appendix) that C08 can see.  All choices come from
    # a DERIVED generator, so the cases above are what they were for this seed.
    import random
    state = rng.getstate()[1][:4]
    for i in range(ctx.budget(100, 1000)):
        erng = random.Random("c08-extra|%d|%r" % (i, state))
        opts = dict(rich=erng.random() < 0.75, sysinc=(i % 2 == 0) or erng.random() < 0.2, bigcount=erng.random() < 0.25,
                    deep=erng.choice([0, 0, 0, 6, 9, 12]), decoys=erng.random() < 0.5)
        malformed = erng.choice(MALFORMED + EXTRA_MALFORMED * 2) if erng.random() < 0.12 else None
        cases.append(gen_tree(erng, malformed=malformed, opts=opts))
    chunk = 150
    for start in range(0, len(cases), chunk):
        run_cases(ctx, cases[start:start + chunk])


def replay(ctx, data):
    if data.get("kind") == "no-failing-input-found":
        print("replay names obligations that no longer check:")
        for item in data.get("no_longer_checks", []):
            print("  ", item["name"], "-", item["detail"][:300])
        inputs = [i["input"] for i in data.get("no_longer_checks", []) if i.get("input")]
    else:
        inputs = [data.get("input", data)]
    cases = [inp["case"] for inp in inputs if inp.get("kind") == "tree"]
    run_cases(ctx, cases)
    single = [inp["line"] for inp in inputs if inp.get("kind") == "dispatch"]
    if single:
        import vermouth.forcefield
        from polyply.src.topology import Topology
        topology = Topology(vermouth.forcefield.ForceField("verif"))
        kinds = ctx.driver.ask([dict(op="classify", lines=single)])[0]["kinds"]
        for line, model in zip(single, kinds):
            impl = real_dispatch(topology, line)
            print("dispatch %r: real code %s, model %s" % (line, impl, model))
            ctx.correspond("dispatch", impl, model, dict(kind="dispatch", line=line))
    for b in ctx.broken:
        print("REPLAY-DISAGREES", b["name"], b["detail"][:400])
