"""C15 — One centred template and size per distinct residue; user values win.

Statement (properties.jsonl, fixed):
  "Residues whose atom-name-labelled bond graphs are isomorphic share one template and size while residues
   with different atom names get different ones; each template holds one position per atom name with zero
   centre of geometry, virtual sites sit where GROMACS constructs them from their defining atoms, and a
   template reported as optimised meets its bond, constraint, angle and improper targets within tolerance.
   Templates and sizes supplied in a build file are used unchanged in place of generated ones, and every
   size is positive."

Implementation side (all in-process, real objects): `.top` files written to a scratch directory and read by
`Topology.from_gmx_topfile` + `preprocess`, build files read by `build_file_parser.read_build_file`,
`GenerateTemplates(topology, max_opt=10, skip_filter=…).run_system(topology)` with Kamada–Kawai layout and
L-BFGS live; plus direct calls of `map_from_CoG`, `construct_vs`, `optimize_geometry` (live and with a stub
optimiser that returns its start point, so that the verdict is seen on arbitrary coordinates) and
`compute_volume`.

Model side (`Model/Templates.lean` through `Drivers/C15.lean`): grouping by hash / precedence of build-file
and generated values (`readBuildFile`, `runSystem`), `mapFromCoG`, `constructVS` through the translated
`VIRTUAL_SITES` table, `verdict`, `computeVolume`; specification: `specSharing`, `specCentred`,
`specOnePerName`, `gmxConstruct` (the GROMACS manual's constructions), `withinTolerance`.

Extension (`Model/TemplatesBlock.lean`): `extract_block`, `_relabel_interaction_atoms`,
`find_interaction_involving`, `_good_impropers`, `_expand_inital_coords` (scripted layouts in place of
networkx' Kamada-Kawai), `minimizer.renew_vs` and the closure `target_function` of `optimize_geometry` (captured
through a stub of scipy's minimiser) are driven directly on generated vermouth molecules / blocks and compared with
`extractBlock`, `relabelAtoms`, `findInteraction`, `goodImpropers`, `expandInitialCoords`, `renewVS`, `energy`.
Oracle on the real `extract_block` (property text: "one position per atom name", "its bond, constraint, angle and
improper targets"): the block has one node per distinct atom name of the residue and holds exactly the molecule's
interactions that lie inside the residue (`firstOccurrences`, `insideResidue`, `image`).

ORACLES / partial (not verified, named in ctx.assumptions):
  * Weisfeiler–Lehman graph hash (`networkx.weisfeiler_lehman_graph_hash`, node_attr='atomname'): a parameter
    `h` of the model, assumed equal on isomorphic atom-name-labelled graphs; the harness computes it with the
    same networkx function and decides isomorphism independently with `networkx.is_isomorphic`;
  * Kamada–Kawai layout and L-BFGS-B optimisation: the generated coordinates are an input (`gen`) of the
    model; what is checked is what the code does with them and the verdict it reports about them;
  * `np.linalg.norm`, `arccos`, `sqrt`: measured values are inputs of `verdict`; `√` in the virtual-site
    constructions is recomputed by the driver to 30 digits.
"""
import json
import math
import os
import random
import tempfile

import numpy as np

import common
from common import frac, rat_str

RULE = ("stream `system`: generated topologies (1-3 molecule types x 1-4 residues drawn from 2-4 residue kinds: "
        "single atom (also with a stacked sigma-0 dummy site) / chain / ring / branched / planar star with improper / "
        "constraint four-ring folded by an improper / constraint pyramid with improper; 0-3 virtual sites of types 2, 3, 3fd, "
        "3fad, 3out, 4fdn, n(COG); kinds sharing a residue name with different content; renamed twins; "
        "infeasible geometries), optional build file with [ template ] and [ volumes ] blocks in either order, "
        "skip_filter on/off, real GenerateTemplates(max_opt=10).run_system; streams `vs`, `cog`, `verdict` "
        "(live and stub optimiser), `volume`: direct calls on dyadic inputs.  Non-trivial: a system case with "
        ">= 2 residues, any direct case with >= 2 atoms; distinct = (stream, generator seed).  Extension streams: "
        "`block` (vermouth molecules of 1-4 residues x 1-5 atoms, non-contiguous node keys, repeated atom names in 30% "
        "of the residues, 1-6 interaction types x 0-3 interactions inside / across residues, parameters that are "
        "defines incl. a chained and an empty define, meta edge flags, shuffled / arbitrary node subsets: real "
        "extract_block on a deep copy, then find_interaction_involving on the block it made and "
        "_relabel_interaction_atoms on one interaction); `find` (EXHAUSTIVE: 7 x 7 ordered pairs of interaction types "
        "both holding the node pair x 6 variants: dict order reversed, nodes swapped, same node, unlinked pairs); "
        "`impropers` (_good_impropers: function types 1/2/4/9, references 0, +-1e-9, +-1e-8 (numpy's isclose bound, hit "
        "exactly), +-2e-8, +-35, +-180 ...); `expand` (_expand_inital_coords with a scripted layout sequence, max_count "
        "0..8, bound hit / not hit); `energy` (renew_vs with sites built from sites constructed earlier and later, the "
        "energy of the captured target_function).")

TOL9 = "1/1000000000"
TOL6 = "1/1000000"
ATYPES = [("P", 0.47, 72.0), ("Q", 0.41, 36.0), ("S", 0.34, 12.0)]
DUMMY = ("D", 0.0, 0.0)        # a dummy / virtual-site atom type: sigma 0, mass 0 (never the only atom of a residue)
BOND_LENGTHS = [0.2, 0.25, 0.3, 0.35, 0.47]
FINDING_SHAPES = ("vsn-com-as-cog", "template-without-bonds-ignored")
# fixed in /repo (see known_findings.txt `fixed:`), therefore always generated:
#   unoptimised-first-template-crashes (be7ff96), user-volume-lost-other-hash (07473a8),
#   user-volume-two-templates-one-name (b564a77)


_OVERRIDE = None      # set while a case with a recorded "probe" list is (re)generated


def enabled(shape):
    """shapes of documented findings stay out of the default stream until known_findings.txt lists them
    (or VERIF_C15_PROBE=<shape>|all asks for them explicitly)"""
    if _OVERRIDE is not None:
        return shape in _OVERRIDE
    probe = os.environ.get("VERIF_C15_PROBE", "")
    if probe == "all" or shape in probe.split(","):
        return True
    return any(k["property"] == "C15" and k["shape"] == shape for k in common.load_known_findings())


def v3(vec):
    return [rat_str(vec[0]), rat_str(vec[1]), rat_str(vec[2])]


def tmpl(template):
    return [[str(k), v3(v)] for k, v in template.items()]


def dy(rng, lo, hi, bits=6):
    return float(common.dyadic(rng, lo, hi, bits))


def close(a, b, tol=1e-9):
    a, b = float(a), float(b)
    return abs(a - b) <= tol * (1.0 + max(abs(a), abs(b)))


def vec_close(impl, model, tol=1e-9):
    return len(impl) == len(model) and all(close(x, common.rat_parse(y), tol) for x, y in zip(impl, model))


# ------------------------------------------------------------------------------------------ residue kinds

def gen_kind(rng, resname, prefix, vs_ok=True):
    """one residue definition: atoms, bonded terms, virtual sites (all indices local, 0-based)"""
    # "infeasible": a residue that cannot be optimised (gen_templates must proceed with unoptimised coordinates;
    # it raised UnboundLocalError before fix be7ff96)
    shape = rng.choice(["single", "single", "chain", "chain", "chain", "ring", "ring", "branched", "branched", "star",
                        "star", "pucker", "pucker", "cstar", "infeasible"])
    atoms, bonds, constraints, angles, impropers = [], [], [], [], []

    def add_atom(name):
        atype = rng.choice(ATYPES)
        atoms.append(dict(name=name, atype=atype[0], mass=atype[2]))
        return len(atoms) - 1

    if shape == "single":
        add_atom(prefix + "1")
    elif shape == "chain":
        n = rng.randint(2, 5)
        for i in range(n):
            add_atom("%s%d" % (prefix, i + 1))
        for i in range(n - 1):
            target = [i, i + 1, rng.choice(BOND_LENGTHS)]
            (constraints if rng.random() < 0.25 else bonds).append(target)
        for i in range(n - 2):
            if rng.random() < 0.8:
                angles.append([i, i + 1, i + 2, rng.choice([90.0, 109.5, 120.0, 140.0])])
    elif shape == "ring":
        n = rng.randint(3, 6)
        length = rng.choice(BOND_LENGTHS)
        for i in range(n):
            add_atom("%s%d" % (prefix, i + 1))
        for i in range(n):
            bonds.append([i, (i + 1) % n, length])
    elif shape == "branched":
        n = rng.randint(4, 6)
        for i in range(n):
            add_atom("%s%d" % (prefix, i + 1))
        for i in range(1, n):
            bonds.append([rng.randrange(i), i, rng.choice(BOND_LENGTHS)])
    elif shape == "star":
        for i in range(4):
            add_atom("%s%d" % (prefix, i + 1))
        for i in range(1, 4):
            bonds.append([0, i, 0.3])
        angles.append([1, 0, 2, 120.0])
        angles.append([2, 0, 3, 120.0])
        impropers.append([0, 1, 2, 3, rng.choice([0.0, 25.0, -25.0])])
    elif shape == "pucker":
        # a four-ring held by CONSTRAINTS and folded by an improper dihedral (feasible for every fold angle)
        length = rng.choice([0.25, 0.3, 0.35])
        for i in range(4):
            add_atom("%s%d" % (prefix, i + 1))
        for i in range(4):
            constraints.append([i, (i + 1) % 4, length])
        impropers.append([0, 1, 2, 3, rng.choice([20.0, 30.0, -30.0, 40.0, -20.0])])
    elif shape == "cstar":
        # a pyramidal centre: arms constrained, apex angle set by an improper
        for i in range(4):
            add_atom("%s%d" % (prefix, i + 1))
        for i in range(1, 4):
            constraints.append([0, i, rng.choice([0.25, 0.3])])
        for i, j in ((1, 2), (2, 3)):
            (constraints if rng.random() < 0.5 else bonds).append([i, j, 0.4])
        impropers.append([0, 1, 2, 3, rng.choice([25.0, -25.0, 35.0, -35.0])])
    else:  # a triangle violating the triangle inequality: cannot be optimised within tolerance
        for i in range(3):
            add_atom("%s%d" % (prefix, i + 1))
        bonds += [[0, 1, 0.2], [1, 2, 0.2], [0, 2, 0.6]]
    nreal = len(atoms)
    vsites = []
    if vs_ok and shape == "single" and rng.random() < 0.5:
        # a sigma-0 dummy site stacked on the bead (listed after it): every particle sits on the centre of geometry
        site = add_atom("V%s1" % prefix)
        atoms[site].update(atype=DUMMY[0], mass=0.0)
        vsites.append(dict(section="virtual_sitesn", func="1", params=[], site=site, atoms=[0]))
    if vs_ok and nreal >= 2 and shape != "infeasible" and rng.random() < 0.55:
        for v in range(rng.randint(1, 3)):
            choices = ["2", "n1"]
            if nreal >= 3:
                choices += ["3", "3fd", "3fad", "3out"]
            if nreal >= 4:
                choices += ["4fdn"]
            if enabled("vsn-com-as-cog") and nreal >= 2:
                choices += ["n2", "n2"]
            kind = rng.choice(choices)
            site = add_atom("V%s%d" % (prefix, v + 1))
            atoms[site]["mass"] = 0.0
            if rng.random() < 0.4:
                atoms[site]["atype"] = DUMMY[0]
            # constructing atoms: a connected run where possible (keeps 3fad / 4fdn away from degenerate input)
            need = {"2": 2, "3": 3, "3fd": 3, "3fad": 3, "3out": 3, "4fdn": 4}.get(kind) or rng.randint(2, nreal)
            start = rng.randint(0, nreal - need)
            cons = list(range(start, start + need))
            par = lambda lo, hi: round(rng.uniform(lo, hi), 3)
            if kind == "2":
                entry = dict(section="virtual_sites2", func="1", params=[par(0.1, 0.9)])
            elif kind == "3":
                entry = dict(section="virtual_sites3", func="1", params=[par(0.1, 0.5), par(0.1, 0.4)])
            elif kind == "3fd":
                entry = dict(section="virtual_sites3", func="2", params=[par(0.1, 0.9), par(0.05, 0.3)])
            elif kind == "3fad":
                entry = dict(section="virtual_sites3", func="3", params=[par(60, 150), par(0.05, 0.3)])
            elif kind == "3out":
                entry = dict(section="virtual_sites3", func="4", params=[par(0.1, 0.5), par(0.1, 0.4), par(-2, 2)])
            elif kind == "4fdn":
                entry = dict(section="virtual_sites4", func="2", params=[par(0.2, 0.8), par(0.2, 0.8), par(0.05, 0.3)])
            elif kind == "n1":
                entry = dict(section="virtual_sitesn", func="1", params=[])
            else:
                entry = dict(section="virtual_sitesn", func="2", params=[])
            entry.update(site=site, atoms=cons)
            vsites.append(entry)
    return dict(resname=resname, shape=shape, atoms=atoms, nreal=nreal, bonds=bonds, constraints=constraints,
                angles=angles, impropers=impropers, vsites=vsites)


def rename_kind(kind, resname, prefix):
    """same structure, every atom name changed"""
    twin = json.loads(json.dumps(kind))
    twin["resname"] = resname
    for atom in twin["atoms"]:
        atom["name"] = prefix + atom["name"]
    return twin


def gen_topology_spec(rng, small=False, build_file=True):
    nkinds = rng.randint(1, 2) if small else rng.randint(2, 4)
    kinds = []
    for k in range(nkinds):
        kinds.append(gen_kind(rng, "R%s" % "ABCDEF"[k], "BCDEFG"[k]))
    if not small and rng.random() < 0.5:
        # equal residue name, different content (goes into another molecule type)
        base = rng.choice(kinds)
        other = gen_kind(rng, base["resname"], "X", vs_ok=False)
        other["alias_of"] = kinds.index(base)
        kinds.append(other)
    if not small and rng.random() < 0.4:
        base = rng.choice(kinds)
        kinds.append(rename_kind(base, "T" + base["resname"][1:], "Z"))
    cap = None
    if not small and rng.random() < 0.45:
        # a capped chain end: SAME residue name and SAME bare bond graph as its repeat unit, but one (sometimes every)
        # atom carries another name (PEO C1-O1-C2 ... C1-O1-N2) - and it sits in the SAME molecule as the repeat unit
        base = rng.randrange(len(kinds))
        twin = json.loads(json.dumps(kinds[base]))
        twin.pop("alias_of", None)
        renamed = range(len(twin["atoms"])) if rng.random() < 0.25 else [rng.randrange(len(twin["atoms"]))]
        for a in renamed:
            twin["atoms"][a]["name"] = "N" + twin["atoms"][a]["name"]
        twin["alias_of"] = base
        twin["cap_of"] = base
        kinds.append(twin)
        cap = (base, len(kinds) - 1)
    # molecule types: no type mixes two kinds of the same residue name (except a repeat unit and its capped end)
    nmol = 1 if small else rng.randint(1, 3)
    moltypes = []
    for m in range(nmol):
        nres = rng.randint(1, 3 if small else 4)
        seq = []
        for _ in range(nres):
            cand = [i for i, k in enumerate(kinds)
                    if all(kinds[j]["resname"] != k["resname"] or j == i or (cap is not None and {i, j} == set(cap))
                           for j in seq)]
            seq.append(rng.choice(cand))
        if cap is not None and m == 0:
            # the first molecule type holds the repeat unit and its capped end (in either order)
            seq = [k for k in seq if kinds[k]["resname"] != kinds[cap[0]]["resname"] or k in cap]
            for k in (cap if rng.random() < 0.7 else cap[::-1]):
                if k not in seq:
                    seq.append(k)
            nres = len(seq)
        links = []
        for r in range(1, nres):
            a = rng.randrange(r)
            links.append([a, rng.randrange(kinds[seq[a]]["nreal"]), r, rng.randrange(kinds[seq[r]]["nreal"])])
        moltypes.append(dict(name="M%d" % m, residues=seq, links=links, count=rng.choice([1, 1, 2])))
    spec = dict(kinds=kinds, moltypes=moltypes,
                skip_filter=(not small and rng.random() < (0.6 if cap is not None else 0.25)), build=None)
    if build_file and not small and rng.random() < 0.6:
        spec["build"] = gen_build_file(rng, spec)
    return spec


SCENARIOS = ("same-name-two-templates", "same-name-template-and-volume", "infeasible-first")


def force_scenario(rng, spec, scenario):
    """small structured shapes that every run must contain (the random stream meets them only now and then):
    two molecule types whose residues share a NAME but not the content, with build-file entries for that name;
    a residue that cannot be optimised as the first residue of the first molecule"""
    kinds = spec["kinds"]
    if scenario == "infeasible-first":
        tri = gen_kind(random.Random(0), kinds[0]["resname"], "BCDEFG"[0], vs_ok=False)
        tri.update(shape="infeasible", nreal=3, bonds=[[0, 1, 0.2], [1, 2, 0.2], [0, 2, 0.6]], constraints=[], angles=[],
                   impropers=[], vsites=[],
                   atoms=[dict(name="B%d" % (i + 1), atype="P", mass=72.0) for i in range(3)])
        kinds[0] = tri
        for mol in spec["moltypes"]:
            mol["links"] = [[a, min(i, 2) if mol["residues"][a] == 0 else i, b, min(j, 2) if mol["residues"][b] == 0 else j]
                            for a, i, b, j in mol["links"]]
        if 0 not in spec["moltypes"][0]["residues"]:
            spec["moltypes"][0]["residues"][0] = 0
            spec["moltypes"][0]["links"] = [[a, 0, b, 0] for a, _, b, _ in spec["moltypes"][0]["links"]]
        spec["build"] = None
        return spec
    base = 0
    other = gen_kind(rng, kinds[base]["resname"], "X", vs_ok=False)
    while wl_hash(kind_graph(other)) == wl_hash(kind_graph(kinds[base])):
        other = gen_kind(rng, kinds[base]["resname"], "X", vs_ok=False)
    other["alias_of"] = base
    kinds.append(other)
    k2 = len(kinds) - 1
    spec["moltypes"] = [dict(name="M0", residues=[base, base], links=[[0, 0, 1, 0]], count=1),
                        dict(name="M1", residues=[k2], links=[], count=rng.choice([1, 2]))]
    coords = lambda kind: [[dy(rng, -1, 1), dy(rng, -1, 1), dy(rng, -1, 1)] for _ in kind["atoms"]]
    blocks = [["volume", kinds[base]["resname"], round(rng.uniform(0.2, 1.5), 3)],
              ["template", base, coords(kinds[base]), True]]
    if scenario == "same-name-two-templates":
        blocks.append(["template", k2, coords(kinds[k2]), True])
    rng.shuffle(blocks)
    spec["build"] = blocks
    spec["skip_filter"] = False
    return spec


def gen_build_file(rng, spec):
    """blocks of a build file: ('volume', resname, v) and ('template', kind index, coords)"""
    kinds = spec["kinds"]
    used = sorted({k for m in spec["moltypes"] for k in m["residues"]})
    blocks = []
    for k in used:
        kind = kinds[k]
        same_name = [j for j in used if kinds[j]["resname"] == kind["resname"]]
        roll = rng.random()
        want_vol = roll < 0.45
        want_tmpl = 0.3 < roll < 0.75
        if len(same_name) > 1 and any(b[0] == "volume" and b[1] == kind["resname"] for b in blocks):
            want_vol = False      # one [ volumes ] line per residue name (it addresses every kind of that name)
        mine = []
        if want_vol:
            mine.append(["volume", kind["resname"], round(rng.uniform(0.2, 1.5), 3)])
        if want_tmpl:
            coords = [[dy(rng, -1, 1), dy(rng, -1, 1), dy(rng, -1, 1)] for _ in kind["atoms"]]
            bonds_section = True
            if enabled("template-without-bonds-ignored") and rng.random() < 0.3:
                bonds_section = False
            mine.append(["template", k, coords, bonds_section])
        rng.shuffle(mine)
        blocks += mine
    return blocks


# ------------------------------------------------------------------------------------------ writing / reading

def top_text(spec):
    lines = ["[ defaults ]", "1 2 no 1.0 1.0", "[ atomtypes ]"]
    for name, sigma, mass in ATYPES:
        lines.append("%s %s 0.0 A %s 2.0" % (name, mass, sigma))
    lines.append("%s %s 0.0 A %s 0.0" % (DUMMY[0], DUMMY[2], DUMMY[1]))
    layout = []
    for mol in spec["moltypes"]:
        lines += ["[ moleculetype ]", "%s 1" % mol["name"], "[ atoms ]"]
        offset, offsets = 1, []
        for resid, k in enumerate(mol["residues"], start=1):
            kind = spec["kinds"][k]
            offsets.append(offset)
            for idx, atom in enumerate(kind["atoms"]):
                lines.append("%d %s %d %s %s %d 0.0 %s" % (offset + idx, atom["atype"], resid, kind["resname"],
                                                          atom["name"], offset + idx, atom["mass"]))
            offset += len(kind["atoms"])
        layout.append(offsets)
        sections = {"bonds": [], "constraints": [], "angles": [], "dihedrals": []}
        vs_sections = {}
        for r, k in enumerate(mol["residues"]):
            kind, off = spec["kinds"][k], offsets[r]
            for i, j, length in kind["bonds"]:
                sections["bonds"].append("%d %d 1 %s 1000" % (off + i, off + j, length))
            for i, j, length in kind["constraints"]:
                sections["constraints"].append("%d %d 1 %s" % (off + i, off + j, length))
            for i, j, l, theta in kind["angles"]:
                sections["angles"].append("%d %d %d 1 %s 100" % (off + i, off + j, off + l, theta))
            for i, j, l, m, theta in kind["impropers"]:
                sections["dihedrals"].append("%d %d %d %d 2 %s 100" % (off + i, off + j, off + l, off + m, theta))
            for vs in kind["vsites"]:
                atoms = " ".join(str(off + a) for a in vs["atoms"])
                params = " ".join(str(p) for p in vs["params"])
                if vs["section"] == "virtual_sitesn":
                    line = "%d %s %s" % (off + vs["site"], vs["func"], atoms)
                else:
                    line = "%d %s %s %s" % (off + vs["site"], atoms, vs["func"], params)
                vs_sections.setdefault(vs["section"], []).append(line)
        for a, i, b, j in mol["links"]:
            sections["bonds"].append("%d %d 1 0.47 1000" % (offsets[a] + i, offsets[b] + j))
        for name in ("bonds", "constraints", "angles", "dihedrals"):
            if sections[name]:
                lines += ["[ %s ]" % name] + sections[name]
        for name in sorted(vs_sections):
            lines += ["[ %s ]" % name] + vs_sections[name]
    lines += ["[ system ]", "verif", "[ molecules ]"]
    for mol in spec["moltypes"]:
        lines.append("%s %d" % (mol["name"], mol["count"]))
    return "\n".join(lines) + "\n"


def build_text(spec):
    lines = []
    for block in spec["build"] or []:
        if block[0] == "volume":
            lines += ["[ volumes ]", "%s %s" % (block[1], block[2])]
        else:
            _, k, coords, bonds_section = block
            kind = spec["kinds"][k]
            lines += ["[ template ]", "resname %s" % kind["resname"], "[ atoms ]"]
            for atom, xyz in zip(kind["atoms"], coords):
                lines.append("%s %s %s %s %s" % (atom["name"], atom["atype"], xyz[0], xyz[1], xyz[2]))
            if bonds_section:
                lines.append("[ bonds ]")
                for i, j, _ in kind["bonds"] + kind["constraints"]:
                    lines.append("%s %s" % (kind["atoms"][i]["name"], kind["atoms"][j]["name"]))
    return lines


def build_topology(spec):
    """real parse of the generated .top (and nothing else yet); returns (topology, residue table)"""
    from polyply.src.topology import Topology
    with tempfile.TemporaryDirectory() as tmpdir:
        path = os.path.join(tmpdir, "system.top")
        with open(path, "w") as handle:
            handle.write(top_text(spec))
        topology = Topology.from_gmx_topfile(path, "verif")
    topology.preprocess()
    return topology, None


def kind_graph(kind):
    """the atom-name-labelled bond graph of a residue kind (what the residue fragment graph looks like)"""
    import networkx as nx
    graph = nx.Graph()
    for atom in kind["atoms"]:
        graph.add_node(atom["name"], atomname=atom["name"])
    for i, j, _ in kind["bonds"] + kind["constraints"]:
        graph.add_edge(kind["atoms"][i]["name"], kind["atoms"][j]["name"])
    return graph


def wl_hash(graph):
    """ORACLE: the same networkx function the code uses"""
    import networkx as nx
    return nx.algorithms.graph_hashing.weisfeiler_lehman_graph_hash(graph, node_attr="atomname")


def iso_classes(graphs):
    """ORACLE for isomorphism of atom-name-labelled graphs: networkx VF2, independent of the hash"""
    import networkx as nx
    reps, out = [], []
    for graph in graphs:
        for idx, rep in enumerate(reps):
            if nx.is_isomorphic(graph, rep, node_match=lambda a, b: a.get("atomname") == b.get("atomname")):
                out.append(idx)
                break
        else:
            reps.append(graph)
            out.append(len(reps) - 1)
    return out


# ------------------------------------------------------------------------------------------ measurements

def m_dist(a, b):
    d = np.asarray(a, dtype=float) - np.asarray(b, dtype=float)
    return math.sqrt(float(d @ d))


def m_angle(a, b, c):
    u = np.asarray(a, dtype=float) - np.asarray(b, dtype=float)
    w = np.asarray(c, dtype=float) - np.asarray(b, dtype=float)
    cosv = float(u @ w) / (math.sqrt(float(u @ u)) * math.sqrt(float(w @ w)))
    return math.degrees(math.acos(max(-1.0, min(1.0, cosv))))


def m_dihedral(a, b, c, d):
    """IUPAC / GROMACS sign convention, by atan2"""
    a, b, c, d = (np.asarray(x, dtype=float) for x in (a, b, c, d))
    b1, b2, b3 = b - a, c - b, d - c
    n1, n2 = np.cross(b1, b2), np.cross(b2, b3)
    return math.degrees(math.atan2(math.sqrt(float(b2 @ b2)) * float(b1 @ n2), float(n1 @ n2)))


def measure_items(block, coords, inter_types):
    """what the verdict loop of optimize_geometry looks at, measured independently of the repository's
    `angle` / `dih`"""
    items = []
    for inter_type in inter_types:
        for inter in block.interactions.get(inter_type, []):
            pts = [coords[name] for name in inter.atoms]
            improper = False
            if inter_type in ("bonds", "constraints"):
                value = m_dist(pts[0], pts[1])
            elif inter_type == "angles":
                value = m_angle(pts[0], pts[1], pts[2])
            else:
                improper = inter.parameters[0] == "2"
                value = m_dihedral(*pts) if improper else 0.0
            if not math.isfinite(value):
                return None
            items.append(dict(kind=inter_type, improper=improper, value=rat_str(value),
                              target=rat_str(float(inter.parameters[1]))))
    return items


# ------------------------------------------------------------------------------------------ system stream

class Capture:
    """interposition on generate_templates' helpers (harness process only): one record per generated template"""

    NAMES = ("extract_block", "optimize_geometry", "compute_volume", "map_from_CoG")

    def __init__(self):
        self.records = []
        self.ok = True

    def __enter__(self):
        import polyply.src.generate_templates as gt
        self.gt = gt
        self.orig = {}
        for name in self.NAMES:
            if not hasattr(gt, name):
                self.ok = False
                continue
            self.orig[name] = getattr(gt, name)
        orig = self.orig

        def extract_block(*args, **kwargs):
            block = orig["extract_block"](*args, **kwargs)
            self.records.append(dict(block=block, opt=None, volume=None, coords=None))
            return block

        def optimize_geometry(block, coords, inter_types=None, **kwargs):
            success, out = orig["optimize_geometry"](block, coords, inter_types, **kwargs)
            if self.records:
                self.records[-1]["opt"] = (bool(success), list(inter_types),
                                           {k: np.array(v, dtype=float) for k, v in out.items()})
            return success, out

        def compute_volume(*args, **kwargs):
            vol = orig["compute_volume"](*args, **kwargs)
            if self.records:
                self.records[-1]["volume"] = float(vol)
            return vol

        def map_from_cog(coords):
            if self.records and self.records[-1]["coords"] is None:
                self.records[-1]["coords"] = {k: np.array(v, dtype=float) for k, v in coords.items()}
            return orig["map_from_CoG"](coords)

        wrappers = dict(extract_block=extract_block, optimize_geometry=optimize_geometry,
                        compute_volume=compute_volume, map_from_CoG=map_from_cog)
        for name in self.orig:
            setattr(gt, name, wrappers[name])
        return self

    def __exit__(self, *exc):
        for name, fun in self.orig.items():
            setattr(self.gt, name, fun)
        return False


def system_case(ctx, replay):
    from polyply.src.generate_templates import GenerateTemplates
    import polyply.src.build_file_parser as bfp
    rng = random.Random(replay["seed"])
    spec = gen_topology_spec(rng, small=replay.get("small", False))
    if replay.get("scenario"):
        spec = force_scenario(rng, spec, replay["scenario"])
    kinds = spec["kinds"]
    try:
        topology, _ = build_topology(spec)
    except Exception as exc:  # pylint: disable=broad-except
        # reading topologies is C08/C09's business; record and skip
        ctx.tally(topology_rejected=type(exc).__name__)
        return [], lambda answers: ctx.case(None, stream="system", outcome="topology-rejected")
    volumes0 = {k: float(v) for k, v in topology.volumes.items()}
    # --- build file (real parser), recording what compute_volume returned for user templates
    bf_ops, bf_err = [], None
    has_bf = spec["build"] is not None
    if has_bf:
        recorded = []
        orig_cv = bfp.compute_volume

        def cv(*args, **kwargs):
            out = orig_cv(*args, **kwargs)
            recorded.append(float(out))
            return out
        bfp.compute_volume = cv
        try:
            bfp.read_build_file(build_text(spec), topology, topology.molecules)
        except Exception as exc:  # pylint: disable=broad-except
            bf_err = "%s: %s" % (type(exc).__name__, exc)
        finally:
            bfp.compute_volume = orig_cv
        rec_iter = iter(recorded)
        seen_vol_keys = set(volumes0)
        for block in spec["build"]:
            if block[0] == "volume":
                bf_ops.append(dict(kind="volume", resname=block[1], v=rat_str(block[2])))
                seen_vol_keys.add(block[1])
            else:
                _, k, coords, bonds_section = block
                if not bonds_section:
                    continue      # gated finding: such a block never reaches finalize_section
                kind = kinds[k]
                ghash = wl_hash(kind_graph(kind))
                vol = 0.0
                if ghash not in seen_vol_keys:
                    vol = next(rec_iter, 0.0)
                    seen_vol_keys.add(ghash)
                bf_ops.append(dict(kind="template", resname=kind["resname"], hash=ghash, volume=rat_str(vol),
                                   coords=[[a["name"], v3(xyz)] for a, xyz in zip(kind["atoms"], coords)]))
    if bf_err is not None:
        def judge_bf(_answers):
            ctx.oracle_fail("build-file-rejected", "read_build_file raised %s on %s" % (bf_err, build_text(spec)), replay)
            ctx.case(None, stream="system", outcome="build-file-raises")
        return [], judge_bf
    bf_volumes = {k: float(v) for k, v in topology.volumes.items()}
    bf_templates = {}
    if has_bf and hasattr(topology.molecules[0], "templates"):
        bf_templates = {k: {a: np.array(p, dtype=float) for a, p in t.items()}
                        for k, t in topology.molecules[0].templates.items()}
    # --- the residues as the harness sees them (independent of the code's hashing)
    residues = []       # per molecule: list of dict(kind, resname, hash)
    for mol in spec["moltypes"]:
        for _ in range(mol["count"]):
            residues.append([dict(kind=k, resname=kinds[k]["resname"], hash=wl_hash(kind_graph(kinds[k])))
                             for k in mol["residues"]])
    # --- the real run
    np.random.seed(replay["seed"] % (2 ** 31))
    with Capture() as cap:
        try:
            GenerateTemplates(topology=topology, max_opt=10, skip_filter=spec["skip_filter"]).run_system(topology)
            err = None
        except Exception as exc:  # pylint: disable=broad-except
            err = "%s: %s" % (type(exc).__name__, exc)
    if err is not None:
        def judge_err(_answers):
            shape = "generate-templates-raises"
            if "UnboundLocalError" in err and "resname" in err:
                shape = "unoptimised-first-template-crashes"
            ctx.oracle_fail(shape, "GenerateTemplates.run_system raised %s; input seed %s, "
                            "topology:\n%s" % (err, replay["seed"], top_text(spec)[:1500]), replay)
            ctx.case(None, stream="system", outcome="raises")
        return [], judge_err
    molecules = topology.molecules
    attrs = [[molecules[m].nodes[n]["template"] for n in molecules[m].nodes] for m in range(len(molecules))]
    fin_templates = {k: {a: np.array(p, dtype=float) for a, p in t.items()} for k, t in molecules[0].templates.items()}
    same_dict = all(mol.templates is molecules[0].templates for mol in molecules)
    fin_volumes = {k: float(v) for k, v in topology.volumes.items()}
    # process history: a SECOND GenerateTemplates run on the same topology object.  Every residue has its template
    # by now (to the second run they are supplied ones: "used unchanged"), so nothing may be regenerated or moved.
    try:
        GenerateTemplates(topology=topology, max_opt=10, skip_filter=spec["skip_filter"]).run_system(topology)
        attrs2 = [[molecules[m].nodes[n]["template"] for n in molecules[m].nodes] for m in range(len(molecules))]
        templ2 = molecules[0].templates
        changed = []
        if attrs2 != attrs:
            changed.append("template keys of the residues")
        if sorted(templ2) != sorted(fin_templates) or any(
                sorted(templ2[k]) != sorted(fin_templates[k]) or
                any(not np.array_equal(np.array(templ2[k][a], dtype=float), fin_templates[k][a]) for a in fin_templates[k])
                for k in fin_templates if k in templ2):
            changed.append("templates")
        if {k: float(v) for k, v in topology.volumes.items()} != fin_volumes:
            changed.append("sizes")
        second_run = "; ".join(changed) if changed else None
    except Exception as exc:  # pylint: disable=broad-except
        second_run = "raised %s: %s" % (type(exc).__name__, exc)
    generated = [k for k in fin_templates if k not in bf_templates]
    records = cap.records if cap.ok and len(cap.records) == len(generated) and \
        all(r["coords"] is not None for r in cap.records) else None
    gen = []
    for idx, ghash in enumerate(generated):
        if records is not None:
            rec = records[idx]
            block = rec["block"]
            resname = block.nodes[list(block.nodes)[0]]["resname"]
            gen.append(dict(hash=ghash, coords=tmpl(rec["coords"]), resname=resname,
                            volume=rat_str(rec["volume"] if rec["volume"] is not None else 0.0)))
        else:
            owner = next(r for mol in residues for r in mol if r["hash"] == ghash)
            gen.append(dict(hash=ghash, coords=tmpl(fin_templates[ghash]), resname=owner["resname"],
                            volume=rat_str(fin_volumes.get(ghash, 0.0))))
    reqs = [dict(op="system", volumes0=[[k, rat_str(v)] for k, v in volumes0.items()], build_file=has_bf, ops=bf_ops,
                 molecules=[[[r["resname"], r["hash"]] for r in mol] for mol in residues],
                 skip_filter=spec["skip_filter"], gen=gen)]
    # --- oracle requests
    flat = [r for mol in residues for r in mol]
    flat_attrs = [a for mol in attrs for a in mol]
    classes = iso_classes([kind_graph(kinds[r["kind"]]) for r in flat])
    reqs.append(dict(op="spec_sharing", residues=[dict(iso=c, names=sorted(a["name"] for a in kinds[r["kind"]]["atoms"]),
                                                       attr=attr) for r, c, attr in zip(flat, classes, flat_attrs)]))
    per_template = []     # (hash, kind index) for every template some residue points to
    for r, attr in zip(flat, flat_attrs):
        if attr in fin_templates and all(attr != h for h, _ in per_template):
            per_template.append((attr, r["kind"]))
    tmpl_reqs = []
    for ghash, k in per_template:
        names = sorted(a["name"] for a in kinds[k]["atoms"])
        template = fin_templates[ghash]
        tmpl_reqs.append(("template", ghash, k, dict(op="spec_template", template=tmpl(template), sorted_names=names,
                                                     sorted_keys=sorted(template), tol=TOL9)))
        if ghash in bf_templates:
            continue          # positions of a user template are the user's, virtual sites included
        for vs in kinds[k]["vsites"]:
            site = kinds[k]["atoms"][vs["site"]]["name"]
            cons = [kinds[k]["atoms"][a] for a in vs["atoms"]]
            if site not in template or any(c["name"] not in template for c in cons):
                continue
            params = [float(p) for p in vs["params"]]
            if (vs["section"], vs["func"]) == ("virtual_sites3", "3"):
                params = [float(np.cos(np.deg2rad(params[0]))), float(np.sin(np.deg2rad(params[0]))), params[1]]
            tmpl_reqs.append(("vs", ghash, k, dict(op="gmx", vs_type=vs["section"], func=vs["func"],
                                                   params=[rat_str(p) for p in params],
                                                   masses=[rat_str(c["mass"]) for c in cons],
                                                   xs=[v3(template[c["name"]]) for c in cons],
                                                   got=v3(template[site]), tol=TOL6)))
    reqs += [r[3] for r in tmpl_reqs]
    # a size that is not the user's is the size computed from the residue's OWN template
    user_vol_names = {b[1] for b in (spec["build"] or []) if b[0] == "volume"}
    sigma = {name: sig for name, sig, _ in ATYPES + [DUMMY]}
    size_reqs = []
    for ghash, k in per_template:
        names_of_hash = {q["resname"] for q in flat if q["hash"] == ghash}
        if ghash in bf_templates or names_of_hash & user_vol_names or ghash not in fin_volumes:
            continue
        template = fin_templates[ghash]
        atype = {a["name"]: a["atype"] for a in kinds[k]["atoms"]}
        if sorted(template) != sorted(atype):
            continue
        cog = np.average(np.array(list(template.values())), axis=0)
        if len(template) > 1 and min(float(np.linalg.norm(vec - cog)) for vec in template.values()) < 1e-9:
            # an atom ON the centre (e.g. a COG virtual site): compute_volume's threshold (1e-18) is below the
            # rounding noise, the atom is pushed out by its radius along a noise direction -> not reproducible
            ctx.tally(own_size_ill_conditioned=True)
            continue
        atoms = [dict(diff=v3(vec - cog), nrm=rat_str(float(np.linalg.norm(vec - cog))), rad=rat_str(sigma[atype[name]]))
                 for name, vec in template.items()]
        size_reqs.append((ghash, k, dict(op="volume", atoms=atoms)))
    reqs += [r[2] for r in size_reqs]
    verdict_reqs = []
    if records is not None:
        for ghash, rec in zip(generated, records):
            if rec["opt"] is None:
                continue
            success, inter_types, coords = rec["opt"]
            items = measure_items(rec["block"], coords, inter_types)
            if items is None:
                ctx.tally(non_finite_geometry=True)
                continue
            # the property speaks about EVERY bond, constraint, angle and improper of a template reported as
            # optimised, whatever list of interaction types the last optimisation stage was handed
            every = measure_items(rec["block"], coords, ["bonds", "constraints", "angles", "dihedrals"])
            verdict_reqs.append((ghash, success, dict(op="verdict", items=items), dict(op="verdict", items=every or items)))
    reqs += [r for v in verdict_reqs for r in (v[2], v[3])]
    user_reqs = []
    for block in spec["build"] or []:
        if block[0] == "template" and block[3]:
            kind = kinds[block[1]]
            ghash = wl_hash(kind_graph(kind))
            if ghash in bf_templates:
                user_reqs.append((ghash, dict(op="spec_close", tol=TOL9, a=tmpl(bf_templates[ghash]), centre_b=True,
                                              b=[[a["name"], v3(xyz)] for a, xyz in zip(kind["atoms"], block[2])])))
    reqs += [r[1] for r in user_reqs]

    def judge(answers):
        model = answers[0]
        # ---- correspondence of the bookkeeping
        if not model["ok"]:
            ctx.correspond("run_system", dict(ok=True), dict(ok=False, err=model.get("err")), replay)
        else:
            impl = dict(attrs=attrs, template_keys=sorted(fin_templates), volume_keys=sorted(fin_volumes),
                        bf_volume_keys=sorted(bf_volumes), bf_template_keys=sorted(bf_templates), close=True)
            m_templates = {k: dict((a, p) for a, p in t) for k, t in model["templates"]}
            m_volumes = dict((k, v) for k, v in model["volumes"])
            m_bfvol = dict((k, v) for k, v in model["bf_volumes"])
            agree, detail = True, None
            for key in set(fin_volumes) & set(m_volumes):
                if not close(fin_volumes[key], common.rat_parse(m_volumes[key])):
                    agree, detail = False, "volume[%s]: impl %r model %r" % (key, fin_volumes[key], float(common.rat_parse(m_volumes[key])))
            for key in set(bf_volumes) & set(m_bfvol):
                if not close(bf_volumes[key], common.rat_parse(m_bfvol[key])):
                    agree, detail = False, "build-file volume[%s]: impl %r model %r" % (key, bf_volumes[key], float(common.rat_parse(m_bfvol[key])))
            for key in set(fin_templates) & set(m_templates):
                t_impl, t_model = fin_templates[key], m_templates[key]
                if sorted(t_impl) != sorted(t_model) or any(not vec_close(t_impl[a], t_model[a]) for a in t_impl):
                    agree, detail = False, "template[%s] differs" % key
            mod = dict(attrs=model["attrs"], template_keys=sorted(m_templates), volume_keys=sorted(m_volumes),
                       bf_volume_keys=sorted(m_bfvol), bf_template_keys=sorted(k for k, _ in model["bf_templates"]),
                       close=agree)
            if detail:
                mod["detail"] = detail
            ctx.correspond("run_system", impl, mod, replay)
        if not same_dict:
            ctx.oracle_fail("templates-not-shared", "molecules of one system ended with different templates objects", replay)
        # ---- the property on the real output
        if second_run is not None:
            ctx.oracle_fail("second-run-changes-templates", "a second GenerateTemplates(skip_filter=%s).run_system on the same "
                            "topology changed what the first one had settled: %s" % (spec["skip_filter"], second_run), replay)
        idx = 1
        if not answers[idx]["sharing"]:
            ctx.oracle_fail("sharing", "isomorphic residues with different template keys, or residues with different atom "
                            "names under one key: %s" % [(r["resname"], c, a[:8]) for r, c, a in zip(flat, classes, flat_attrs)],
                            replay)
        idx += 1
        for r, attr in zip(flat, flat_attrs):
            if attr not in fin_templates or attr not in fin_volumes:
                ctx.oracle_fail("residue-without-template", "residue %s has template key %s but templates/volumes lack it"
                                % (r["resname"], attr), replay)
            elif not fin_volumes[attr] > 0:
                ctx.oracle_fail("size-not-positive", "size of residue %s is %r" % (r["resname"], fin_volumes[attr]), replay)
        for kind_of, ghash, k, req in tmpl_reqs:
            ans = answers[idx]
            idx += 1
            if kind_of == "template":
                if not ans["one_per_name"]:
                    ctx.oracle_fail("template-names", "template %s of residue %s does not hold exactly one position per atom "
                                    "name: keys %s, atom names %s" % (ghash[:8], kinds[k]["resname"], req["sorted_keys"],
                                                                      req["sorted_names"]), replay)
                if not ans["centred"]:
                    ctx.oracle_fail("template-not-centred", "centre of geometry of template %s (residue %s) is not zero (1e-9)"
                                    % (ghash[:8], kinds[k]["resname"]), replay)
            else:
                if not ans["ok"]:
                    ctx.tally(vs_spec_undefined=req["vs_type"] + "/" + req["func"])
                elif not ans["close"]:
                    shape = "vsn-com-as-cog" if (req["vs_type"], req["func"]) == ("virtual_sitesn", "2") else "virtual-site-misplaced"
                    ctx.oracle_fail(shape, "virtual site of [ %s ] function %s in residue %s is at %s, GROMACS constructs it at %s "
                                    "from its defining atoms (params %s, masses %s)"
                                    % (req["vs_type"], req["func"], kinds[k]["resname"],
                                       [float(common.rat_parse(x)) for x in req["got"]],
                                       [float(common.rat_parse(x)) for x in ans["v"]],
                                       [float(common.rat_parse(x)) for x in req["params"]],
                                       [float(common.rat_parse(x)) for x in req["masses"]]), replay)
                ctx.tally(vs_checked=req["vs_type"] + "/" + req["func"])
        for ghash, k, req in size_reqs:
            ans = answers[idx]["size"]
            idx += 1
            got = fin_volumes[ghash]
            if ans["kind"] == "sqrt":
                own = close(got * got, common.rat_parse(ans["q"]), 1e-6)
                want = math.sqrt(float(common.rat_parse(ans["q"])))
            elif ans["kind"] == "exact":
                own = close(got, common.rat_parse(ans["r"]), 1e-6)
                want = float(common.rat_parse(ans["r"]))
            else:
                own, want = True, None
            if not own:
                ctx.oracle_fail("size-not-from-own-template", "residue %s (template %s) has no user size; its size is %r but "
                                "the size computed from its own template is %r" % (kinds[k]["resname"], ghash[:8], got, want),
                                replay)
            ctx.tally(own_size_checked=True)
        for ghash, success, req, req_all in verdict_reqs:
            ans, ans_all = answers[idx], answers[idx + 1]
            idx += 2
            ctx.correspond("optimize_geometry-verdict", dict(success=success), dict(success=ans["success"]), replay)
            if success and not (ans["within"] and ans_all["within"]):
                off = [(it["kind"], round(float(common.rat_parse(it["value"])), 4), float(common.rat_parse(it["target"])))
                       for it in req_all["items"]
                       if not (it["kind"] == "dihedrals" and not it["improper"]) and
                       abs(float(common.rat_parse(it["value"])) - float(common.rat_parse(it["target"])))
                       > (0.05 if it["kind"] in ("bonds", "constraints") else 5)]
                ctx.oracle_fail("optimised-but-off-target", "template %s reported as optimised but an interaction of the final "
                                "coordinates misses its target by more than the tolerance (kind, value, target): %s"
                                % (ghash[:8], off), replay)
            ctx.tally(optimised=success)
        for ghash, req in user_reqs:
            ans = answers[idx]
            idx += 1
            if not ans["close"]:
                ctx.oracle_fail("user-template-altered", "template stored for the user's [ template ] %s is not the user's "
                                "coordinates minus their centre" % ghash[:8], replay)
            fin = fin_templates.get(ghash)
            if fin is None or sorted(fin) != sorted(bf_templates[ghash]) or \
                    any(not np.array_equal(fin[a], bf_templates[ghash][a]) for a in fin):
                ctx.oracle_fail("user-template-replaced", "the template of hash %s after GenerateTemplates is not the one the "
                                "build file supplied" % ghash[:8], replay)
            for r, attr in zip(flat, flat_attrs):
                if r["hash"] == ghash and attr != ghash:
                    ctx.oracle_fail("user-template-unused", "residue %s matches the user's template but points to %s"
                                    % (r["resname"], attr[:8]), replay)
        # user sizes
        user_vol = {}
        for block in spec["build"] or []:
            if block[0] == "volume":
                user_vol[block[1]] = float(block[2])
        templ_names = {}
        for block in spec["build"] or []:
            if block[0] == "template":
                templ_names.setdefault(kinds[block[1]]["resname"], []).append(
                    (wl_hash(kind_graph(kinds[block[1]])), block[3]))
        for r, attr in zip(flat, flat_attrs):
            if r["resname"] not in user_vol or attr not in fin_volumes:
                continue
            sharers = {q["resname"] for q in flat if q["hash"] == r["hash"]}
            if len(sharers) > 1:
                continue      # one size per hash is demanded too: two residue names under one hash cannot both win
            if fin_volumes[attr] != user_vol[r["resname"]]:
                shape = "user-volume-ignored"
                hashes = {h for h, _ in templ_names.get(r["resname"], [])}
                if len(hashes) >= 2:
                    shape = "user-volume-two-templates-one-name"
                elif any(h != r["hash"] for h in hashes):
                    shape = "user-volume-lost-other-hash"
                ctx.oracle_fail(shape, "[ volumes ] gives %s the size %r but the residue (template %s) got %r; build file: %s"
                                % (r["resname"], user_vol[r["resname"]], attr[:8], fin_volumes[attr], build_text(spec)), replay)
        for block in spec["build"] or []:
            if block[0] == "template" and not block[3]:
                ghash = wl_hash(kind_graph(kinds[block[1]]))
                if ghash not in bf_templates:
                    ctx.oracle_fail("template-without-bonds-ignored", "a [ template ] block without a [ bonds ] section is "
                                    "silently dropped (residue %s)" % kinds[block[1]]["resname"], replay)
        nres = len(flat)
        ctx.traces += 1
        ctx.case(("system", replay["seed"]) if nres >= 2 else None,
                 sample=dict(stream="system", seed=replay["seed"], residues=[r["resname"] for r in flat],
                             kinds=[k["shape"] for k in kinds], build_file=build_text(spec)[:12]),
                 stream="system", residues=nres if nres <= 3 else "4+", molecule_types=len(spec["moltypes"]),
                 build_file=has_bf, skip_filter=spec["skip_filter"], generated=len(generated) if len(generated) <= 3 else "4+",
                 user_templates=len(bf_templates), captured=records is not None,
                 same_name_other_content=any("alias_of" in k for k in kinds),
                 capped_end_in_same_molecule=any("cap_of" in k for k in kinds), scenario=replay.get("scenario", "random"))
        for k in {r["kind"] for r in flat}:
            ctx.tally(kind_shape=kinds[k]["shape"])
    return reqs, judge


# ------------------------------------------------------------------------------------------ direct streams

def make_interaction(atoms, parameters):
    from vermouth.molecule import Interaction
    return Interaction(atoms=tuple(atoms), parameters=[str(p) for p in parameters], meta={})


def vs_case(ctx, replay):
    """virtual_site_builder.construct_vs, every table entry, against the model and the GROMACS definition"""
    from polyply.src import virtual_site_builder as vsb
    rng = random.Random(replay["seed"])
    table = [(k, v.__name__) for k, v in vsb.VIRTUAL_SITES.items()]
    (vs_type, func), _ = table[replay["entry"] % len(table)]
    natural = {"virtual_sites2": 2, "virtual_sites3": 3, "virtual_sites4": 4}.get(vs_type) or rng.randint(1, 5)
    natoms = natural if rng.random() < 0.85 else rng.randint(1, 5)
    nparams = {("virtual_sites2", "1"): 1, ("virtual_sites3", "1"): 2, ("virtual_sites3", "2"): 2,
               ("virtual_sites3", "3"): 2, ("virtual_sites3", "4"): 3, ("virtual_sites4", "2"): 3}.get((vs_type, func), 0)
    params = [dy(rng, -1, 2, 4) for _ in range(nparams)]
    if (vs_type, func) == ("virtual_sites3", "3"):
        params[0] = float(rng.choice([30, 60, 90, 110, 135, 17.5]))
    names = ["S"] + ["a%d" % i for i in range(natoms)]
    positions = {n: np.array([dy(rng, -2, 2), dy(rng, -2, 2), dy(rng, -2, 2)]) for n in names}
    inter = make_interaction(names, [func] + params)
    masses = [float(rng.choice([12.0, 36.0, 72.0])) for _ in range(natoms)]
    try:
        with np.errstate(all="ignore"):
            out = vsb.construct_vs(vs_type, inter, positions)
        impl = [float(x) for x in out]
        if not all(math.isfinite(x) for x in impl):
            impl = None
    except Exception:  # pylint: disable=broad-except
        impl = None
    m_params = list(params)
    if (vs_type, func) == ("virtual_sites3", "3"):
        m_params = [float(np.cos(np.deg2rad(params[0]))), float(np.sin(np.deg2rad(params[0]))), params[1]]
    xs = [v3(positions[n]) for n in names[1:]]
    reqs = [dict(op="vs", vs_type=vs_type, func=func, params=[rat_str(p) for p in m_params], xs=xs)]
    gated = (vs_type, func) in (("virtual_sitesn", "2"), ("virtual_sitesn", "3"))
    want_spec = impl is not None and natoms == natural and (not gated or enabled("vsn-com-as-cog"))
    if want_spec:
        reqs.append(dict(op="gmx", vs_type=vs_type, func=func, params=[rat_str(p) for p in (masses if func == "3" and gated else m_params)],
                         masses=[rat_str(m) for m in masses], xs=xs, got=v3(impl), tol=TOL6))

    def judge(answers):
        model = answers[0]
        degenerate = False
        if impl is None and model["ok"]:
            # a 0/0 in the doubles (nan) is a value for numpy and a division by zero (= 0) for the model
            degenerate = True
        if not degenerate:
            agree = (impl is None and not model["ok"]) or (impl is not None and model["ok"] and vec_close(impl, model["v"]))
            ctx.correspond("construct_vs", dict(close=True), dict(close=agree, entry=[vs_type, func], impl=impl,
                           model=model.get("v")) if not agree else dict(close=True), replay)
        if want_spec:
            ans = answers[1]
            if ans["ok"] and not ans["close"]:
                shape = "vsn-com-as-cog" if gated else "virtual-site-misplaced"
                ctx.oracle_fail(shape, "construct_vs(%s, function %s) returns %s, the GROMACS construction gives %s (params %s, "
                                "masses %s)" % (vs_type, func, impl, [float(common.rat_parse(x)) for x in ans["v"]], params, masses),
                                replay)
        ctx.case(("vs", replay["seed"], replay["entry"]) if natoms >= 2 else None,
                 sample=dict(stream="vs", entry=[vs_type, func], atoms=natoms), stream="vs",
                 vs_entry=vs_type + "/" + func, vs_outcome="value" if impl is not None else "raises-or-nan")
    return reqs, judge


def cog_case(ctx, replay):
    from polyply.src.generate_templates import map_from_CoG
    rng = random.Random(replay["seed"])
    n = rng.choice([1, 2, 3, 4, 5, 7, 8])
    coords = {"N%d" % i: np.array([dy(rng, -4, 4), dy(rng, -4, 4), dy(rng, -4, 4)]) for i in range(n)}
    keys = list(coords)
    rng.shuffle(keys)
    coords = {k: coords[k] for k in keys}
    out = map_from_CoG(coords)
    reqs = [dict(op="map_from_cog", coords=tmpl(coords)),
            dict(op="spec_template", template=tmpl(out), sorted_names=sorted(coords), sorted_keys=sorted(out), tol=TOL9)]

    def judge(answers):
        model = answers[0]["out"]
        agree = [k for k, _ in model] == list(out) and all(vec_close(out[k], v) for k, v in model)
        ctx.correspond("map_from_CoG", dict(close=True, keys=list(out)), dict(close=agree, keys=[k for k, _ in model]), replay)
        if not answers[1]["centred"] or not answers[1]["one_per_name"]:
            ctx.oracle_fail("template-not-centred", "map_from_CoG output is not centred / loses a key: %s" % coords, replay)
        ctx.case(("cog", replay["seed"]) if n >= 2 else None, sample=dict(stream="cog", n=n), stream="cog", atoms=n if n <= 3 else "4+")
    return reqs, judge


def verdict_case(ctx, replay):
    """optimize_geometry on a small block; `stub` replaces scipy's minimiser by the identity so that the verdict
    is evaluated on the coordinates handed in (the optimiser is an oracle anyway)"""
    import vermouth
    import scipy.optimize
    from polyply.src.minimizer import optimize_geometry
    rng = random.Random(replay["seed"])
    n = rng.randint(2, 5)
    block = vermouth.molecule.Block()
    names = ["A%d" % i for i in range(n)]
    ideal = {}
    pos = np.zeros(3)
    for i, name in enumerate(names):
        block.add_node(name, atomname=name, resname="X")
        ideal[name] = pos.copy()
        step = np.array([dy(rng, -1, 1), dy(rng, -1, 1), dy(rng, -1, 1)])
        if not step.any():
            step = np.array([0.5, 0.0, 0.0])
        pos = pos + step * (0.3 / np.linalg.norm(step))
    scale = rng.choice([0.0, 0.01, 0.04, 0.06, 0.2])
    coords = {k: v + scale * np.array([dy(rng, -1, 1), dy(rng, -1, 1), dy(rng, -1, 1)]) for k, v in ideal.items()}
    for i in range(n - 1):
        kind = "constraints" if rng.random() < 0.3 else "bonds"
        block.interactions.setdefault(kind, []).append(
            make_interaction([names[i], names[i + 1]], ["1", repr(round(m_dist(ideal[names[i]], ideal[names[i + 1]]), 4))]))
    for i in range(n - 2):
        if rng.random() < 0.7:
            theta = m_angle(ideal[names[i]], ideal[names[i + 1]], ideal[names[i + 2]]) + rng.choice([0, 0, 3, 4.9, 5.1, 8, -6])
            block.interactions.setdefault("angles", []).append(
                make_interaction(names[i:i + 3], ["1", repr(round(theta, 3)), "100"]))
    for i in range(n - 3):
        if rng.random() < 0.7:
            phi = m_dihedral(*[ideal[x] for x in names[i:i + 4]]) + rng.choice([0, 0, 3, 4.9, 5.1, 9])
            func = rng.choice(["2", "2", "1"])
            block.interactions.setdefault("dihedrals", []).append(
                make_interaction(names[i:i + 4], [func, repr(round(phi, 3)), "10"]))
    inter_types = rng.choice([["bonds", "constraints", "angles"], ["bonds", "constraints", "angles", "dihedrals"]])
    stub = replay["stub"]
    orig = scipy.optimize.minimize
    if stub:
        scipy.optimize.minimize = lambda fun, x0, **kwargs: {"x": np.array(x0, dtype=float)}
    try:
        np.random.seed(replay["seed"] % 1000)
        with np.errstate(all="ignore"):
            success, out = optimize_geometry(block, {k: v.copy() for k, v in coords.items()}, inter_types)
        err = None
    except Exception as exc:  # pylint: disable=broad-except
        success, out, err = None, None, "%s: %s" % (type(exc).__name__, exc)
    finally:
        scipy.optimize.minimize = orig
    items = measure_items(block, out, inter_types) if err is None else None
    reqs = [dict(op="verdict", items=items)] if items is not None else []

    def judge(answers):
        if err is not None:
            ctx.tally(verdict_raises=err.split(":")[0])
        elif items is None:
            ctx.tally(non_finite_geometry=True)
        else:
            ans = answers[0]
            ctx.correspond("optimize_geometry-verdict", dict(success=bool(success)), dict(success=ans["success"]), replay)
            if success and not ans["within"]:
                ctx.oracle_fail("optimised-but-off-target", "optimize_geometry reports success but an interaction misses its "
                                "target by more than the tolerance: %s" % items, replay)
            ctx.tally(verdict_success=bool(success), verdict_stub=stub)
        ctx.case(("verdict", replay["seed"], stub), sample=dict(stream="verdict", atoms=n, stub=stub), stream="verdict")
    return reqs, judge


def volume_case(ctx, replay):
    import vermouth
    from polyply.src.generate_templates import compute_volume
    rng = random.Random(replay["seed"])
    n = rng.choice([1, 1, 2, 3, 4, 5])
    mode = rng.choice(["spread", "spread", "stacked", "partly-central"])
    if replay.get("force") == "stacked-dummy-last":
        n, mode = rng.choice([2, 3, 4]), "stacked"
    block = vermouth.molecule.Block()
    coords, nb = {}, {}
    for name, sigma, _ in ATYPES + [DUMMY]:
        nb[frozenset([name, name])] = {"nb1": sigma, "nb2": 2.0}
    dummy_at = None
    if n >= 2 and rng.random() < 0.45:
        dummy_at = n - 1 if rng.random() < 0.7 else rng.randrange(1, n)     # a sigma-0 dummy, mostly listed last
    if replay.get("force") == "stacked-dummy-last":
        dummy_at = n - 1
    base = np.array([dy(rng, -2, 2), dy(rng, -2, 2), dy(rng, -2, 2)])
    for i in range(n):
        atype = DUMMY[0] if i == dummy_at else rng.choice(ATYPES)[0]
        block.add_node("A%d" % i, atomname="A%d" % i, atype=atype)
        if mode == "stacked":
            coords["A%d" % i] = base.copy()
        elif mode == "partly-central" and i == 0 and n >= 3:
            coords["A%d" % i] = None
        else:
            coords["A%d" % i] = np.array([dy(rng, -2, 2), dy(rng, -2, 2), dy(rng, -2, 2)])
    if coords.get("A0") is None and "A0" in coords:
        # put the first atom exactly at the centre of the others: n-1 a power of two keeps it exact
        others = [v for k, v in coords.items() if k != "A0"]
        while len(others) not in (2, 4):
            others.pop()
            coords.popitem()
            block.remove_node(list(block.nodes)[-1])
        coords["A0"] = sum(others) / len(others)
    n = len(coords)
    try:
        size = float(compute_volume(block, coords, nb))
        err = None
    except Exception as exc:  # pylint: disable=broad-except
        size, err = None, type(exc).__name__
    points = np.array(list(coords.values()))
    cog = np.average(points, axis=0)
    atoms = []
    for name, coord in coords.items():
        diff = coord - cog
        atoms.append(dict(diff=v3(diff), nrm=rat_str(float(np.linalg.norm(diff))),
                          rad=rat_str(nb[frozenset([block.nodes[name]["atype"]] * 2)]["nb1"])))
    reqs = [dict(op="volume", atoms=atoms)]

    def judge(answers):
        ans = answers[0]["size"]
        if err is not None:
            ctx.correspond("compute_volume", dict(kind="error"), dict(kind=ans["kind"]), replay)
        elif ans["kind"] == "sqrt":
            agree = close(size * size, common.rat_parse(ans["q"]))
            ctx.correspond("compute_volume", dict(close=True), dict(close=agree, impl=size, model_sq=float(common.rat_parse(ans["q"]))) if not agree else dict(close=True), replay)
        elif ans["kind"] == "exact":
            agree = close(size, common.rat_parse(ans["r"]), 1e-12)
            ctx.correspond("compute_volume", dict(close=True), dict(close=agree, impl=size, model=ans["r"]) if not agree else dict(close=True), replay)
        else:
            ctx.correspond("compute_volume", dict(kind="value", size=size), dict(kind="error"), replay)
        if size is not None and not size > 0:
            ctx.oracle_fail("size-not-positive", "compute_volume returned %r for coordinates %s with self sigma %s"
                            % (size, {k: v.tolist() for k, v in coords.items()},
                               {k: nb[frozenset([block.nodes[k]["atype"]] * 2)]["nb1"] for k in coords}), replay)
        ctx.case(("volume", replay["seed"]) if n >= 2 else None, sample=dict(stream="volume", atoms=n, mode=mode),
                 stream="volume", volume_mode=mode, volume_branch=answers[0]["size"]["kind"],
                 volume_dummy=("none" if dummy_at is None or dummy_at >= n else "last" if dummy_at == n - 1 else "inner"))
    return reqs, judge


# ------------------------------------------------------------------------------------------ block streams
# (extension: extract_block, _relabel_interaction_atoms, find_interaction_involving, _good_impropers,
#  _expand_inital_coords, renew_vs, target_function against Model/TemplatesBlock.lean)

BLOCK_TYPES = ["bonds", "angles", "constraints", "dihedrals", "virtual_sitesn", "virtual_sites2", "virtual_sites3",
               "virtual_sites4", "exclusions", "pairs"]
BLOCK_ARITY = {"bonds": (2, 2), "constraints": (2, 2), "angles": (3, 3), "dihedrals": (4, 4), "virtual_sitesn": (3, 5),
               "virtual_sites2": (3, 3), "virtual_sites3": (4, 4), "virtual_sites4": (5, 5), "exclusions": (2, 3),
               "pairs": (2, 2)}
BLOCK_DEFINES = {"LEN": ["0.47"], "KB": ["1250"], "BOTH": ["0.3", "500"], "CHAIN": ["LEN"], "EMPTY": []}
ATOL_ISCLOSE = 1e-8        # numpy's default `atol` of np.isclose (trusted; the model takes it as a parameter)


def ixn_json(inter, key=str):
    return dict(atoms=[key(a) for a in inter.atoms], params=[str(x) for x in inter.parameters],
                edge=bool(inter.meta.get("edge", True)))


def ixn_canon(obj):
    return (tuple(obj["atoms"]), tuple(obj["params"]), bool(obj["edge"]))


def typed_canon(pairs):
    """[(type, [interaction json])] -> sorted by type, empty types dropped; order inside a type kept"""
    return sorted((t, [ixn_canon(i) for i in l]) for t, l in pairs if l)


def gen_block_molecule(rng):
    """a vermouth Molecule of 1-4 residues with interactions inside residues and across them, parameters that
    are defines, repeated atom names inside a residue now and then, virtual sites, meta edge flags"""
    import vermouth
    from vermouth.molecule import Interaction
    mol = vermouth.molecule.Molecule()
    nres = rng.randint(1, 4)
    node = rng.choice([0, 0, 1, 7])
    pool = rng.choice([["A", "B", "C", "D", "E"], ["BB", "SC1", "SC2", "SC3", "VS"]])
    residues, repeated = [], False
    for res in range(nres):
        n = rng.randint(1, 5)
        names = pool[:n]
        if n >= 2 and rng.random() < 0.3:
            names = list(names)
            names[rng.randrange(1, n)] = names[0]
            repeated = True
        ids = []
        for name in names:
            mol.add_node(node, atomname=name, resname="R%d" % (res % 2), resid=res + 1, atype=rng.choice("PQS"), tag=node)
            ids.append(node)
            node += rng.choice([1, 1, 1, 2])
        residues.append(ids)
    everything = [n for ids in residues for n in ids]
    types = rng.sample(BLOCK_TYPES, rng.randint(1, 6))
    tokens = ["0.47", "1250", "LEN", "KB", "BOTH", "120", "CHAIN", "EMPTY", "1"]
    for inter_type in types:
        lo, hi = BLOCK_ARITY[inter_type]
        for _ in range(rng.randint(0, 3)):
            arity = rng.randint(lo, hi)
            src = rng.choice(residues) if rng.random() < 0.65 else everything
            atoms = rng.sample(src, arity) if len(src) >= arity else [rng.choice(src) for _ in range(arity)]
            params = [rng.choice(["1", "2"])] + [rng.choice(tokens) for _ in range(rng.randint(0, 3))]
            meta = rng.choice([{}, {}, {}, {"edge": False}, {"comment": "x"}, {"edge": True}])
            mol.interactions[inter_type].append(Interaction(atoms=tuple(atoms), parameters=params, meta=dict(meta)))
    defines = {k: list(BLOCK_DEFINES[k]) for k in BLOCK_DEFINES if rng.random() < 0.6}
    which = rng.randrange(nres)
    nodes = list(residues[which])
    if rng.random() < 0.3:
        rng.shuffle(nodes)
    if rng.random() < 0.12:
        nodes = rng.sample(everything, rng.randint(1, len(everything)))     # any node subset is a legal template graph
    return mol, nodes, defines, repeated


def block_case(ctx, replay):
    import copy
    import networkx as nx
    from polyply.src import generate_templates as gt
    rng = random.Random(replay["seed"])
    mol, nodes, defines, repeated = gen_block_molecule(rng)
    graph = nx.Graph()
    graph.add_nodes_from(nodes)
    names = [[n, mol.nodes[n]["atomname"]] for n in mol.nodes]
    mol_json = [[t, [ixn_json(i, int) for i in l]] for t, l in mol.interactions.items()]
    work = copy.deepcopy(mol)
    try:
        block = gt.extract_block(work, graph, {k: list(v) for k, v in defines.items()})
        err = None
    except Exception as exc:  # pylint: disable=broad-except
        block, err = None, "%s: %s" % (type(exc).__name__, exc)
    reqs = [dict(op="extract_block", names=names, nodes=nodes, interactions=mol_json,
                 defines=[[k, v] for k, v in defines.items()])]
    impl = None
    finds = []
    if err is None:
        impl = dict(nodes=sorted((str(k), block.nodes[k].get("tag")) for k in block.nodes),
                    interactions=typed_canon((t, [ixn_json(i) for i in l]) for t, l in block.interactions.items()),
                    edges=sorted({tuple(sorted((str(a), str(b)))) for a, b in block.edges}),
                    molecule_after=typed_canon((t, [ixn_json(i, int) for i in l]) for t, l in work.interactions.items()))
        # find_interaction_involving on the block the real code made
        block_names = [str(k) for k in block.nodes]
        block_json = [[t, [ixn_json(i) for i in l]] for t, l in block.interactions.items()]
        pairs = [(rng.choice(block_names), rng.choice(block_names)) for _ in range(3)] + [(block_names[0], "ZZ")]
        for cur, prev in pairs:
            try:
                flag, inter, inter_type = gt.find_interaction_involving(block, cur, prev)
                got = dict(ok=True, vs=bool(flag), interaction=ixn_canon(ixn_json(inter)), type=str(inter_type))
            except Exception:  # pylint: disable=broad-except
                got = dict(ok=False)
            finds.append(((cur, prev), got))
            reqs.append(dict(op="find", interactions=block_json, cur=cur, prev=prev))
    # _relabel_interaction_atoms on one interaction of the molecule (inside or across the node set)
    all_inters = [i for l in mol.interactions.values() for i in l]
    relabel = None
    if all_inters:
        inter = copy.deepcopy(rng.choice(all_inters))
        mapping = {n: mol.nodes[n]["atomname"] for n in nodes}
        try:
            out = gt._relabel_interaction_atoms(inter, mapping)  # pylint: disable=protected-access
            relabel = dict(ok=True, interaction=ixn_canon(ixn_json(out)))
        except KeyError:
            relabel = dict(ok=False)
        reqs.append(dict(op="relabel", names=names, nodes=nodes, interaction=ixn_json(inter, int)))

    def judge(answers):
        ans = answers[0]
        if err is not None:
            ctx.correspond("extract_block", dict(ok=False, err=err), dict(ok=True), replay)
            # no block, hence no template for a residue of a well-formed molecule
            ctx.oracle_fail("block-extraction-raises", "extract_block raised %s for the residue atoms %s of a molecule with the "
                            "interactions %s" % (err, nodes, mol_json), replay)
            ctx.case(None, stream="block", outcome="raises")
            return
        model = dict(nodes=sorted((k, n) for k, n in ans["nodes"]),
                     interactions=typed_canon(ans["interactions"]),
                     edges=sorted({tuple(sorted(e)) for e in ans["edges"]}),
                     molecule_after=typed_canon(ans["molecule_after"]))
        ctx.correspond("extract_block", impl, model, replay)
        # property text: one position per atom NAME -> one block node per distinct atom name of the residue
        keys = [k for k, _ in impl["nodes"]]
        if sorted(keys) != sorted(ans["spec_names"]) or len(set(keys)) != len(keys):
            ctx.oracle_fail("block-not-one-node-per-name", "extract_block made the nodes %s for a residue whose atom names are %s"
                            % (keys, [mol.nodes[n]["atomname"] for n in nodes]), replay)
        # frame: exactly the interactions inside the residue, relabelled
        if impl["interactions"] != typed_canon(ans["spec_inside"]):
            ctx.oracle_fail("block-interactions-not-inside", "block interactions %s, the molecule's interactions inside the residue are %s"
                            % (impl["interactions"], typed_canon(ans["spec_inside"])), replay)
        pos = 1
        for (cur, prev), got in finds:
            a = answers[pos]
            pos += 1
            mod = dict(ok=True, vs=a["vs"], interaction=ixn_canon(a["interaction"]), type=a["type"]) if a["ok"] else dict(ok=False)
            ctx.correspond("find_interaction_involving", got, mod, dict(replay, pair=[cur, prev]))
        if relabel is not None:
            a = answers[pos]
            mod = dict(ok=True, interaction=ixn_canon(a["interaction"])) if a["ok"] else dict(ok=False)
            ctx.correspond("_relabel_interaction_atoms", relabel, mod, replay)
        kept = sum(len(l) for _, l in impl["interactions"])
        total = sum(len(l) for l in mol.interactions.values())
        ctx.case(("block", replay["seed"]) if total >= 2 and len(mol.nodes) >= 3 else None,
                 sample=dict(stream="block", atoms=len(mol.nodes), interactions=total, kept=kept), stream="block",
                 block_names="repeated" if len(keys) < len(nodes) else "distinct",
                 block_kept="none" if kept == 0 else "all" if kept == total else "some",
                 block_defines="substituted" if impl["molecule_after"] != typed_canon(mol_json) else "untouched")
    return reqs, judge


FIND_TYPES = ["bonds", "constraints", "virtual_sitesn", "virtual_sites2", "virtual_sites3", "virtual_sites4", "angles"]


def find_case(ctx, replay):
    """find_interaction_involving, EXHAUSTIVE over ordered pairs of interaction types both holding an interaction
    with the two nodes (the dict order of block.interactions being the reverse of the search order or not), and
    over the variants linked / swapped / same node / unlinked"""
    import vermouth
    from polyply.src import generate_templates as gt
    first, second, variant = replay["first"], replay["second"], replay["variant"]
    block = vermouth.molecule.Block()
    for name in ("A", "B", "C", "V", "W"):
        block.add_node(name, atomname=name, resname="X")

    def atoms_for(inter_type, shift):
        if inter_type in ("bonds", "constraints"):
            return ["A", "B"] if not shift else ["B", "A"]
        if inter_type == "angles":
            return ["A", "B", "C"]
        return [("V" if not shift else "W"), "A", "B"] + (["C"] if inter_type in ("virtual_sites3", "virtual_sitesn") else []) \
            + (["C", "W" if not shift else "V"] if inter_type == "virtual_sites4" else [])
    order = [first, second] if variant % 2 == 0 else [second, first]
    for inter_type in order:     # dict insertion order
        block.interactions.setdefault(inter_type, [])
    # a decoy that holds only the current node comes first in every type
    for k, inter_type in enumerate([first, second]):
        if not block.interactions[inter_type]:
            block.interactions[inter_type].append(make_interaction(["A", "C"] if inter_type != "angles" else ["A", "C", "V"], ["1", "9"]))
        block.interactions[inter_type].append(make_interaction(atoms_for(inter_type, k == 1), ["1", "%d" % (k + 1)]))
    cur, prev = {0: ("A", "B"), 1: ("A", "B"), 2: ("B", "A"), 3: ("A", "A"), 4: ("A", "W"), 5: ("C", "W")}[variant]
    try:
        flag, inter, inter_type = gt.find_interaction_involving(block, cur, prev)
        got = dict(ok=True, vs=bool(flag), interaction=ixn_canon(ixn_json(inter)), type=str(inter_type))
    except Exception:  # pylint: disable=broad-except
        got = dict(ok=False)
    reqs = [dict(op="find", interactions=[[t, [ixn_json(i) for i in l]] for t, l in block.interactions.items()], cur=cur, prev=prev)]

    def judge(answers):
        a = answers[0]
        mod = dict(ok=True, vs=a["vs"], interaction=ixn_canon(a["interaction"]), type=a["type"]) if a["ok"] else dict(ok=False)
        ctx.correspond("find_interaction_involving", got, mod, replay)
        ctx.tally(find_type_pairs="exhaustive (7 x 7 ordered pairs x 6 variants)")
        ctx.case(("find", first, second, variant), sample=dict(stream="find", first=first, second=second, variant=variant),
                 stream="find", find_outcome=("virtual" if got.get("vs") else "bond-like") if got["ok"] else "raises")
    return reqs, judge


def impropers_case(ctx, replay):
    """_good_impropers: dihedrals of function types 1/2/4/9, references around zero and numpy's isclose bound"""
    import vermouth
    from polyply.src import generate_templates as gt
    rng = random.Random(replay["seed"])
    block = vermouth.molecule.Block()
    names = ["A%d" % i for i in range(rng.randint(4, 6))]
    coords = {}
    for name in names:
        block.add_node(name, atomname=name, resname="X")
        coords[name] = np.array([dy(rng, -2, 2), dy(rng, -2, 2), dy(rng, -2, 2)])
    refs = ["0", "0.0", "-0.0", "1e-9", "-1e-9", "1e-8", "-1e-8", "1.0000000000000002e-08", "2e-8", "-2e-8",
            "35", "-35", "180", "-180", "0.5", "-120"]
    items, degenerate = [], False
    for _ in range(rng.randint(0, 4)):
        atoms = rng.sample(names, 4)
        func = rng.choice(["2", "2", "2", "1", "4", "9"])
        ref = rng.choice(refs)
        block.interactions["dihedrals"].append(make_interaction(atoms, [func, ref, "50"]))
        angle = m_dihedral(*[coords[a] for a in atoms])
        if not math.isfinite(angle) or abs(angle) < 1e-6 or abs(abs(angle) - 180.0) < 1e-6:
            degenerate = True
        items.append(dict(func=func, angle=rat_str(angle), ref=rat_str(float(ref))))
    if rng.random() < 0.3:
        block.interactions["bonds"].append(make_interaction(names[:2], ["1", "0.3", "100"]))
    try:
        with np.errstate(all="ignore"):
            good = bool(gt._good_impropers(coords, block))  # pylint: disable=protected-access
        err = None
    except Exception as exc:  # pylint: disable=broad-except
        good, err = None, type(exc).__name__
    reqs = [dict(op="good_impropers", items=items, atol=rat_str(ATOL_ISCLOSE))]

    def judge(answers):
        if degenerate:
            ctx.tally(impropers_degenerate_geometry=True)      # sign of a flat / undefined dihedral: not compared
        elif err is not None:
            ctx.correspond("_good_impropers", dict(ok=False, err=err), dict(ok=True, good=answers[0]["good"]), replay)
        else:
            ctx.correspond("_good_impropers", dict(good=good), dict(good=answers[0]["good"]), replay)
        ctx.case(("impropers", replay["seed"]) if items and not degenerate else None,
                 sample=dict(stream="impropers", n=len(items)), stream="impropers",
                 impropers_good=str(good), impropers_n=len(items) if len(items) < 3 else "3+")
    return reqs, judge


def expand_case(ctx, replay):
    """_expand_inital_coords with a scripted layout sequence in place of networkx' Kamada-Kawai layout: which
    layout is returned and how many are drawn"""
    import inspect
    import networkx as nx
    import vermouth
    from polyply.src import generate_templates as gt
    rng = random.Random(replay["seed"])
    block = vermouth.molecule.Block()
    names = ["A", "B", "C", "D"]
    for name in names:
        block.add_node(name, atomname=name, resname="X")
    block.interactions["bonds"].append(make_interaction(["A", "B"], ["1", "0.3", "100"]))
    with_improper = rng.random() < 0.85
    if with_improper:
        block.interactions["dihedrals"].append(make_interaction(names, ["2", "35", "50"]))
    max_count = replay.get("max_count", rng.choice([0, 1, 2, 3, 5, 8]))
    goods = [rng.random() < 0.25 for _ in range(max_count + 3)]
    if rng.random() < 0.3:
        goods = [False] * len(goods)
    calls = []

    def layout(graph, *args, **kwargs):
        k = len(calls)
        calls.append(k)
        good = goods[k] if k < len(goods) else False
        z = -0.5 if good else 0.5       # sign of the dihedral A-B-C-D: + for z < 0 (GROMACS convention)
        base = {"A": [1.0, 0.0, 0.0], "B": [0.0, 0.0, 0.0], "C": [0.0, 1.0, 0.0], "D": [-0.5, 1.0, z]}
        return {n: np.array(base[n]) + np.array([float(k), 0.0, 0.0]) for n in graph.nodes}
    if m_dihedral([1.0, 0, 0], [0, 0, 0], [0, 1.0, 0], [-0.5, 1.0, -0.5]) < 0:
        raise RuntimeError("harness: scripted layout has the wrong hand")
    targets = [(nx, "kamada_kawai_layout"), (nx.drawing.layout, "kamada_kawai_layout"), (nx.drawing, "kamada_kawai_layout")]
    if hasattr(gt, "kamada_kawai_layout"):
        targets.append((gt, "kamada_kawai_layout"))
    saved = [(obj, name, getattr(obj, name)) for obj, name in targets if hasattr(obj, name)]
    try:
        for obj, name, _ in saved:
            setattr(obj, name, layout)
        with np.errstate(all="ignore"):
            out = gt._expand_inital_coords(block, max_count=max_count)  # pylint: disable=protected-access
        err = None
    except Exception as exc:  # pylint: disable=broad-except
        out, err = None, "%s: %s" % (type(exc).__name__, exc)
    finally:
        for obj, name, orig in saved:
            setattr(obj, name, orig)
    index = int(round(float(out["B"][0]))) if out is not None else None
    default = inspect.signature(gt._expand_inital_coords).parameters["max_count"].default  # pylint: disable=protected-access
    model_goods = [bool(g) or not with_improper for g in goods]
    reqs = [dict(op="expand", goods=model_goods, max_count=max_count)]

    def judge(answers):
        a = answers[0]
        ctx.correspond("_expand_inital_coords", dict(ok=err is None, index=index, calls=len(calls), default_max_count=default),
                       dict(ok=True, index=a["index"], calls=a["calls"], default_max_count=a["default_max_count"]), replay)
        ctx.case(("expand", replay["seed"]), sample=dict(stream="expand", max_count=max_count, calls=len(calls)), stream="expand",
                 expand_stop="bound" if len(calls) == max_count + 1 and not model_goods[len(calls) - 1] else "good")
    return reqs, judge


AFFINE_VS = {("virtual_sites2", "1"), ("virtual_sites3", "1"), ("virtual_sitesn", "1"), ("virtual_sitesn", "2")}


def energy_case(ctx, replay):
    """minimizer.renew_vs (which rows are recomputed, in which order: sites built from sites) and the energy the
    closure target_function of optimize_geometry returns (captured through a stub of scipy's minimiser)"""
    from collections import OrderedDict
    import vermouth
    import scipy.optimize
    from polyply.src import minimizer
    rng = random.Random(replay["seed"])
    block = vermouth.molecule.Block()
    nreal = rng.randint(3, 5)
    real = ["A%d" % i for i in range(nreal)]
    order = list(real)
    vs_specs = {("virtual_sites2", "1"): (2, 1), ("virtual_sites3", "1"): (3, 2), ("virtual_sites3", "2"): (3, 2),
                ("virtual_sites3", "4"): (3, 3), ("virtual_sites4", "2"): (4, 3), ("virtual_sitesn", "1"): (None, 0),
                ("virtual_sitesn", "2"): (None, 0)}
    sites, vs_json = [], {}
    for k in range(rng.randint(0, 4)):
        (vs_type, func), (natoms, nparams) = rng.choice(sorted(vs_specs.items()))
        affine = (vs_type, func) in AFFINE_VS
        # a site may be built from other sites (constructed earlier OR later in renew_vs' order) - only for the affine
        # constructions: sites of sites are collinear / coplanar by construction, which makes the normalised ones
        # exactly degenerate in rationals and rounding noise in doubles
        pool = real + (sites if affine and rng.random() < 0.6 else [])
        natoms = natoms or rng.randint(1, 3)
        if len(pool) < natoms:
            continue
        site = "V%d" % k
        defining = rng.sample(pool, natoms)
        params = [dy(rng, -1, 2, 4) for _ in range(nparams)]
        sites.append(site)
        order.insert(rng.randrange(len(order) + 1), site)
        block.interactions.setdefault(vs_type, []).append(make_interaction([site] + defining, [func] + params))
        vs_json.setdefault(vs_type, []).append(dict(atoms=[site] + defining, func=func, params=[rat_str(p) for p in params]))
    if sites and rng.random() < 0.4:
        # let the FIRST site of the block depend on the last one: it must see the value of the previous round
        first_type = next(t for t in block.interactions)
        inter = block.interactions[first_type][0]
        if len(inter.atoms) >= 2 and sites[-1] != inter.atoms[0] and (first_type, inter.parameters[0]) in AFFINE_VS:
            atoms = list(inter.atoms)
            atoms[1] = sites[-1]
            block.interactions[first_type][0] = inter._replace(atoms=tuple(atoms))
            vs_json[first_type][0]["atoms"] = atoms
    for name in order:
        block.add_node(name, atomname=name, resname="X")
    coords = OrderedDict((name, np.array([dy(rng, -2, 2), dy(rng, -2, 2), dy(rng, -2, 2)])) for name in order)
    for i in range(nreal - 1):
        kind = "constraints" if rng.random() < 0.3 else "bonds"
        block.interactions.setdefault(kind, []).append(make_interaction([real[i], real[i + 1]], ["1", repr(dy(rng, 0.125, 1, 4))]))
    if sites and rng.random() < 0.5:
        block.interactions.setdefault("bonds", []).append(make_interaction([sites[0], real[0]], ["1", "0.25"]))
    for i in range(nreal - 2):
        if rng.random() < 0.6:
            block.interactions.setdefault("angles", []).append(make_interaction(real[i:i + 3], ["1", repr(float(rng.choice([90, 120, 135, 180]))), "10"]))
    for i in range(nreal - 3):
        block.interactions.setdefault("dihedrals", []).append(
            make_interaction(real[i:i + 4], [rng.choice(["2", "2", "1"]), repr(float(rng.choice([0, 35, -35, 180]))), "10"]))
    inter_types = rng.choice([["bonds", "constraints", "angles"], ["bonds", "constraints", "angles", "dihedrals"], ["angles", "bonds"]])
    atom_to_idx = OrderedDict(zip(order, range(len(order))))
    positions = np.array([coords[n] for n in order])
    try:
        with np.errstate(all="ignore"):
            renewed = minimizer.renew_vs(positions.copy(), block, atom_to_idx)
        renewed = np.array(renewed, dtype=float).reshape((-1, 3))
        err = None
        if not np.all(np.isfinite(renewed)):
            err = "nan"
    except Exception as exc:  # pylint: disable=broad-except
        renewed, err = None, type(exc).__name__
    captured = []
    orig = scipy.optimize.minimize

    def stub(fun, x0, **kwargs):
        captured.append(fun)
        return {"x": np.array(x0, dtype=float)}
    energy = None
    if err is None:
        scipy.optimize.minimize = stub
        try:
            with np.errstate(all="ignore"):
                minimizer.optimize_geometry(block, OrderedDict((k, v.copy()) for k, v in coords.items()), inter_types)
                if captured:
                    energy = float(captured[0](positions.copy().ravel()))
        except Exception:  # pylint: disable=broad-except
            energy = None
        finally:
            scipy.optimize.minimize = orig
    reqs = [dict(op="renew_vs", interactions=[[t, l] for t, l in vs_json.items()],
                 positions=[[n, v3(coords[n])] for n in order])]
    items = None
    if err is None and energy is not None and math.isfinite(energy):
        items = measure_items(block, {n: renewed[i] for n, i in atom_to_idx.items()}, inter_types)
        if items is not None:
            reqs.append(dict(op="energy", items=items))

    def judge(answers):
        a = answers[0]
        if err == "nan" or (err is None and not a["ok"]):
            ctx.tally(renew_vs_degenerate=True)           # 0/0 in the doubles is a value for numpy, a raise/0 for the model
        elif err is not None:
            ctx.correspond("renew_vs", dict(ok=False), dict(ok=a["ok"]), replay)
        else:
            agree = [k for k, _ in a["positions"]] == order and \
                all(vec_close(renewed[i], vec, 1e-9) for i, (_, vec) in enumerate(a["positions"]))
            ctx.correspond("renew_vs", dict(close=True), dict(close=agree, impl=renewed.tolist(), model=a["positions"])
                           if not agree else dict(close=True), replay)
            if items is not None:
                model_e = float(common.rat_parse(answers[1]["energy"]))
                agree = close(energy, model_e, 1e-6)
                ctx.correspond("target_function-energy", dict(close=True), dict(close=agree, impl=energy, model=model_e)
                               if not agree else dict(close=True), replay)
        ctx.case(("energy", replay["seed"]), sample=dict(stream="energy", atoms=len(order), sites=len(sites)), stream="energy",
                 energy_sites=len(sites) if len(sites) < 3 else "3+")
    return reqs, judge


# ------------------------------------------------------------------------------------------ driver

STREAMS = dict(system=system_case, vs=vs_case, cog=cog_case, verdict=verdict_case, volume=volume_case,
               block=block_case, find=find_case, impropers=impropers_case, expand=expand_case, energy=energy_case)


def e2e_case(ctx, replay):
    """the command-level entry point: the real `gen_coords` (with `-skip_filter` and / or a build file, as drawn) on a
    generated topology; the Topology object is captured and the statement is evaluated on what it holds at the end:
    residues with different atom names point to different templates, each template holds one position per atom name
    of its residues, every size is positive.  A run that does not finish (placement, residue-equivalence check of
    -skip_filter, time limit) is counted, not judged."""
    import tempfile
    import pathlib
    import polyply
    from polyply.src.topology import Topology
    rng = random.Random(replay["seed"])
    spec = gen_topology_spec(rng, small=False)
    captured = {}
    orig = Topology.__dict__["from_gmx_topfile"]
    orig_func = Topology.from_gmx_topfile.__func__

    def wrapped(cls, *args, **kwargs):
        captured["topology"] = orig_func(cls, *args, **kwargs)
        return captured["topology"]
    outcome = "ok"
    with tempfile.TemporaryDirectory() as tmp:
        top = pathlib.Path(tmp) / "sys.top"
        top.write_text(top_text(spec))
        # decoys in the process working directory must not matter
        build = []
        if spec["build"]:
            bld = pathlib.Path(tmp) / "opt.bld"
            bld.write_text("\n".join(build_text(spec)) + "\n")
            build = [bld]
        Topology.from_gmx_topfile = classmethod(wrapped)
        np.random.seed(replay["seed"] % (2 ** 31))
        random.seed(replay["seed"])
        try:
            with common.time_limit(90):
                polyply.gen_coords(toppath=top, outpath=pathlib.Path(tmp) / "out.gro", name="t", box=np.array([14., 14., 14.]),
                                   skip_filter=spec["skip_filter"], build=build)
        except common.CaseTimeout:
            outcome = "timeout"
        except Exception as exc:  # pylint: disable=broad-except
            outcome = "raises-" + type(exc).__name__
        finally:
            setattr(Topology, "from_gmx_topfile", orig)
            from vermouth.file_writer import DeferredFileWriter
            DeferredFileWriter().close()
    topo = captured.get("topology")

    def judge(_answers):
        if outcome != "ok" or topo is None:
            ctx.case(None, stream="e2e", e2e_outcome=outcome)
            return
        by_key, problems = {}, []
        for mol in topo.molecules:
            templates = getattr(mol, "templates", {})
            for node in mol.nodes:
                key = mol.nodes[node].get("template")
                graph = mol.nodes[node]["graph"]
                names = tuple(sorted(graph.nodes[a]["atomname"] for a in graph.nodes))
                by_key.setdefault(key, set()).add(names)
                if key not in templates or key not in topo.volumes:
                    problems.append(("residue-without-template", "residue %s has template key %s, which templates / sizes lack"
                                     % (mol.nodes[node]["resname"], key)))
                else:
                    if sorted(templates[key]) != sorted(set(names)):
                        problems.append(("template-names", "template %s used by residue %s holds positions for %s, the residue's "
                                         "atoms are %s" % (str(key)[:8], mol.nodes[node]["resname"], sorted(templates[key]),
                                                           sorted(names))))
                    if not float(topo.volumes[key]) > 0:
                        problems.append(("size-not-positive", "size under %s is %r" % (str(key)[:8], topo.volumes[key])))
        for key, name_sets in by_key.items():
            if len(name_sets) > 1:
                problems.append(("sharing", "residues with different atom names %s share the template key %s"
                                 % (sorted(name_sets), str(key)[:8])))
        seen = set()
        for shape, what in problems:
            if shape not in seen:
                seen.add(shape)
                ctx.oracle_fail(shape, "gen_coords(skip_filter=%s%s): %s; topology:\n%s"
                                % (spec["skip_filter"], ", build file" if spec["build"] else "", what, top_text(spec)[:1200]), replay)
        ctx.case(("e2e", replay["seed"]), stream="e2e", e2e_outcome="ok", e2e_skip_filter=spec["skip_filter"],
                 e2e_build_file=bool(spec["build"]), e2e_capped_end=any("cap_of" in k for k in spec["kinds"]))
    return [], judge


STREAMS["e2e"] = e2e_case


def gen_replays(ctx):
    rng = ctx.rng
    out = []
    for entry in range(10):
        for _ in range(ctx.budget(4, 60)):
            out.append(dict(stream="vs", entry=entry, seed=rng.randint(0, 10 ** 9)))
    for _ in range(ctx.budget(15, 150)):
        out.append(dict(stream="cog", seed=rng.randint(0, 10 ** 9)))
    for _ in range(ctx.budget(30, 800)):
        out.append(dict(stream="verdict", seed=rng.randint(0, 10 ** 9), stub=rng.random() < 0.6))
    for _ in range(ctx.budget(3, 20)):
        # all particles on the centre of geometry, a sigma-0 dummy listed last (bead + stacked virtual site)
        out.append(dict(stream="volume", seed=rng.randint(0, 10 ** 9), force="stacked-dummy-last"))
    for _ in range(ctx.budget(30, 600)):
        out.append(dict(stream="volume", seed=rng.randint(0, 10 ** 9)))
    for scenario in SCENARIOS:
        for _ in range(ctx.budget(2, 20)):
            out.append(dict(stream="system", seed=rng.randint(0, 10 ** 9), scenario=scenario))
    for _ in range(ctx.budget(30, 700)):
        out.append(dict(stream="system", seed=rng.randint(0, 10 ** 9)))
    # extension streams LAST: the draws above stay what they were for a given VERIF_SEED
    for first in FIND_TYPES:                          # exhaustive: 7 x 7 ordered type pairs x 6 variants
        for second in FIND_TYPES:
            for variant in range(6):
                out.append(dict(stream="find", first=first, second=second, variant=variant))
    for _ in range(ctx.budget(80, 2500)):
        out.append(dict(stream="block", seed=rng.randint(0, 10 ** 9)))
    for _ in range(ctx.budget(50, 1500)):
        out.append(dict(stream="impropers", seed=rng.randint(0, 10 ** 9)))
    for max_count in (0, 1, 2):
        out.append(dict(stream="expand", seed=rng.randint(0, 10 ** 9), max_count=max_count))
    for _ in range(ctx.budget(15, 200)):
        out.append(dict(stream="expand", seed=rng.randint(0, 10 ** 9)))
    for _ in range(ctx.budget(40, 1000)):
        out.append(dict(stream="energy", seed=rng.randint(0, 10 ** 9)))
    for _ in range(ctx.budget(4, 30)):                # the command-level entry point (gen_coords)
        out.append(dict(stream="e2e", seed=rng.randint(0, 10 ** 9)))
    probe = sorted(s for s in FINDING_SHAPES if enabled(s))
    for rep in out:
        rep["probe"] = probe       # a replay regenerates the same input whatever the environment says
    return out


def corpus_cases():
    path = os.path.join(common.VERIF, "corpus", "C15")
    out = []
    if os.path.isdir(path):
        for name in sorted(os.listdir(path)):
            data = json.load(open(os.path.join(path, name)))
            out.append(data.get("input", data))
    return out


def run_cases(ctx, replays):
    global _OVERRIDE  # pylint: disable=global-statement
    reqs, judges = [], []
    for rep in replays:
        _OVERRIDE = set(rep["probe"]) if "probe" in rep else None
        try:
            r, judge = STREAMS[rep["stream"]](ctx, rep)
        finally:
            _OVERRIDE = None
        judges.append((judge, len(reqs), len(reqs) + len(r)))
        reqs += r
    answers = ctx.driver.ask(reqs)
    for judge, lo, hi in judges:
        judge(answers[lo:hi])


def run(ctx):
    import warnings
    warnings.simplefilter("ignore", RuntimeWarning)      # numpy's nan warnings on degenerate geometries
    ctx.extra["rule"] = RULE
    ctx.extra["trusted"] = [
        "networkx weisfeiler_lehman_graph_hash (ORACLE: parameter h of the model) and is_isomorphic (harness-side isomorphism)",
        "networkx kamada_kawai_layout and scipy L-BFGS-B (ORACLE: generated coordinates are an input of the model)",
        "np.linalg.norm / arccos / sqrt: measured interaction values are inputs of the verdict; the driver recomputes "
        "square roots to 30 digits",
        "vermouth/polyply topology readers (used to build the inputs; they are C08/C09's subject)",
        "vermouth Molecule/Block containers: add_node on an existing node updates its attributes, "
        "make_edges_from_interaction_type joins consecutive atoms unless meta['edge'] is false, interactions is a "
        "defaultdict(list) (modelled in Model/TemplatesBlock.lean, exercised by the `block` stream)",
        "numpy.isclose default atol = 1e-8 (parameter `atol` of goodImpropers; the stream hits the bound exactly)",
    ]
    ctx.assumptions += [
        "partial: Weisfeiler-Lehman hash is an ORACLE (assumed equal on isomorphic atom-name-labelled graphs; sharing is "
        "proved relative to it and tested against networkx.is_isomorphic)",
        "partial: Kamada-Kawai layout and L-BFGS-B are ORACLES (theorems quantify over every coordinates they may return; "
        "the tolerance theorem speaks about the verdict, not about convergence)",
        "every residue holds at least one atom with self sigma > 0 (sigma-0 dummy / virtual-site atoms occur next to them)",
        "virtual sites are constructed from real atoms only (renew_vs handles sections in a fixed order)",
        "block extraction: every atom of a molecule carries the same attribute keys (add_node on a repeated atom name then "
        "REPLACES the attributes: the model's Dict.set); the dihedral angle handed to _good_impropers and the layouts of "
        "_expand_inital_coords are inputs of the model; in the `energy` stream sites built from other sites are affine "
        "ones (normalised constructions of collinear sites are exactly degenerate in rationals, noise in doubles)",
        "documented findings kept out of the default stream until listed in known_findings.txt: "
        + ", ".join(s for s in FINDING_SHAPES if not enabled(s)),
    ]
    ctx.extra["explanation"] = ("correspondence: bookkeeping of templates/sizes (run_system + build file), map_from_CoG, "
                                "construct_vs, optimize_geometry verdict, compute_volume, extract_block (nodes, kept "
                                "interactions, defines, edges, side effect on the molecule), _relabel_interaction_atoms, "
                                "find_interaction_involving (exhaustive over type pairs), _good_impropers, "
                                "_expand_inital_coords, renew_vs, target_function energy vs the Lean model; oracle: Lean "
                                "specification evaluated on the output of the real GenerateTemplates, and on the real "
                                "extract_block: one block node per distinct atom name of the residue, exactly the "
                                "molecule's interactions lying inside the residue (the template's targets)")
    run_cases(ctx, corpus_cases() + gen_replays(ctx))


def replay(ctx, data):
    if data.get("kind") == "no-failing-input-found":
        print("replay names obligations that no longer check:")
        for item in data.get("no_longer_checks", []):
            print("  ", item["name"], "-", item["detail"][:300])
        inputs = [i["input"] for i in data.get("no_longer_checks", []) if i.get("input")]
    else:
        inputs = [data.get("input") or {}]
    run_cases(ctx, inputs)
    for b in ctx.broken:
        print("REPLAY-DISAGREES", b["name"], b["detail"][:400])
