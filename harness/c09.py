"""C09 — parameters are resolved as GROMACS preprocessing would resolve them.

Property (properties.jsonl, fixed): "After preprocessing, every bonded interaction written without
parameters carries the parameters of the matching bonded type: the exact or reversed atom-type (or
bond-type) sequence, and for dihedrals the least-wildcarded matching pattern irrespective of the
direction in which the atoms are listed, multi-term dihedral types being expanded to all their terms in
every molecule instance and #define macros substituted. Non-bonded pair parameters are symmetric in the
pair, explicit nonbond_params override generated ones, self terms come from the atom types, and C6/C12
tables are converted to the sigma/epsilon values that reproduce them."

Implementation side: generated topologies are rendered to .top text, read by the REAL reader
(`read_topology`), then the REAL `Topology.preprocess()` runs in-process (the only interposition is a
wrapper around `convert_nonbond_to_sig_eps` on the instance that snapshots `nonbond_params` before the
conversion); plus direct calls of the real `match_dihedral_interaction_types` on random type tables.
Model side: `Preprocess.preprocess` / `Preprocess.matchDihedral` (driven by the translated `patterns`).
Oracle: the Lean specification (`specVerdict`, `pairsVerdict`, `sigEpsResidual`, `bestKeys`) evaluated on
what the implementation wrote.  Not demanded (not in the property): combination-rule formulas, matching by
function type, the tie-break among equally specific dihedral types, `[pairs]` (the code treats them as
untyped).
"""
import copy
import json
import os

import common

RULE = ("random .top texts (2-5 atom types, optional bond types/OPLS, comb-rule 1/2/3, gen-pairs yes/no/absent, "
        "random nonbond_params subsets in either order, bond/angle/constraint/dihedral type tables with exact, "
        "reversed and every-wildcard-mask keys, 1-3 terms per key, decoys, 1-3 moleculetypes with 4-7 atoms, "
        "dihedrals listed in both directions, macros among the parameters and macros standing for the whole parameter "
        "list, C6/C12 from 1e-12 to 1e7, [molecules] counts 0-4 with repeats) read "
        "by the real reader and preprocessed by the real code; plus direct calls of the real wildcard search "
        "on random tables over all 16 masks and both directions; a small malformed stream (flag macro as "
        "parameter, no [defaults], unknown comb-rule, missing type; sections renamed on the parsed object to names "
        "that are / are not substrings of 'dihedrals' or type-less). EXHAUSTIVE: the wildcard search on all 16 masks x key "
        "stored forward/reversed x atoms distinct/palindromic/equal as single-entry tables and on all 16x16 mask pairs x 4 "
        "storage orientations x 2 atom shapes as two-entry tables, each in both listing directions (2144 tables). Direct "
        "calls of the real convert_nonbond_to_sig_eps on dyadic tables (eps exact where nb2 is a power of two, sigma "
        "exactly 2 / 1 / 0.5 on the ratios 64 / 1 / 1/64, (0,0), negative ratios, every 5th table with one raising entry "
        "of each kind), of lorentz_berthelot_rule / geometric_rule and of gen_pairs for comb-rule 1/2/3 on two-type "
        "topologies (perfect-square products compared exactly, both type orders). distinct = hash of the rendered text / "
        "of (atoms, table) / of the numbers; a topology case is non-trivial when it has >= 1 parameterless interaction")

TYPE_POOL = ["CT", "CA", "N", "O", "HC", "P", "S", "C2", "OW"]
SECTIONS = {"bonds": 2, "angles": 3, "dihedrals": 4, "constraints": 2}
FUNC = {"bonds": "1", "angles": "1", "dihedrals": "9", "constraints": "1", "pairs": "1"}
MASKS = [tuple(bool(m >> i & 1) for i in range(4)) for m in range(16)]


def dy(rng, lo=1, hi=255, bits=6):
    """positive dyadic decimal string that float() reads exactly"""
    val = common.dyadic(rng, lo / (1 << bits), hi / (1 << bits), bits)
    if val <= 0:
        val = common.frac(1) / (1 << bits)
    return repr(float(val))


def lj(rng):
    """a positive C6/C12-like value over the whole range force fields use: mostly moderate dyadics, sometimes tiny
    (1e-12 .. 1e-6, light hydrogens) or huge (1e3 .. 1e7); written the way topologies write them"""
    roll = rng.random()
    if roll < 0.6:
        return dy(rng)
    mant = rng.choice(["1", "1.5", "2.25", "3.5", "4.75", "7.125", "9.0625"])
    if roll < 0.85:
        return "%se-%02d" % (mant, rng.randint(6, 12))
    return "%se+%02d" % (mant, rng.randint(3, 7))


# ------------------------------------------------------------------------------------------------ generator

def gen_topology(rng, malformed=None, big=False):
    """structured description of one topology (JSON-able; `render` turns it into text)"""
    ntypes = rng.randint(2, 5)
    names = rng.sample(TYPE_POOL, ntypes)
    if rng.random() < 0.06:
        names[rng.randrange(ntypes)] = "X"      # an atom type that is called like the wildcard
    opls = rng.random() < 0.15
    btypes = {n: rng.choice(["B1", "B2", "B3"]) for n in names} if opls else {}
    atomtypes = [dict(name=n, btype=btypes.get(n), nb1=lj(rng), nb2=lj(rng), full=opls or rng.random() < 0.3)
                 for n in names]
    comb = rng.choice([1, 1, 2, 3])
    gen_pairs = rng.choice(["yes", "yes", "no", None])
    pairs = [(a, b) for i, a in enumerate(names) for b in names[i:]]
    nonbond = []
    for a, b in rng.sample(pairs, rng.randint(0, min(len(pairs), 4))):
        if rng.random() < 0.5:
            a, b = b, a
        nonbond.append([a, b, "1", lj(rng), lj(rng)])
    macros = [["gb_%d" % i, [dy(rng) for _ in range(rng.randint(1, 3))]] for i in range(rng.randint(0, 3))]
    # macros that stand for the WHOLE parameter list, function type included (`#define b_CC 1 0.147 8.71e6`, `1 2 b_CC`)
    whole = {}
    for sec in SECTIONS:
        if rng.random() < 0.35:
            whole[sec] = "w_%s_%d" % (sec[:3], rng.randint(1, 9))
            macros.append([whole[sec], [FUNC[sec]] + [dy(rng) for _ in range(rng.randint(1, 3))]])
    flags = ["FLEX"] if rng.random() < 0.3 else []
    if opls:
        flags.append(rng.choice(["_FF_OPLS", "_FF_OPLS_AA"]))
    blocks = []
    for bi in range(rng.randint(1, 3)):
        natoms = rng.randint(4, 9 if big else 7)
        atypes = [rng.choice(names) for _ in range(natoms)]
        sections = []
        secnames = rng.sample(["bonds", "angles", "dihedrals", "constraints", "pairs", "exclusions"],
                              rng.randint(1, 5))
        if rng.random() < 0.7 and "dihedrals" not in secnames:
            secnames.append("dihedrals")
        for sec in secnames:
            ixns, seen = [], set()
            arity = SECTIONS.get(sec, 2)
            for _ in range(rng.randint(1, 6 if big else 4)):
                atoms = tuple(rng.sample(range(natoms), arity))
                variants = [atoms, atoms[::-1]] if sec == "dihedrals" and rng.random() < 0.7 else [atoms]
                for atm in variants:
                    if atm in seen:
                        continue
                    seen.add(atm)
                    if sec == "exclusions":
                        params = []
                    elif sec in whole and rng.random() < 0.3:
                        params = [whole[sec]]
                    elif sec == "pairs" or rng.random() < 0.6:
                        params = [FUNC[sec]]
                    else:
                        params = [FUNC[sec]] + [rng.choice([m[0] for m in macros]) if macros and rng.random() < 0.4
                                                else dy(rng) for _ in range(rng.randint(1, 3))]
                    ixns.append([list(atm), params])
            sections.append([sec, ixns])
        blocks.append(dict(name="MOL%s" % "ABC"[bi], atypes=atypes, sections=sections))
    # type tables serving the parameterless interactions
    types = {"bonds": [], "angles": [], "dihedrals": [], "constraints": []}
    missing = malformed == "missing-type"
    for blk in blocks:
        for sec, ixns in blk["sections"]:
            if sec not in types:
                continue
            for atoms, params in ixns:
                if len(params) != 1 or (params[0] in whole.values() and rng.random() < 0.5):
                    continue
                key = [btypes[blk["atypes"][a]] if opls else blk["atypes"][a] for a in atoms]
                if sec == "dihedrals":
                    for _ in range(rng.randint(1, 3)):
                        base = key if rng.random() < 0.5 else key[::-1]
                        mask = rng.choice(MASKS)
                        tkey = ["X" if m else b for b, m in zip(base, mask)]
                        for _ in range(rng.choice([1, 1, 2, 3])):
                            types[sec].append([tkey, ["9", dy(rng), dy(rng), str(rng.randint(1, 6))]])
                else:
                    roll = rng.random()
                    tkeys = [key] if roll < 0.45 else [key[::-1]] if roll < 0.9 else [key, key[::-1]]
                    for tkey in tkeys:
                        types[sec].append([tkey, ["1", dy(rng), dy(rng)]])
    for sec, arity in SECTIONS.items():          # decoys
        pool = list(btypes.values()) if opls else names
        for _ in range(rng.randint(0, 2)):
            tkey = [rng.choice(pool + ["ZZ"]) for _ in range(arity)]
            if sec == "dihedrals" and rng.random() < 0.5:
                tkey[rng.randrange(4)] = "X"
            types[sec].append([tkey, [FUNC[sec], dy(rng), dy(rng)] + (["2"] if sec == "dihedrals" else [])])
    for sec in types:
        rng.shuffle(types[sec])
    if missing:
        cands = [(s, i) for s, rows in types.items() for i, _ in enumerate(rows)]
        if cands:
            sec, _ = rng.choice(cands)
            types[sec] = []
    cond_types = rng.random() < 0.1               # some type lines under an #ifdef (stored with a tag)
    molecules = [[rng.choice(blocks)["name"], rng.choice([0, 1, 1, 2, 3, 4])] for _ in range(rng.randint(1, 4))]
    topo = dict(comb=comb, gen_pairs=gen_pairs, atomtypes=atomtypes, nonbond=nonbond, macros=macros, flags=flags,
                types=types, cond_types=cond_types, blocks=blocks, molecules=molecules, malformed=malformed,
                valid=malformed is None)
    # dimensions added later, from a derived stream (the other choices of a seed stay what they were)
    import random as _random
    _state = rng.getstate()[1]
    extra = _random.Random("c09-extra|%r|%r" % (_state[:2], _state[-1]))
    if extra.random() < 0.3:
        # sections preprocessing must leave alone: type-less ones written with ONE token, others with full parameters
        blk = extra.choice(blocks)
        nat = len(blk["atypes"])
        have = {sec for sec, _ in blk["sections"]}
        for sec, arity, params in (("virtual_sites2", 3, extra.choice([["1"], ["1", dy(extra)]])),
                                   ("position_restraints", 1, ["1", dy(extra), dy(extra), dy(extra)]),
                                   ("settles", 1, ["1", dy(extra), dy(extra)]),
                                   ("virtual_sites3", 4, ["1", dy(extra), dy(extra)])):
            if sec not in have and extra.random() < 0.5 and nat >= arity:
                blk["sections"].append([sec, [[extra.sample(range(nat), arity), params]]])
    if extra.random() < 0.05 and types["dihedrals"]:
        # more than 20 terms for one dihedral type (everything that is counted, beyond 20)
        tkey = extra.choice(types["dihedrals"])[0]
        for mult in range(extra.randint(21, 24)):
            types["dihedrals"].append([list(tkey), ["9", dy(extra), dy(extra), str(mult % 6 + 1)]])
    # bonded types inside `#ifdef X ... #else ... #endif` (the FLEXIBLE / HEAVY_H construction): the same key in both
    # branches, other parameters; `#ifndef` as the opening condition as well
    if extra.random() < 0.12:
        topo["cond_types"] = True
    if topo["cond_types"]:
        topo["cond_kind"] = extra.choice(["ifdef", "ifdef", "ifndef"])
        topo["else_rows"] = {}
        for sec, rows in types.items():
            if rows and extra.random() < 0.6:
                key, params = rows[0]
                topo["else_rows"][sec] = [list(key), [params[0]] + [dy(extra) for _ in params[1:]]]
    if malformed == "flag-as-parameter":
        topo["flags"] = topo["flags"] + ["FLG"]
        blk = blocks[0]
        blk["sections"].append(["position_restraints", [[[0], ["1", "FLG", "1000"]]]])
    elif malformed == "no-defaults":
        topo["comb"] = None
    elif malformed == "unknown-comb-rule":
        topo["comb"] = 5
    elif malformed == "renamed-sections":
        # section names the READER never produces (set on the Topology object after reading): the code tests
        # `inter_type in "dihedrals"` (substring!), `inter_type in [type-less sections]`; only the correspondence looks at these
        topo["rename"] = {"dihedrals": rng.choice(["dihedral", "hedral", "d", "ihedrals", "dihedralsx", "Dihedrals"])}
        if rng.random() < 0.5:
            topo["rename"]["angles"] = rng.choice(["als", "dihe", "angle", "virtual_sites3"])
        if rng.random() < 0.3:
            topo["rename"]["constraints"] = rng.choice(["virtual_sites2", "pairs_nb", "ls"])
    return topo


def render(topo, swap=False):
    """.top text of a generated topology; `swap` = atom types listed in reverse order and every
    nonbond_params pair written the other way round (for the symmetry relation)"""
    out = []
    for name in topo["flags"]:
        out.append("#define %s" % name)
    for name, vals in topo["macros"]:
        out.append("#define %s %s" % (name, " ".join(vals)))
    if topo["comb"] is not None:
        line = "1 %d" % topo["comb"]
        if topo["gen_pairs"] is not None:
            line += " %s 1.0 1.0" % topo["gen_pairs"]
        out += ["[ defaults ]", line]
    out.append("[ atomtypes ]")
    ats = topo["atomtypes"][::-1] if swap else topo["atomtypes"]
    for at in ats:
        if at["btype"] is not None:
            out.append("%s %s 6 12.0 0.0 A %s %s" % (at["name"], at["btype"], at["nb1"], at["nb2"]))
        elif at["full"]:
            out.append("%s 6 12.0 0.0 A %s %s" % (at["name"], at["nb1"], at["nb2"]))
        else:
            out.append("%s 12.0 0.0 A %s %s" % (at["name"], at["nb1"], at["nb2"]))
    if topo["nonbond"]:
        out.append("[ nonbond_params ]")
        for a, b, func, nb1, nb2 in topo["nonbond"]:
            if swap:
                a, b = b, a
            out.append("%s %s %s %s %s" % (a, b, func, nb1, nb2))
    for sec, rows in topo["types"].items():
        if not rows:
            continue
        out.append("[ %stypes ]" % sec[:-1])
        for idx, (key, params) in enumerate(rows):
            cond = topo["cond_types"] and idx == 0
            if cond:
                out.append("#%s FLEX" % topo.get("cond_kind", "ifdef"))
            out.append(" ".join(key + params))
            if cond:
                if sec in topo.get("else_rows", {}):
                    ekey, eparams = topo["else_rows"][sec]
                    out += ["#else", " ".join(ekey + eparams)]
                out.append("#endif")
    for blk in topo["blocks"]:
        out += ["[ moleculetype ]", "%s 1" % blk["name"], "[ atoms ]"]
        for i, aty in enumerate(blk["atypes"]):
            out.append("%d %s 1 RES A%d %d 0.0 12.0" % (i + 1, aty, i + 1, i + 1))
        for sec, ixns in blk["sections"]:
            out.append("[ %s ]" % sec)
            for atoms, params in ixns:
                out.append(" ".join([str(a + 1) for a in atoms] + params))
    out += ["[ system ]", "verif", "[ molecules ]"]
    for name, count in topo["molecules"]:
        out.append("%s %d" % (name, count))
    return [line + "\n" for line in out]


# ------------------------------------------------------------------------------------------------ real code

def canon_meta(meta):
    return sorted([str(k), str(v)] for k, v in dict(meta).items())


def canon_sections(interactions):
    return sorted([str(sec), [[list(i.atoms), [str(p) for p in i.parameters], canon_meta(i.meta)] for i in lst]]
                  for sec, lst in dict(interactions).items() if lst)


def pair_of(key):
    names = sorted(key)
    return (names[0], names[-1])


def snapshot_nonbond(nbp):
    out = []
    for key, val in nbp.items():
        a, b = pair_of(key)
        out.append([a, b, int(val["f"]) if "f" in val else None, val["nb1"], val["nb2"]])
    return sorted(out, key=lambda r: (r[0], r[1]))


def rename_sections(topology, rename):
    """give interaction sections other names on the parsed Topology object (blocks, every instance, type tables)"""
    for old, new in rename.items():
        holders = [blk.interactions for blk in topology.force_field.blocks.values()]
        holders += [m.molecule.interactions for m in topology.molecules]
        for inter in holders:
            if old in inter and new not in inter:
                items = [(new if k == old else k, v) for k, v in list(inter.items())]
                inter.clear()
                inter.update(items)
        if old in topology.types and new not in topology.types:
            topology.types[new] = topology.types.pop(old)


def run_real(lines, rename=None):
    """parse with the real reader, preprocess with the real code; returns (request for the model,
    canonical implementation output, raw observations for the oracle)"""
    from polyply.src.topology import Topology
    from polyply.src.top_parser import read_topology
    import vermouth.forcefield
    topology = Topology(vermouth.forcefield.ForceField("verif"), name="verif")
    read_topology(lines, topology)
    if rename:
        rename_sections(topology, rename)
    blocks = []
    for name, block in topology.force_field.blocks.items():
        nodes = list(block.nodes)
        if nodes != list(range(len(nodes))):
            raise AssertionError("generator bug: atom keys are not 0..n-1")
        blocks.append(dict(name=name, atypes=[block.nodes[n]["atype"] for n in nodes],
                           ixns=[[sec, [[list(i.atoms), list(i.parameters), canon_meta(i.meta)] for i in lst]]
                                 for sec, lst in block.interactions.items()]))
    defaults = dict(topology.defaults)
    comb = defaults.get("comb-rule")
    types = [[sec, [[list(key), [[list(p), None if m is None else [m["condition"], m["tag"]]] for p, m in entries]]
                    for key, entries in table.items()]] for sec, table in topology.types.items()]
    pre_nb = snapshot_nonbond(topology.nonbond_params)
    request = dict(op="preprocess",
                   comb_rule=None if comb is None else common.rat_str(comb),
                   gen_pairs_yes=defaults.get("gen-pairs") == "yes",      # the oracle's own reading (op pairspec)
                   gen_pairs=defaults.get("gen-pairs"),                   # what the model compares with the translated keyword
                   defines=[[k, None if v is True else list(v)] for k, v in topology.defines.items()],
                   atomtypes=[[k, common.rat_str(v["nb1"]), common.rat_str(v["nb2"]), v["bond_type"]]
                              for k, v in topology.atom_types.items()],
                   nonbond=[[a, b, f, common.rat_str(x), common.rat_str(y)] for a, b, f, x, y in pre_nb],
                   types=types, blocks=blocks,
                   molecules=[m.mol_name for m in topology.molecules])
    seen = {}
    original = topology.convert_nonbond_to_sig_eps

    def wrapped():
        seen["before"] = snapshot_nonbond(topology.nonbond_params)
        return original()
    topology.convert_nonbond_to_sig_eps = wrapped
    try:
        topology.preprocess()
        err = None
    except Exception as exc:  # pylint: disable=broad-except
        err = type(exc).__name__
    after = snapshot_nonbond(topology.nonbond_params)
    obs = dict(err=err, converted="before" in seen, nb_before=seen.get("before", after), nb_after=after,
               instances=[[m.mol_name, canon_sections(m.molecule.interactions)] for m in topology.molecules])
    return request, obs


def canon_nb_impl(rows):
    out = []
    for a, b, f, x, y in rows:
        src = "explicit" if f is not None else ("self" if a == b else "generated")
        vals = None if src == "generated" else [common.rat_str(x), common.rat_str(y)]
        out.append([a, b, src, f, vals])
    return out


def canon_nb_model(rows):
    out = []
    for a, b, src, f, vals in rows:
        a, b = sorted([a, b])
        out.append([a, b, src, f, vals])
    return sorted(out, key=lambda r: (r[0], r[1]))


def canon_instances_model(insts):
    return [[nm, sorted([sec, [[atoms, params, sorted(meta)] for atoms, params, meta in lst]]
                        for sec, lst in secs if lst)] for nm, secs in insts]


# ------------------------------------------------------------------------------------------------ numbers

# perfect sixth powers whose float sixth root is hit exactly (`x ** (1.0/6.0)`, 1.0/6.0 is not 1/6: in general the
# result is one or two ulps off, these boundary values are exact): ratio -> sigma
EXACT_SIXTH = {common.frac(64): common.frac(2), common.frac(1): common.frac(1), common.frac(1) / 64: common.frac(1) / 2}


def _iroot(n, deg):
    """integer deg-th root of n >= 0 if n is a perfect power, else None"""
    if n < 2:
        return n
    lo, hi = 1, 1 << (n.bit_length() // deg + 1)
    while lo < hi:
        mid = (lo + hi) // 2
        if mid ** deg < n:
            lo = mid + 1
        else:
            hi = mid
    return lo if lo ** deg == n else None


def perfect_root(rad, deg):
    """the rational deg-th root of the rational rad >= 0, or None"""
    num, den = _iroot(rad.numerator, deg), _iroot(rad.denominator, deg)
    return None if num is None or den is None else common.frac(num) / den


def val_agrees(impl, val, exact):
    """does the number the real code produced agree with the model value (`Val`)?
    exact rationals: equal as fractions when `exact` (dyadic inputs, float arithmetic exact), else rel. 1e-9;
    roots: impl >= 0 and impl^deg = rad at rel. deg*1e-9, and EXACTLY for perfect squares / the boundary sixth powers"""
    kind = val["k"]
    if kind == "complex":
        return isinstance(impl, complex)
    if isinstance(impl, complex) or isinstance(impl, bool):
        return False
    try:
        got = common.frac(impl)
    except (TypeError, ValueError, OverflowError):
        return False
    if kind == "exact":
        want = common.rat_parse(val["q"])
        if exact:
            return got == want
        return got == want or abs(got - want) <= abs(want) / 10 ** 9
    deg, rad = int(val["deg"]), common.rat_parse(val["rad"])
    if got < 0 or rad < 0:
        return False
    if exact:
        root = perfect_root(rad, deg)
        if root is not None and (deg == 2 or (deg == 6 and rad in EXACT_SIXTH)):
            return got == root
    if rad == 0:
        return got == 0
    return abs(got ** deg - rad) <= rad * deg / 10 ** 9


def show_num(x):
    return repr(x) if isinstance(x, complex) else common.rat_str(x)


def compare_values(impl_rows, model_rows, exact):
    """impl rows `[a, b, f, nb1, nb2]` (floats) against model rows `[a, b, src, f, Val, Val]`; returns the canonical
    pair (impl, model) for ctx.correspond: identical when every number agrees with its model value"""
    model = {}
    for a, b, _src, _f, v1, v2 in model_rows:
        model[tuple(sorted([a, b]))] = (v1, v2)
    impl_c, model_c = [], []
    for a, b, _f, x, y in impl_rows:
        vals = model.pop((a, b), None)
        if vals is not None and val_agrees(x, vals[0], exact) and val_agrees(y, vals[1], exact):
            impl_c.append([a, b, "agrees"])
            model_c.append([a, b, "agrees"])
        else:
            impl_c.append([a, b, show_num(x), show_num(y)])
            model_c.append([a, b, vals])
    for (a, b), vals in sorted(model.items()):
        model_c.append([a, b, vals])
    return impl_c, model_c


def pow2(rng, lo=-10, hi=10):
    return common.frac(2) ** rng.randint(lo, hi)


def small_dyadic(rng, bits=4, hi=12):
    return common.frac(rng.randint(1, hi << bits)) / (1 << bits)


def gen_convert(rng, raising=None):
    """a `nonbond_params` table for a direct call of the real convert_nonbond_to_sig_eps: dyadic values, eps exact
    (nb2 a power of two) in most entries, sigma on the exact boundary ratios 64 / 1 / 1/64, (0, 0), a few negative
    ratios (complex sigma), and -- `raising` -- exactly one entry with one zero operand"""
    entries = []
    for i in range(rng.randint(1, 4)):
        roll = rng.random()
        if roll < 0.3:                               # boundary ratio, eps exact
            nb1 = pow2(rng, -6, 6)
            nb2 = nb1 * rng.choice(list(EXACT_SIXTH))
        elif roll < 0.6:                             # eps exact, sigma generic
            nb1, nb2 = small_dyadic(rng), pow2(rng)
        elif roll < 0.8:                             # generic dyadics (eps correctly rounded)
            nb1, nb2 = small_dyadic(rng), small_dyadic(rng)
        elif roll < 0.9:
            nb1, nb2 = common.frac(0), common.frac(0)
        else:                                        # negative ratio: Python returns a complex sigma
            nb1, nb2 = -small_dyadic(rng), pow2(rng)
            if rng.random() < 0.5:
                nb1, nb2 = -nb1, -nb2
        entries.append(["T%d" % i, "T%d" % rng.randint(0, i), common.rat_str(nb1), common.rat_str(nb2)])
    if raising is not None:
        val = common.rat_str(small_dyadic(rng) * rng.choice([1, -1]))
        row = ["Z", "Z", "0", val] if raising == "nb1-zero" else ["Z", "Z", val, "0"]
        entries.insert(rng.randint(0, len(entries)), row)
    seen, out = set(), []
    for row in entries:
        key = frozenset(row[:2])
        if key not in seen:
            seen.add(key)
            out.append(row)
    return dict(entries=out, raising=raising)


def convert_case(data):
    from polyply.src.topology import Topology
    import vermouth.forcefield
    topology = Topology(vermouth.forcefield.ForceField("verif"), name="verif")
    for a, b, nb1, nb2 in data["entries"]:
        topology.nonbond_params[frozenset([a, b])] = {"nb1": float(common.rat_parse(nb1)),
                                                      "nb2": float(common.rat_parse(nb2))}
    try:
        topology.convert_nonbond_to_sig_eps()
        res = [[a, b, topology.nonbond_params[frozenset([a, b])]["nb1"],
                topology.nonbond_params[frozenset([a, b])]["nb2"]] for a, b, _, _ in data["entries"]]
        if set(topology.nonbond_params) != set(frozenset(r[:2]) for r in data["entries"]):
            res = "pairs changed: %s" % sorted(sorted(k) for k in topology.nonbond_params)
    except Exception as exc:  # pylint: disable=broad-except
        res = "raised " + type(exc).__name__
    reqs = [dict(op="convert", nb1=nb1, nb2=nb2) for _, _, nb1, nb2 in data["entries"]]
    return dict(data=data, res=res, reqs=reqs)


def judge_convert(ctx, case, answers):
    data, res = case["data"], case["res"]
    replay = dict(kind="convert", data=data)
    model_raises = any(not ans["ok"] for ans in answers)
    if isinstance(res, str) or model_raises:
        impl_outcome = "ok" if not isinstance(res, str) else "raise" if res.startswith("raised") else res
        ctx.correspond("convert_nonbond_to_sig_eps", impl_outcome, "raise" if model_raises else "ok", replay)
    else:
        impl_c, model_c = [], []
        for (a, b, nb1, nb2), (_, _, sig, eps), ans in zip(data["entries"], res, answers):
            p2 = common.rat_parse(nb2)
            eps_exact = p2 != 0 and (abs(p2).numerator == 1 and abs(p2).denominator & (abs(p2).denominator - 1) == 0
                                     or abs(p2).denominator == 1 and abs(p2).numerator & (abs(p2).numerator - 1) == 0)
            good = val_agrees(sig, ans["sig"], True) and val_agrees(eps, ans["eps"], eps_exact or p2 == 0)
            impl_c.append([a, b, "agrees"] if good else [a, b, show_num(sig), show_num(eps)])
            model_c.append([a, b, "agrees"] if good else [a, b, ans["sig"], ans["eps"]])
            # the property clause, on positive values: the converted values reproduce the table
            p1 = common.rat_parse(nb1)
            if p1 > 0 and p2 > 0 and not isinstance(sig, complex) and not isinstance(eps, complex):
                fs, fe = common.frac(sig), common.frac(eps)
                r6, r12 = (4 * fe * fs ** 6 - p1) / p1, (4 * fe * fs ** 12 - p2) / p2
                if abs(r6) > 1e-9 or abs(r12) > 1e-9:
                    ctx.oracle_fail("sigeps-not-reproducing", "C6=%s C12=%s converted to sigma=%r eps=%r; 4 eps sig^6 / C6 - 1 "
                                    "= %.3e, 4 eps sig^12 / C12 - 1 = %.3e" % (nb1, nb2, sig, eps, float(r6), float(r12)),
                                    replay)
                ctx.tally(sigeps_checked=True)
            ctx.tally(convert_entry=ans["sig"]["k"] + ("" if ans["sig"]["k"] != "root" else
                                                       "-boundary" if common.rat_parse(ans["sig"]["rad"]) in EXACT_SIXTH
                                                       else ""))
        ctx.correspond("convert_nonbond_to_sig_eps", impl_c, model_c, replay)
    ctx.case(json.dumps(data, sort_keys=True), sample=dict(entries=data["entries"], result=str(res)[:300]),
             convert="raise" if model_raises else "ok")


RULE_FUNCS = ["lorentz_berthelot_rule", "geometric_rule"]


def gen_combrule(rng, via):
    """four dyadic numbers for a direct call of a combination-rule function (`via` = its name) or of the real gen_pairs
    (`via` = rule number 1/2/3) on a two-type topology; products are perfect dyadic squares in half of the cases (square
    root compared exactly), zeros and (direct calls only) negative products (complex result) occasionally"""
    def pair():
        roll = rng.random()
        if roll < 0.5:                    # product a perfect square: (k u^2) (k v^2)
            k, u, v = small_dyadic(rng, 2, 6), small_dyadic(rng, 3, 6), small_dyadic(rng, 3, 6)
            return k * u * u, k * v * v
        if roll < 0.85:
            return small_dyadic(rng), small_dyadic(rng)
        if roll < 0.93 or not isinstance(via, str):
            return common.frac(0), small_dyadic(rng)
        return -small_dyadic(rng), small_dyadic(rng)
    (a, b), (c, d) = pair(), pair()
    if rng.random() < 0.5:
        a, b = b, a
    if rng.random() < 0.5:
        c, d = d, c
    if rng.random() < 0.1:               # a type combined with a copy of itself
        b, d = a, c
    return dict(via=via, a=common.rat_str(a), b=common.rat_str(b), c=common.rat_str(c), d=common.rat_str(d))


def combrule_case(data):
    """`a, b` are the two nb1 (first two parameters of the rule), `c, d` the two nb2"""
    from polyply.src import topology as topmod
    import vermouth.forcefield
    a, b, c, d = (float(common.rat_parse(data[k])) for k in "abcd")
    res = {}
    try:
        if isinstance(data["via"], str):
            out = getattr(topmod, data["via"])(a, b, c, d)
            res["fwd"] = [out[0], out[1]]
            out = getattr(topmod, data["via"])(b, a, d, c)
            res["swapped"] = [out[0], out[1]]
            req = dict(op="combrule", func=data["via"], a=data["a"], b=data["b"], c=data["c"], d=data["d"])
        else:
            for tag, order in (("fwd", ["A", "B"]), ("swapped", ["B", "A"])):
                top = topmod.Topology(vermouth.forcefield.ForceField("verif"), name="verif")
                top.defaults = {"nbfunc": 1.0, "comb-rule": float(data["via"]), "gen-pairs": "yes"}
                vals = {"A": {"nb1": a, "nb2": c}, "B": {"nb1": b, "nb2": d}}
                for name in order:
                    top.atom_types[name] = vals[name]
                top.gen_pairs()
                ent = top.nonbond_params[frozenset(["A", "B"])]
                res[tag] = [ent["nb1"], ent["nb2"]]
                res[tag + "_self"] = [[top.nonbond_params[frozenset([n])]["nb1"], top.nonbond_params[frozenset([n])]["nb2"]]
                                      for n in ("A", "B")]
            req = dict(op="combrule", rule=str(data["via"]), a=data["a"], b=data["b"], c=data["c"], d=data["d"])
    except Exception as exc:  # pylint: disable=broad-except
        res = "raised " + type(exc).__name__
        req = dict(op="combrule", a=data["a"], b=data["b"], c=data["c"], d=data["d"],
                   **(dict(func=data["via"]) if isinstance(data["via"], str) else dict(rule=str(data["via"]))))
    return dict(data=data, res=res, reqs=[req])


def judge_combrule(ctx, case, answers):
    data, res = case["data"], case["res"]
    replay = dict(kind="combrule", data=data)
    ans = answers[0]
    name = "combination rule functions" if isinstance(data["via"], str) else "gen_pairs values"
    if isinstance(res, str) or not ans["ok"]:
        ctx.correspond(name, res if isinstance(res, str) else "ok", "ok" if ans["ok"] else "model: " + str(ans), replay)
    else:
        good = val_agrees(res["fwd"][0], ans["nb1"], True) and val_agrees(res["fwd"][1], ans["nb2"], True)
        ctx.correspond(name, "agrees" if good else [show_num(v) for v in res["fwd"]],
                       "agrees" if good else [ans["nb1"], ans["nb2"]], replay)
        # property clauses: symmetric in the pair; self terms are the atom types' own values
        if res["fwd"] != res["swapped"] and not any(isinstance(v, complex) for v in res["fwd"] + res["swapped"]):
            ctx.oracle_fail("pairs-not-symmetric", "combining (nb1, nb2) = (%s, %s) with (%s, %s) via %s gives %r, the other "
                            "way round %r" % (data["a"], data["c"], data["b"], data["d"], data["via"], res["fwd"],
                                              res["swapped"]), replay)
        if "fwd_self" in res:
            want = [[float(common.rat_parse(data["a"])), float(common.rat_parse(data["c"]))],
                    [float(common.rat_parse(data["b"])), float(common.rat_parse(data["d"]))]]
            if res["fwd_self"] != want or res["swapped_self"] != want:
                ctx.oracle_fail("pairs-self-term-wrong", "self terms %r / %r, atom types carry %r" %
                                (res["fwd_self"], res["swapped_self"], want), replay)
        ctx.tally(combrule=str(data["via"]) + ":" + ans["nb1"]["k"] + "," + ans["nb2"]["k"])
    ctx.case(json.dumps(data, sort_keys=True), sample=dict(data=data, result=str(res)[:300]))


# ------------------------------------------------------------------------------------------------ one case

def types_written(topo):
    """the bonded-type tables as the topology text states them: section -> key -> [(parameters, guard)] in file order,
    guard = [condition, tag] of the enclosing #ifdef/#ifndef/#else branch or None"""
    kind = topo.get("cond_kind", "ifdef")
    other = {"ifdef": "ifndef", "ifndef": "ifdef"}[kind]
    out = {}
    for sec, rows in topo["types"].items():
        table = {}
        for idx, (key, params) in enumerate(rows):
            cond = topo["cond_types"] and idx == 0
            table.setdefault(" ".join(key), []).append([list(params), [kind, "FLEX"] if cond else None])
            if cond and sec in topo.get("else_rows", {}):
                ekey, eparams = topo["else_rows"][sec]
                table.setdefault(" ".join(ekey), []).append([list(eparams), [other, "FLEX"]])
        if table:
            out[sec] = table
    return out


def types_read(request):
    return {sec: {" ".join(key): [[list(p), m] for p, m in entries] for key, entries in table} for sec, table in request["types"]
            if table}


def topo_case(topo):
    """run the implementation on one generated topology, build the batch of driver requests"""
    lines = render(topo)
    request, obs = run_real(lines, topo.get("rename"))
    reqs = [request]
    plan = []                                     # what each further request is for
    opls = any(d[0] in ("_FF_OPLS", "_FF_OPLS_AA") for d in request["defines"])
    btype = {a[0]: a[3] for a in request["atomtypes"]}
    tables = dict((sec, tab) for sec, tab in request["types"])
    defs = dict((k, v) for k, v in request["defines"])

    def eff_len(params):
        """number of parameter tokens after macro substitution (None: a value-less macro is used)"""
        total = 0
        for tok in params:
            if tok in defs:
                if defs[tok] is None:
                    return None
                total += len(defs[tok])
            else:
                total += 1
        return total
    paramless = []
    for blk in request["blocks"]:
        for sec, ixns in blk["ixns"]:
            if sec not in SECTIONS:
                continue
            atoms_seen = [tuple(i[0]) for i in ixns]
            for atoms, params, _ in ixns:
                # "written without parameters" = exactly one token (the function type) once the macros are substituted
                if eff_len(params) != 1 or atoms_seen.count(tuple(atoms)) != 1:
                    continue
                key = [btype.get(blk["atypes"][a]) if opls else blk["atypes"][a] for a in atoms]
                if any(k is None for k in key):
                    continue
                paramless.append((blk["name"], sec, atoms, key))
    for name, sec, atoms, key in paramless:
        inst = [(j, secs) for j, (nm, secs) in enumerate(obs["instances"]) if nm == name]
        if obs["err"] is not None or not inst:
            reqs.append(dict(op="spec", inter_type=sec, table=tables.get(sec, []), key=key, observed=[]))
            plan.append(("resolvable", name, sec, atoms, key, None))
            continue
        for j, secs in inst:
            lst = dict((s, l) for s, l in secs).get(sec, [])
            observed = [p for a, p, _ in lst if a == atoms]
            reqs.append(dict(op="spec", inter_type=sec, table=tables.get(sec, []), key=key, observed=observed))
            plan.append(("bonded", name, sec, atoms, key, j, observed))
    # macros: every interaction written WITH parameters keeps its position; expected = Lean replaceParams
    if obs["err"] is None:
        for blk in request["blocks"]:
            inst = [(j, secs) for j, (nm, secs) in enumerate(obs["instances"]) if nm == blk["name"]]
            for sec, ixns in blk["ixns"]:
                for pos, (atoms, params, _) in enumerate(ixns):
                    if (eff_len(params) or 0) < 2:
                        continue
                    got = []
                    for j, secs in inst:
                        lst = dict((s, l) for s, l in secs).get(sec, [])
                        got.append(lst[pos][1] if pos < len(lst) and lst[pos][0] == atoms else None)
                    reqs.append(dict(op="replace", defines=request["defines"], params=params))
                    plan.append(("define", blk["name"], sec, atoms, params, got))
    # pairs
    if obs["err"] is None:
        reqs.append(dict(op="pairspec", atomtypes=request["atomtypes"], nonbond=request["nonbond"],
                         gen_pairs_yes=request["gen_pairs_yes"],
                         observed=[[a, b, f, common.rat_str(x), common.rat_str(y)] for a, b, f, x, y in obs["nb_before"]]))
        plan.append(("pairs",))
        if obs["converted"]:
            for before, after in zip(obs["nb_before"], obs["nb_after"]):
                if before[3] > 0 and before[4] > 0:
                    reqs.append(dict(op="sigeps", c6=common.rat_str(before[3]), c12=common.rat_str(before[4]),
                                     sig=common.rat_str(after[3]), eps=common.rat_str(after[4])))
                    plan.append(("sigeps", before, after))
    # symmetry of the pair table: same topology with the atom types listed the other way round
    swapped = None
    if obs["err"] is None:
        try:
            _, obs2 = run_real(render(topo, swap=True), topo.get("rename"))
            swapped = obs2["nb_after"] if obs2["err"] is None else "raised " + str(obs2["err"])
        except Exception as exc:  # pylint: disable=broad-except
            swapped = "raised " + type(exc).__name__
    # the same topology as an include tree (same flattened text): preprocessing must resolve it alike
    tree = None
    if topo.get("tree") and not topo.get("rename"):
        files = split_tree(lines)
        if files is not None:
            tree = run_real_tree(files)
    return dict(topo=topo, request=request, obs=obs, reqs=reqs, plan=plan, paramless=len(paramless), swapped=swapped,
                tree=tree, types_read=None if topo.get("rename") else types_read(request))


def judge_topo(ctx, case, answers):
    topo, obs, plan = case["topo"], case["obs"], case["plan"]
    replay = dict(kind="topology", topo=topo)
    model = answers[0]
    impl_c = dict(ok=obs["err"] is None)
    model_c = dict(ok=bool(model["ok"]))
    if obs["err"] is None:
        impl_c.update(instances=obs["instances"], nonbond=canon_nb_impl(obs["nb_before"]), converted=obs["converted"])
    if model["ok"]:
        model_c.update(instances=canon_instances_model(model["instances"]), nonbond=canon_nb_model(model["nonbond"]),
                       converted=model["converted"])
    ctx.correspond("preprocess", impl_c, model_c, replay)
    if obs["err"] is None and model["ok"]:
        # the NUMBERS of the pair table: after gen_pairs (combination rules) and when preprocess returns (converted
        # iff comb-rule == 1).  Decimal inputs: float arithmetic rounds, so 1e-9 (roots: on the radicand)
        ctx.correspond("pair values after gen_pairs", *compare_values(obs["nb_before"], model["pairs"], False), replay)
        ctx.correspond("pair values after preprocess", *compare_values(obs["nb_after"], model["final"], False), replay)
        ctx.tally(pair_values_checked=len(obs["nb_after"]) > 0)
    unresolvable = False
    for item, ans in zip(plan, answers[1:]):
        kind = item[0]
        if kind == "resolvable":
            if ans["verdict"] == "no-matching-type":
                unresolvable = True
        elif kind == "bonded":
            _, name, sec, atoms, key, j, observed = item
            verdict = ans["verdict"]
            if verdict == "no-matching-type":
                unresolvable = True
            elif verdict != "ok":
                shape = {"not-most-specific": "dihedral-not-most-specific", "wrong-type": "bonded-wrong-type",
                         "terms-not-expanded": "terms-not-expanded-in-instance"}[verdict]
                ctx.oracle_fail(shape, "%s %s of %s (types %s), instance %d: the interactions on these atoms carry %s, "
                                "the property allows the terms of %s" % (sec, atoms, name, key, j,
                                                                         observed, ans["allowed"]),
                                replay)
            ctx.tally(bonded_checked=sec)
        elif kind == "define":
            _, name, sec, atoms, params, got = item
            want = ans.get("params") if ans["ok"] else None
            if want is not None and any(g != want for g in got):
                ctx.oracle_fail("define-not-substituted", "%s %s of %s written with %s: instances carry %s, macro "
                                "substitution gives %s" % (sec, atoms, name, params, got, want), replay)
            ctx.tally(defines_checked=len(params) != len(want or params))
        elif kind == "pairs":
            if ans["verdict"] != "ok":
                ctx.oracle_fail("pairs-" + ans["verdict"], "nonbond table after gen_pairs violates the pair clauses "
                                "(%s): %s" % (ans["verdict"], obs["nb_before"]), replay)
        elif kind == "sigeps":
            _, before, after = item
            r6, r12 = common.rat_parse(ans["r6"]), common.rat_parse(ans["r12"])
            if abs(r6) > 1e-9 or abs(r12) > 1e-9:
                ctx.oracle_fail("sigeps-not-reproducing", "pair %s-%s: C6=%r C12=%r converted to sigma=%r eps=%r; "
                                "4 eps sig^6 / C6 - 1 = %.3e, 4 eps sig^12 / C12 - 1 = %.3e"
                                % (before[0], before[1], before[3], before[4], after[3], after[4], float(r6), float(r12)),
                                replay)
            ctx.tally(sigeps_checked=True)
    if obs["err"] is not None and topo["valid"] and not unresolvable:
        ctx.oracle_fail("rejects-resolvable-topology", "preprocess raised %s although every parameterless "
                        "interaction has a matching bonded type" % obs["err"], replay)
    if obs["err"] is None and case["swapped"] is not None and case["swapped"] != obs["nb_after"]:
        ctx.oracle_fail("pairs-not-symmetric", "listing the atom types (and nonbond_params pairs) the other way "
                        "round changes the pair table: %s vs %s" % (obs["nb_after"], case["swapped"]), replay)
    if case.get("types_read") is not None:
        # "the parameters of the matching bonded type": the type tables preprocessing resolves against are the ones the
        # topology states — every entry with its parameters and with the guard of the branch it was written in
        want, got = types_written(topo), case["types_read"]
        if want != got:
            bad = [(sec, key) for sec in sorted(set(want) | set(got))
                   for key in sorted(set(want.get(sec, {})) | set(got.get(sec, {})))
                   if want.get(sec, {}).get(key) != got.get(sec, {}).get(key)]
            sec, key = bad[0]
            ctx.oracle_fail("bonded-type-guard-differs", "bonded type %s %r is written as %s (parameters, guard of the "
                            "#ifdef/#ifndef/#else branch) but held by the topology as %s"
                            % (sec, key, want.get(sec, {}).get(key), got.get(sec, {}).get(key)), replay)
        ctx.tally(type_tables_checked=True, types_with_else=bool(topo.get("else_rows")))
    tree = case.get("tree")
    if tree is not None:
        flat = dict(err=obs["err"]) if obs["err"] is not None else dict(err=None, nb_after=obs["nb_after"],
                                                                         instances=obs["instances"])
        if (tree["err"] is None) != (flat["err"] is None):
            ctx.oracle_fail("include-tree-changes-resolution", "the topology %s as one file but %s when the force field and "
                            "the molecule types are #included from sub-directories (each with its own ffbonded.itp)"
                            % ("is resolved" if flat["err"] is None else "raises " + str(flat["err"]),
                               "is resolved" if tree["err"] is None else "raises " + str(tree["err"])), replay)
        elif tree["err"] is None and tree != flat:
            diff = [(a[0], x[0]) for a, b in zip(flat["instances"], tree["instances"]) for x, y in zip(a[1], b[1]) if x != y]
            ctx.oracle_fail("include-tree-changes-resolution", "preprocessing resolves the topology differently when its "
                            "force field and molecule types are #included from sub-directories (each with its own "
                            "ffbonded.itp; same flattened text): differing (molecule, section) %s; nonbond equal: %s"
                            % (diff[:4], tree["nb_after"] == flat["nb_after"]), replay)
        ctx.tally(include_tree_checked=True)
    key = json.dumps(topo, sort_keys=True) if case["paramless"] else None
    nmol = sum(c for _, c in topo["molecules"])
    ctx.case(key, sample=dict(lines="".join(render(topo))[:700], result="rejected (%s)" % obs["err"] if obs["err"]
                              else obs["instances"][:1]),
             comb=topo["comb"], gen_pairs=topo["gen_pairs"], outcome="ok" if obs["err"] is None else "reject",
             malformed=topo["malformed"], instances=min(nmol, 6), paramless=min(case["paramless"], 8),
             opls=any(f.startswith("_FF_OPLS") for f in topo["flags"]))


# ------------------------------------------------------------------------------------------------ include trees

def split_tree(lines):
    """The rendered topology cut into an include tree whose flattened text is the rendered text itself: the force
    field in `ff/forcefield.itp` (defaults, atom types, nonbond_params) which includes `ffbonded.itp` (the first
    half of the bonded-type sections, i.e. `ff/ffbonded.itp`), the molecule types in `lig/molecules.itp` which starts
    with an include of ITS OWN `ffbonded.itp` (the second half, `lig/ffbonded.itp` — same written name, other
    directory, resolved relative to the including file as grompp does), `#define`s, `[ system ]` and `[ molecules ]`
    in `system.top`.  Every file starts with a section header, every include is followed by one (the class of
    trees for which C08 proves reading = reading the flattened text)."""
    text = [l.rstrip("\n") for l in lines]
    segs, cur = [], None
    prefix = []
    for line in text:
        if line.startswith("[") and not (cur is not None and cur["mol"] and line.strip("[ ]") not in TOP_LEVEL):
            cur = dict(name=line.strip("[ ]"), lines=[line], mol=line.strip("[ ]") == "moleculetype")
            segs.append(cur)
        elif cur is None:
            prefix.append(line)
        else:
            cur["lines"].append(line)
    ffmain = [l for sg in segs if sg["name"] in ("defaults", "atomtypes", "nonbond_params") for l in sg["lines"]]
    typesecs = [sg for sg in segs if sg["name"].endswith("types") and sg["name"] != "atomtypes"]
    half = (len(typesecs) + 1) // 2
    first = [l for sg in typesecs[:half] for l in sg["lines"]]
    second = [l for sg in typesecs[half:] for l in sg["lines"]]
    mols = [l for sg in segs if sg["mol"] for l in sg["lines"]]
    tail = [l for sg in segs if sg["name"] in ("system", "molecules") for l in sg["lines"]]
    if not ffmain or not mols or not first or not second:
        return None
    files = {"system.top": prefix + ['#include "ff/forcefield.itp"', '#include "lig/molecules.itp"'] + tail,
             "ff/forcefield.itp": ffmain + ['#include "ffbonded.itp"'],
             "ff/ffbonded.itp": first,
             "lig/molecules.itp": ["[ atomtypes ]", '#include "ffbonded.itp"'] + mols,
             "lig/ffbonded.itp": second}
    return files


TOP_LEVEL = {"defaults", "atomtypes", "nonbond_params", "bondtypes", "angletypes", "dihedraltypes", "constrainttypes",
             "pairtypes", "moleculetype", "system", "molecules"}


def run_real_tree(files):
    """the real `Topology.from_gmx_topfile` on the tree written to a temporary directory, then the real preprocess"""
    import tempfile
    from polyply.src.topology import Topology
    with tempfile.TemporaryDirectory(prefix="c09_tree_") as tmp:
        for rel, content in files.items():
            path = os.path.join(tmp, rel)
            os.makedirs(os.path.dirname(path), exist_ok=True)
            with open(path, "w") as handle:
                handle.write("".join(line + "\n" for line in content))
        try:
            topology = Topology.from_gmx_topfile(os.path.join(tmp, "system.top"), "verif")
            topology.preprocess()
        except Exception as exc:  # pylint: disable=broad-except
            return dict(err=type(exc).__name__)
        return dict(err=None, nb_after=snapshot_nonbond(topology.nonbond_params),
                    instances=[[m.mol_name, canon_sections(m.molecule.interactions)] for m in topology.molecules])


# ------------------------------------------------------------------------------------------------ direct wildcard search

def gen_match(rng, mask=None):
    """atoms + dihedral type table for a direct call of match_dihedral_interaction_types"""
    pool = rng.sample(TYPE_POOL, rng.randint(1, 4))
    if rng.random() < 0.05:
        pool.append("X")
    atoms = [rng.choice(pool) for _ in range(4)]
    table, keys = [], set()
    entries = rng.randint(0, 4)
    specs = [mask] if mask is not None else []
    specs += [rng.choice(MASKS) for _ in range(entries)]
    for msk in specs:
        base = atoms if rng.random() < 0.5 else atoms[::-1]
        if rng.random() < 0.2:
            base = [rng.choice(pool + ["ZZ"]) for _ in range(4)]
        key = tuple("X" if m else b for b, m in zip(base, msk))
        if key not in keys:
            keys.add(key)
            table.append([list(key), [[["9", str(len(table))], None]]])
    return dict(atoms=atoms, table=table)


def mask_key(base, mask):
    return ["X" if m else b for b, m in zip(base, mask)]


ATOM_SHAPES = [("distinct", ["CT", "CA", "N", "O"]), ("palindrome", ["CT", "CA", "CA", "CT"]), ("same", ["CT", "CT", "CT", "CT"])]


def exhaustive_match():
    """EVERY wildcard mask as the only key of the table: 16 masks x key stored forward / reversed x atoms distinct /
    palindromic / all the same (each case is searched in both listing directions); and EVERY ordered pair of masks as a
    two-entry table whose keys both match the atoms: 16 x 16 x each key stored forward / reversed x atoms distinct /
    palindromic (both listing directions again; the dict order of the two keys is the pair order)."""
    out = []
    for shape, atoms in ATOM_SHAPES:
        for mask in MASKS:
            for stored_rev in (False, True):
                key = mask_key(atoms[::-1] if stored_rev else atoms, mask)
                out.append(dict(atoms=atoms, table=[[key, [[["9", "0"], None]]]], exhaustive="single"))
    for shape, atoms in ATOM_SHAPES[:2]:
        for m1 in MASKS:
            for m2 in MASKS:
                for rev1 in (False, True):
                    for rev2 in (False, True):
                        k1 = mask_key(atoms[::-1] if rev1 else atoms, m1)
                        k2 = mask_key(atoms[::-1] if rev2 else atoms, m2)
                        table = [[k1, [[["9", "0"], None]]]]
                        if k2 != k1:
                            table.append([k2, [[["9", "1"], None]]])
                        out.append(dict(atoms=atoms, table=table, exhaustive="pair"))
    return out


def match_case(data):
    from polyply.src.topology import match_dihedral_interaction_types
    table = {tuple(k): v for k, v in data["table"]}
    res = {}
    for tag, atoms in (("fwd", tuple(data["atoms"])), ("rev", tuple(data["atoms"][::-1]))):
        try:
            got = match_dihedral_interaction_types(atoms, table)
            res[tag] = None if got is None else list(got)
        except Exception as exc:  # pylint: disable=broad-except
            res[tag] = "raised " + type(exc).__name__
    reqs = [dict(op="matchdih", atoms=data["atoms"], table=data["table"]),
            dict(op="matchdih", atoms=data["atoms"][::-1], table=data["table"])]
    return dict(data=data, res=res, reqs=reqs)


def judge_match(ctx, case, answers):
    data, res = case["data"], case["res"]
    replay = dict(kind="match", data=data)
    fwd, rev = answers
    ctx.correspond("match_dihedral_interaction_types", [res["fwd"], res["rev"]], [fwd["match"], rev["match"]], replay)
    best = fwd["best"]
    for tag, ans in (("fwd", fwd), ("rev", rev)):
        got = res[tag]
        atoms = data["atoms"] if tag == "fwd" else data["atoms"][::-1]
        if isinstance(got, str):
            ctx.oracle_fail("dihedral-search-crash", "match_dihedral_interaction_types(%s) %s" % (atoms, got), replay)
        elif got is None and ans["matching"]:
            ctx.oracle_fail("dihedral-match-missed", "atoms %s: table keys %s match (wildcard X, either direction) but the "
                            "search returned None" % (atoms, ans["matching"]), replay)
        elif got is not None and got not in ans["matching"]:
            ctx.oracle_fail("dihedral-nonmatching-key", "atoms %s: returned key %s does not match" % (atoms, got), replay)
        elif got is not None and got not in ans["best"]:
            ctx.oracle_fail("dihedral-not-most-specific", "atoms %s: returned key %s but %s match(es) with fewer "
                            "wildcards" % (atoms, got, ans["best"]), replay)
    if len(best) == 1 and not isinstance(res["fwd"], str) and not isinstance(res["rev"], str) \
            and res["fwd"] != res["rev"] and res["fwd"] is not None and res["rev"] is not None:
        ctx.oracle_fail("dihedral-direction-dependent", "atoms %s resolve to %s, reversed to %s"
                        % (data["atoms"], res["fwd"], res["rev"]), replay)
    nmatch = len(fwd["matching"])
    if data.get("exhaustive"):
        ctx.tally(match_exhaustive=data["exhaustive"])
    ctx.case(json.dumps(data, sort_keys=True) if data["table"] else None,
             sample=dict(atoms=data["atoms"], table=[k for k, _ in data["table"]], result=res),
             match_keys=min(nmatch, 4), match_tie=len(best) > 1,
             match_wild=("none" if not res["fwd"] or isinstance(res["fwd"], str) else res["fwd"].count("X")))


# ------------------------------------------------------------------------------------------------ driver

def corpus_cases():
    path = os.path.join(common.VERIF, "corpus", "C09")
    out = []
    if os.path.isdir(path):
        for name in sorted(os.listdir(path)):
            data = json.load(open(os.path.join(path, name)))
            out.append(data.get("input", data))
    return out


def run_inputs(ctx, inputs):
    cases = []
    for inp in inputs:
        if inp["kind"] == "topology":
            try:
                cases.append(("topology", topo_case(copy.deepcopy(inp["topo"]))))
            except Exception as exc:  # pylint: disable=broad-except
                # the real READER refused the text: C08's business, not a verdict here
                ctx.tally(reader_failed=type(exc).__name__)
        elif inp["kind"] == "convert":
            cases.append(("convert", convert_case(inp["data"])))
        elif inp["kind"] == "combrule":
            cases.append(("combrule", combrule_case(inp["data"])))
        else:
            cases.append(("match", match_case(inp["data"])))
    reqs = []
    for _, case in cases:
        reqs += case["reqs"]
    answers = ctx.driver.ask(reqs)
    pos = 0
    for kind, case in cases:
        n = len(case["reqs"])
        JUDGES[kind](ctx, case, answers[pos:pos + n])
        pos += n


JUDGES = dict(topology=judge_topo, match=judge_match, convert=judge_convert, combrule=judge_combrule)


def run(ctx):
    ctx.extra["rule"] = RULE
    ctx.extra["trusted"] = ["vermouth read_itp / Block.to_molecule (instances alias the block's parameter lists)",
                            "float arithmetic: the model computes with the rationals the floats denote; square and sixth "
                            "roots are specifications (x >= 0, x^deg = radicand) checked exactly on perfect squares / the "
                            "boundary sixth powers and at 1e-9 otherwise; overflow / underflow are outside the model"]
    ctx.extra["explanation"] = (
        "Proof level: the dihedral theorems (most specific, found-iff, direction symmetry, all 16 masks) follow from three "
        "`decide` facts about the pattern list TRANSLATED from topology.match_dihedral_interaction_types plus a generic "
        "analysis of the search loop; exact/reversed lookup, macro substitution, multi-term expansion into every instance "
        "(all k, n), the pair-table clauses and the sigma/epsilon identities (over the reals) are proved for all inputs; "
        "convert_nonbond_to_sig_eps is modelled as code (convertEntry/convertTable: reproduces C6/C12 for all positive "
        "rationals, raises iff exactly one operand is zero), the combination rules and gen_pairs with values (genPairsV: "
        "symmetric, self combination reproduces the type, refines the provenance table), and the literals of topology.py "
        "(type-less sections, OPLS macros, the substring test `in \"dihedrals\"`, `yes`, `== 1`) are translated on every run "
        "(Generated/C09Preprocess.lean; C09_literals by decide).  "
        "The hand-written loop model is tied by the correspondence (direct calls of the real search on random tables over all "
        "masks and both directions, and whole topologies through the real reader + preprocess); the oracle is the Lean "
        "specification (bestKeys/specVerdict/pairsVerdict/sigEpsResidual) evaluated on what the real code wrote.")
    ctx.assumptions += ["atoms of a moleculetype are numbered 1..n consecutively (GROMACS requires it); with gaps the "
                        "expanded terms would carry block keys instead of molecule indices",
                        "[pairs] lines are not resolved through pairtypes (the code treats them as untyped)"]
    rng = ctx.rng
    inputs = corpus_cases()
    exhaustive = exhaustive_match()               # every mask / every pair of masks, see exhaustive_match
    for data in exhaustive:
        inputs.append(dict(kind="match", data=data))
    ctx.extra["exhaustive"] = ("wildcard search: all 16 masks x stored forward/reversed x 3 atom shapes (single-entry tables) "
                               "and all 16x16 mask pairs x 4 storage orientations x 2 atom shapes, each in both listing "
                               "directions: %d tables, exhaustive" % len(exhaustive))
    for _ in range(ctx.budget(700, 12000)):
        inputs.append(dict(kind="match", data=gen_match(rng)))
    # direct calls of the real convert_nonbond_to_sig_eps / combination rules / gen_pairs on dyadic numbers
    for i in range(ctx.budget(240, 3000)):
        raising = [None, None, None, "nb1-zero", "nb2-zero"][i % 5]
        inputs.append(dict(kind="convert", data=gen_convert(rng, raising=raising)))
    for i in range(ctx.budget(300, 3000)):
        via = (RULE_FUNCS + [1, 2, 3])[i % 5]
        inputs.append(dict(kind="combrule", data=gen_combrule(rng, via)))
    for i in range(ctx.budget(220, 2500)):
        malformed = rng.choice(["flag-as-parameter", "no-defaults", "unknown-comb-rule", "missing-type"]) \
            if rng.random() < 0.08 else None
        if malformed is None and i % 8 == 7:
            malformed = "renamed-sections"
        topo = gen_topology(rng, malformed=malformed, big=ctx.thorough and i % 3 == 0)
        topo["tree"] = i % 3 == 1                   # every third topology is also read as an include tree
        inputs.append(dict(kind="topology", topo=topo))
    chunk = 400
    for start in range(0, len(inputs), chunk):
        run_inputs(ctx, inputs[start:start + chunk])


def replay(ctx, data):
    if data.get("kind") == "no-failing-input-found":
        print("replay names obligations that no longer check:")
        for item in data.get("no_longer_checks", []):
            print("  ", item["name"], "-", item["detail"][:300])
        inputs = [i["input"] for i in data.get("no_longer_checks", []) if i.get("input")]
    else:
        inputs = [data.get("input", data)]
    run_inputs(ctx, inputs)
    for b in ctx.broken:
        print("REPLAY-DISAGREES", b["name"], b["detail"][:400])
