"""C03 tables: the amu -> density conversion factor and the rounding of the box edge in
`build_system`, keyword defaults of `gen_coords`."""
import ast
from fractions import Fraction
from gen_tables import src, find_func, kw_default, TranslatorError, rat_literal

LEAN_FILE = "CoordsTables.lean"


def _source_literal(node):
    """the decimal literal as a Fraction, through its repr (exact for the literals used here)"""
    if not isinstance(node, ast.Constant) or not isinstance(node.value, (int, float)):
        raise TranslatorError("anchor is not a numeric literal: %s" % ast.dump(node)[:120])
    return Fraction(repr(node.value))


def _is_third(node):
    """the exponent `1/3.`"""
    try:
        return (isinstance(node, ast.BinOp) and isinstance(node.op, ast.Div)
                and _source_literal(node.left) == 1 and _source_literal(node.right) == 3)
    except TranslatorError:
        return False


def _numeric(node):
    return isinstance(node, ast.Constant) and isinstance(node.value, (int, float)) \
        and not isinstance(node.value, bool)


def density_factors(tree):
    """every `(<mass> * <literal> / <density>) ** (1/3.)` of the module, whatever the helper it lives in and
    whatever the operands are called (the literal may be on either side of the product)"""
    found = []
    for node in ast.walk(tree):
        if not (isinstance(node, ast.BinOp) and isinstance(node.op, ast.Pow) and _is_third(node.right)):
            continue
        base = node.left
        if not (isinstance(base, ast.BinOp) and isinstance(base.op, ast.Div)
                and isinstance(base.left, ast.BinOp) and isinstance(base.left.op, ast.Mult)):
            raise TranslatorError("build_system.py: `(...)**(1/3.)` whose base is not `<mass>*<factor>/<density>`: %s"
                                  % ast.dump(base)[:160])
        lits = [x for x in (base.left.left, base.left.right) if _numeric(x)]
        if len(lits) != 1 or _numeric(base.right):
            raise TranslatorError("build_system.py: `<mass>*<factor>/<density>` needs exactly one numeric literal")
        found.append(_source_literal(lits[0]))
    return found


def round_digits(tree):
    """every `round(<call>, <int literal>)` of the module"""
    found = []
    for node in ast.walk(tree):
        if isinstance(node, ast.Call) and isinstance(node.func, ast.Name) and node.func.id == "round" \
                and len(node.args) == 2 and isinstance(node.args[0], ast.Call):
            digits = _source_literal(node.args[1])
            if digits.denominator != 1 or digits < 0:
                raise TranslatorError("round(<call>, n): n is not a natural number literal")
            found.append(int(digits))
    return found


def extract():
    tab = {}
    tree = src("build_system.py")
    # the anchors are looked for in the whole module (they may live in any helper); each must have exactly
    # one distinct value
    factors = sorted(set(density_factors(tree)))
    if len(factors) != 1:
        raise TranslatorError("anchor not found: exactly one `(<mass>*<factor>/<density>)**(1/3.)` expected in "
                              "build_system.py, found factors %s" % [str(f) for f in factors])
    tab["amuFactor"] = str(factors[0])
    digits = sorted(set(round_digits(tree)))
    if len(digits) != 1:
        raise TranslatorError("anchor not found: exactly one `round(<call>, n)` expected in build_system.py, "
                              "found n in %s" % digits)
    tab["roundDigits"] = digits[0]
    gen = find_func(src("gen_coords.py"), "gen_coords")
    tab["gridSpacing"] = str(Fraction(repr(kw_default(gen, "grid_spacing"))))
    tab["maxiter"] = int(kw_default(gen, "maxiter"))
    tab["nrewind"] = int(kw_default(gen, "nrewind"))
    for name in ("density", "box", "grid", "coordpath", "coordpath_meta"):
        if kw_default(gen, name) is not None:
            raise TranslatorError("gen_coords default of %s is not None" % name)
    return tab


def emit(tab):
    lines = ["namespace PolyplyVerif.CoordsTables", "",
             "/-- `_compute_box_size`: amu/nm^3 -> kg/m^3 conversion factor as written in the source -/",
             "def amuFactor : Rat := %s" % rat_literal(tab["amuFactor"]),
             "/-- `BuildSystem.__init__`: decimals the cube edge is rounded to -/",
             "def roundDigits : Nat := %d" % tab["roundDigits"],
             "/-- keyword defaults of `gen_coords` -/",
             "def gridSpacing : Rat := %s" % rat_literal(tab["gridSpacing"]),
             "def maxiter : Nat := %d" % tab["maxiter"],
             "def nrewind : Nat := %d" % tab["nrewind"],
             "", "end PolyplyVerif.CoordsTables"]
    return "\n".join(lines) + "\n"


def validate_live(tab):
    import inspect
    from polyply.src import gen_coords as gc
    problems = []
    sig = inspect.signature(gc.gen_coords)
    if Fraction(repr(sig.parameters["grid_spacing"].default)) != Fraction(tab["gridSpacing"]):
        problems.append("gen_coords grid_spacing default differs between ast and live module")
    if sig.parameters["maxiter"].default != tab["maxiter"] or sig.parameters["nrewind"].default != tab["nrewind"]:
        problems.append("gen_coords maxiter/nrewind default differs between ast and live module")
    problems += _live_box(tab)
    return problems


def _live_box(tab):
    """the real density path (`BuildSystem.__init__` with no box) on one dyadic input: 8 atoms of mass 1.5
    at density 0.75 must give the edge `round((12 * factor / 0.75) ** (1/3.), digits)` with the extracted
    constants, three equal edges"""
    import types
    import networkx as nx
    import numpy as np
    from polyply.src.build_system import BuildSystem
    graph = nx.Graph()
    for i in range(8):
        graph.add_node(i, mass=1.5, atomname="A", atype="T")
    topology = types.SimpleNamespace(molecules=[types.SimpleNamespace(molecule=graph)], atom_types={}, box=None)
    try:
        builder = BuildSystem(topology, density=0.75, start_dict={}, grid=np.zeros((1, 3)))
        box = [float(x) for x in builder.box]
    except Exception as err:  # pylint: disable=broad-except
        return ["BuildSystem(density=0.75) on an 8-atom stub raised %s: %s" % (type(err).__name__, err)]
    want = round((12.0 * float(Fraction(tab["amuFactor"])) / 0.75) ** (1 / 3.), tab["roundDigits"])
    if box != [want, want, want]:
        return ["density box of the live BuildSystem is %s, the extracted constants (factor %s, %d digits) give %r"
                % (box, tab["amuFactor"], tab["roundDigits"], want)]
    return []
