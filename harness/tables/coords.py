"""C03 tables: the amu -> density conversion factor and the rounding of the box edge in
`build_system`, keyword defaults of `gen_coords`."""
import ast
from fractions import Fraction
from gen_tables import src, find_func, kw_default, TranslatorError, rat_literal

LEAN_FILE = "CoordsTables.lean"


def _source_literal(node):
    """the decimal literal as a Fraction, through its repr (exact for the literals used here)"""
    if not isinstance(node, ast.Constant) or not isinstance(node.value, (int, float)):
        raise TranslatorError("anchor is not a numeric literal: %s" % ast.dump(node)[:120])
    return Fraction(repr(node.value))


def extract():
    tab = {}
    tree = src("build_system.py")
    func = find_func(tree, "_compute_box_size")
    # box = (total_mass*<factor>/density)**(1/3.)
    factor = None
    for node in ast.walk(func):
        if isinstance(node, ast.Assign) and any(isinstance(t, ast.Name) and t.id == "box" for t in node.targets):
            val = node.value
            if not (isinstance(val, ast.BinOp) and isinstance(val.op, ast.Pow)):
                raise TranslatorError("_compute_box_size: `box = (...)**(1/3.)` expected")
            expo = val.right
            if not (isinstance(expo, ast.BinOp) and isinstance(expo.op, ast.Div)
                    and _source_literal(expo.left) == 1 and _source_literal(expo.right) == 3):
                raise TranslatorError("_compute_box_size: exponent is not 1/3.")
            base = val.left
            # (total_mass * factor) / density
            if not (isinstance(base, ast.BinOp) and isinstance(base.op, ast.Div)
                    and isinstance(base.right, ast.Name) and base.right.id == "density"
                    and isinstance(base.left, ast.BinOp) and isinstance(base.left.op, ast.Mult)
                    and isinstance(base.left.left, ast.Name) and base.left.left.id == "total_mass"):
                raise TranslatorError("_compute_box_size: `total_mass*<factor>/density` expected")
            factor = _source_literal(base.left.right)
    if factor is None:
        raise TranslatorError("anchor not found: assignment box in _compute_box_size")
    tab["amuFactor"] = str(factor)
    # box_dim = round(_compute_box_size(topology, self.density), 5)
    init = find_func(tree, "__init__", cls="BuildSystem")
    digits = None
    for node in ast.walk(init):
        if isinstance(node, ast.Call) and isinstance(node.func, ast.Name) and node.func.id == "round" \
                and node.args and isinstance(node.args[0], ast.Call) \
                and getattr(node.args[0].func, "id", None) == "_compute_box_size":
            if len(node.args) != 2:
                raise TranslatorError("round(_compute_box_size(...), n) expected")
            digits = int(_source_literal(node.args[1]))
    if digits is None:
        raise TranslatorError("anchor not found: round(_compute_box_size(...), n) in BuildSystem.__init__")
    tab["roundDigits"] = digits
    gen = find_func(src("gen_coords.py"), "gen_coords")
    tab["gridSpacing"] = str(Fraction(repr(kw_default(gen, "grid_spacing"))))
    tab["maxiter"] = int(kw_default(gen, "maxiter"))
    tab["nrewind"] = int(kw_default(gen, "nrewind"))
    for name in ("density", "box", "grid", "coordpath", "coordpath_meta"):
        if kw_default(gen, name) is not None:
            raise TranslatorError("gen_coords default of %s is not None" % name)
    return tab


def emit(tab):
    lines = ["namespace PolyplyVerif.CoordsTables", "",
             "/-- `_compute_box_size`: amu/nm^3 -> kg/m^3 conversion factor as written in the source -/",
             "def amuFactor : Rat := %s" % rat_literal(tab["amuFactor"]),
             "/-- `BuildSystem.__init__`: decimals the cube edge is rounded to -/",
             "def roundDigits : Nat := %d" % tab["roundDigits"],
             "/-- keyword defaults of `gen_coords` -/",
             "def gridSpacing : Rat := %s" % rat_literal(tab["gridSpacing"]),
             "def maxiter : Nat := %d" % tab["maxiter"],
             "def nrewind : Nat := %d" % tab["nrewind"],
             "", "end PolyplyVerif.CoordsTables"]
    return "\n".join(lines) + "\n"


def validate_live(tab):
    import inspect
    from polyply.src import gen_coords as gc
    problems = []
    sig = inspect.signature(gc.gen_coords)
    if Fraction(repr(sig.parameters["grid_spacing"].default)) != Fraction(tab["gridSpacing"]):
        problems.append("gen_coords grid_spacing default differs between ast and live module")
    if sig.parameters["maxiter"].default != tab["maxiter"] or sig.parameters["nrewind"].default != tab["nrewind"]:
        problems.append("gen_coords maxiter/nrewind default differs between ast and live module")
    return problems
