"""Numeric constants of the neighbour engine and of the random-walk step (C16, C05), read from fixed AST
anchors of the current /repo sources and emitted as exact rationals (decimal text -> Fraction, no float
round trip):

  nonbond_engine.NonBondEngine.compute_force_point   `... < 0.1`            -> overlapFloor
  nonbond_engine.NonBondEngine.add_positions         `start and ....n > 5000` -> treeThreshold
  random_walk.RandomWalk.__init__ keyword defaults   step_fudge, max_force, maxiter, nrewind
"""
import ast
import os
from fractions import Fraction

from gen_tables import REPO, find_func, rat_literal, TranslatorError

LEAN_FILE = "EngineTables.lean"


def _parse(rel):
    path = os.path.join(REPO, "polyply", "src", rel)
    with open(path) as handle:
        text = handle.read()
    return text, ast.parse(text, filename=path)


def _num_text(text, node, what):
    """source text of a numeric literal (sign included), checked against the parsed value"""
    seg = ast.get_source_segment(text, node)
    if seg is None:
        raise TranslatorError("no source segment for " + what)
    seg = seg.strip().replace("_", "")
    try:
        val = ast.literal_eval(node)
        frac = Fraction(seg)
    except Exception as exc:  # pylint: disable=broad-except
        raise TranslatorError("%s is not a numeric literal: %r" % (what, seg)) from exc
    if isinstance(val, bool) or not isinstance(val, (int, float)) or float(frac) != float(val):
        raise TranslatorError("%s: literal %r does not evaluate to %r" % (what, seg, val))
    return seg


def _compare_constants(func, op_type, pred):
    """numeric constants on the right of a comparison `… <op> const` inside func for which pred(left)"""
    found = []
    for node in ast.walk(func):
        if isinstance(node, ast.Compare) and len(node.ops) == 1 and isinstance(node.ops[0], op_type):
            right = node.comparators[0]
            if isinstance(right, ast.Constant) and isinstance(right.value, (int, float)) \
                    and not isinstance(right.value, bool) and pred(node.left):
                found.append(right)
    return found


def _default_node(func, name):
    args = func.args
    pos = args.args
    off = len(pos) - len(args.defaults)
    for i, arg in enumerate(pos):
        if arg.arg == name and i >= off:
            return args.defaults[i - off]
    for arg, dflt in zip(args.kwonlyargs, args.kw_defaults):
        if arg.arg == name and dflt is not None:
            return dflt
    raise TranslatorError("anchor not found: default of %s in %s" % (name, func.name))


def extract():
    tab = {}
    text, tree = _parse("nonbond_engine.py")
    force = find_func(tree, "compute_force_point", cls="NonBondEngine")
    floors = _compare_constants(force, ast.Lt, lambda left: True)
    if len(floors) != 1:
        raise TranslatorError("anchor not found: exactly one `… < <number>` in NonBondEngine.compute_force_point "
                              "(found %d)" % len(floors))
    tab["overlapFloor"] = _num_text(text, floors[0], "overlap floor")

    add = find_func(tree, "add_positions", cls="NonBondEngine")
    thresholds = _compare_constants(add, ast.Gt, lambda left: isinstance(left, ast.Attribute) and left.attr == "n")
    if len(thresholds) != 1:
        # the size of the last tree may be written in another way (`len(self.defined_idxs[-1]) > 5000`, a local
        # name, ...): the threshold is the one integer constant on the right of a `>` in add_positions
        thresholds = [node for node in _compare_constants(add, ast.Gt, lambda left: True)
                      if isinstance(node.value, int)]
    if len(thresholds) != 1:
        raise TranslatorError("anchor not found: exactly one `<size of the last tree> > <integer>` in "
                              "NonBondEngine.add_positions (found %d)" % len(thresholds))
    thr = _num_text(text, thresholds[0], "tree threshold")
    if Fraction(thr).denominator != 1 or Fraction(thr) < 0:
        raise TranslatorError("tree threshold is not a natural number: " + thr)
    tab["treeThreshold"] = thr

    text, tree = _parse("random_walk.py")
    init = find_func(tree, "__init__", cls="RandomWalk")
    for key, arg in (("stepFudge", "step_fudge"), ("maxForce", "max_force"), ("maxiter", "maxiter"),
                     ("nrewind", "nrewind")):
        tab[key] = _num_text(text, _default_node(init, arg), "RandomWalk.__init__ default " + arg)
    for key in ("maxiter", "nrewind"):
        if Fraction(tab[key]).denominator != 1 or Fraction(tab[key]) < 0:
            raise TranslatorError("%s default is not a natural number: %s" % (key, tab[key]))
    return tab


def emit(tab):
    lines = ["namespace PolyplyVerif.EngineTables", ""]
    lines.append("/-- the literal compared with the pair distances in `NonBondEngine.compute_force_point` "
                 "(source text `%s`) -/" % tab["overlapFloor"])
    lines.append("def overlapFloor : Rat := %s" % rat_literal(str(Fraction(tab["overlapFloor"]))))
    lines.append("")
    lines.append("/-- `position_trees[-1].n > %s` in `NonBondEngine.add_positions` -/" % tab["treeThreshold"])
    lines.append("def treeThreshold : Nat := %d" % int(Fraction(tab["treeThreshold"])))
    lines.append("")
    lines.append("/-- keyword defaults of `RandomWalk.__init__` (source text `%s`, `%s`, `%s`, `%s`) -/"
                 % (tab["stepFudge"], tab["maxForce"], tab["maxiter"], tab["nrewind"]))
    lines.append("def stepFudge : Rat := %s" % rat_literal(str(Fraction(tab["stepFudge"]))))
    lines.append("def maxForce : Rat := %s" % rat_literal(str(Fraction(tab["maxForce"]))))
    lines.append("def maxiter : Nat := %d" % int(Fraction(tab["maxiter"])))
    lines.append("def nrewind : Nat := %d" % int(Fraction(tab["nrewind"])))
    lines.append("")
    lines.append("end PolyplyVerif.EngineTables")
    return "\n".join(lines) + "\n"


def validate_live(tab):
    """the live objects: signature defaults, and the constants of the two compiled methods"""
    import inspect
    problems = []
    from polyply.src import random_walk, nonbond_engine
    sig = inspect.signature(random_walk.RandomWalk.__init__)
    for key, arg in (("stepFudge", "step_fudge"), ("maxForce", "max_force"), ("maxiter", "maxiter"),
                     ("nrewind", "nrewind")):
        live = sig.parameters[arg].default
        if float(Fraction(tab[key])) != float(live):
            problems.append("RandomWalk.__init__ default %s: ast %s, live %r" % (arg, tab[key], live))
    consts = nonbond_engine.NonBondEngine.compute_force_point.__code__.co_consts
    if float(Fraction(tab["overlapFloor"])) not in [c for c in consts if isinstance(c, float)]:
        problems.append("overlap floor %s is not a constant of the live compute_force_point" % tab["overlapFloor"])
    consts = nonbond_engine.NonBondEngine.add_positions.__code__.co_consts
    if int(Fraction(tab["treeThreshold"])) not in [c for c in consts if isinstance(c, int) and not isinstance(c, bool)]:
        problems.append("tree threshold %s is not a constant of the live add_positions" % tab["treeThreshold"])
    return problems
