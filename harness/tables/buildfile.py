"""Build-file tables (C18 / C15): literals of polyply/src/build_file_parser.py the token-level model depends on.

* `sectionParsers`   the `@SectionLineParser.section_parser(*path, **kwargs)` decorators of `BuildDirector`
                     (section path -> parser method, keyword arguments), read with `ast`;
* `commentChar`      `BuildDirector.COMMENT_CHAR`;
* `templateTrigger`  the section literal `finalize_section` compares `previous_section` with;
* `tagKeywords`      the node-attribute names `finalize` hands to `_tag_nodes`, in call order;
* `geom*`            the token indices `_base_parser_geometry` reads (resname, start, stop, in/out token, point,
                     first free parameter) and the layout of the `parameters` list.

The field indices are read from the `tokens[<k>]` subscripts of the source; when the function is rewritten so
that the subscripts are no longer there (tuple unpacking, helper, ...) they are obtained by calling the live
static method on probe tokens with pairwise distinct values (same spirit as `gen_tables.module_value`'s
fallback to the live attribute).  `validate_live` always compares with the probe and with the live
`METH_DICT`.
"""
import ast
from gen_tables import (src, find_func, lit, lean_value, lstr, live_module, TranslatorError)

LEAN_FILE = "BuildFileTables.lean"
REL = "build_file_parser.py"
CLS = "BuildDirector"


def _class(tree):
    for node in tree.body:
        if isinstance(node, ast.ClassDef) and node.name == CLS:
            return node
    raise TranslatorError("anchor not found: class %s" % CLS)


def _section_parsers(cls):
    out = []
    for func in cls.body:
        if not isinstance(func, ast.FunctionDef):
            continue
        for deco in func.decorator_list:
            if isinstance(deco, ast.Call) and isinstance(deco.func, ast.Attribute) and deco.func.attr == "section_parser":
                path = [lit(a) for a in deco.args]
                if not path or not all(isinstance(p, str) for p in path):
                    raise TranslatorError("section_parser decorator of %s has a non-literal path" % func.name)
                kwargs = sorted((k.arg, lit(k.value)) for k in deco.keywords)
                if not all(isinstance(k, str) and isinstance(v, str) for k, v in kwargs):
                    raise TranslatorError("section_parser decorator of %s has non-string keywords" % func.name)
                out.append((path, func.name, [(k, v) for k, v in kwargs]))
    if not out:
        raise TranslatorError("anchor not found: @SectionLineParser.section_parser decorators in %s" % CLS)
    paths = [tuple(p) for p, _, _ in out]
    if len(set(paths)) != len(paths):
        raise TranslatorError("a section path is registered twice in %s" % CLS)
    return sorted(out)


def _comment_char(cls):
    for node in cls.body:
        if isinstance(node, ast.Assign) and any(isinstance(t, ast.Name) and t.id == "COMMENT_CHAR" for t in node.targets):
            try:
                return lit(node.value)
            except TranslatorError:
                break
    try:
        return getattr(getattr(live_module(REL[:-3]), CLS), "COMMENT_CHAR")
    except Exception as err:  # pylint: disable=broad-except
        raise TranslatorError("anchor not found: %s.COMMENT_CHAR (%s)" % (CLS, err))


def _str_seq(node):
    if isinstance(node, ast.Call) and node.args:          # tuple([...]) / list((...))
        node = node.args[0]
    if isinstance(node, (ast.List, ast.Tuple)) and node.elts and \
            all(isinstance(e, ast.Constant) and isinstance(e.value, str) for e in node.elts):
        return [e.value for e in node.elts]
    return None


def _template_trigger(tree):
    func = find_func(tree, "finalize_section", cls=CLS)
    found = []
    for node in ast.walk(func):
        if isinstance(node, ast.Compare):
            for side in [node.left] + list(node.comparators):
                seq = _str_seq(side)
                if seq is not None:
                    found.append(seq)
    if len(found) != 1:
        raise TranslatorError("anchor not found: the section literal compared in %s.finalize_section (found %r)" % (CLS, found))
    return found[0]


def _tag_keywords(tree):
    func = find_func(tree, "finalize", cls=CLS)
    words = []
    for node in ast.walk(func):
        if isinstance(node, ast.Call) and isinstance(node.func, ast.Attribute) and node.func.attr == "_tag_nodes":
            if len(node.args) >= 2 and isinstance(node.args[1], ast.Constant) and isinstance(node.args[1].value, str):
                words.append((node.lineno, node.col_offset, node.args[1].value))
            else:
                raise TranslatorError("_tag_nodes call in %s.finalize has no literal keyword" % CLS)
    if not words:
        raise TranslatorError("anchor not found: _tag_nodes calls in %s.finalize" % CLS)
    return [w for _, _, w in sorted(words)]


PROBE = ["T0", "1", "2", "T3", "4", "5", "6", "7", "8"]


def probe_geometry():
    """field layout of `_base_parser_geometry`, observed on the live function"""
    director = getattr(live_module(REL[:-3]), CLS)
    res = director._base_parser_geometry(list(PROBE), "TY")          # pylint: disable=protected-access
    idx_of = {"T0": 0, "T3": 3}

    def num_idx(val):
        hits = [i for i, tok in enumerate(PROBE) if tok not in idx_of and float(tok) == float(val)]
        if len(hits) != 1:
            raise TranslatorError("probe of _base_parser_geometry: value %r is not one token" % (val,))
        return hits[0]
    params = list(res["parameters"])
    layout, point, rest, inout = [], None, [], None
    for item in params:
        if isinstance(item, str) and item == "TY":
            layout.append("type")
        elif isinstance(item, str):
            inout = idx_of[item]
            layout.append("inout")
        elif hasattr(item, "__len__"):
            point = [num_idx(x) for x in item]
            layout.append("point")
        else:
            rest.append(num_idx(item))
            if not layout or layout[-1] != "rest":
                layout.append("rest")
    if point is None or len(point) != 3 or inout is None or not rest or rest != list(range(rest[0], len(PROBE))):
        raise TranslatorError("probe of _base_parser_geometry: unexpected parameters %r" % (params,))
    return dict(geomResname=idx_of[res["resname"]], geomStart=num_idx(res["start"]), geomStop=num_idx(res["stop"]),
                geomInOut=inout, geomPoint=point, geomRest=rest[0], geomLayout=layout)


def _ast_geometry(tree):
    """the same layout, read from the `tokens[<k>]` subscripts of the source (None when the shape is not there)"""
    func = find_func(tree, "_base_parser_geometry", cls=CLS)
    if not func.args.args:
        return None
    tokens = func.args.args[0].arg

    def tok_index(node):
        """k of `tokens[k]` or `float(tokens[k])`"""
        if isinstance(node, ast.Call) and len(node.args) == 1:
            node = node.args[0]
        if isinstance(node, ast.Subscript) and isinstance(node.value, ast.Name) and node.value.id == tokens \
                and isinstance(node.slice, ast.Constant) and isinstance(node.slice.value, int):
            return node.slice.value
        return None
    fields, point, params_list, rest = {}, None, None, None
    for node in ast.walk(func):
        if isinstance(node, ast.Assign) and len(node.targets) == 1:
            tgt = node.targets[0]
            if isinstance(tgt, ast.Subscript) and isinstance(tgt.slice, ast.Constant) and tgt.slice.value in ("resname", "start", "stop"):
                fields[tgt.slice.value] = tok_index(node.value)
            elif isinstance(tgt, ast.Name) and tgt.id == "point":
                for sub in ast.walk(node.value):
                    if isinstance(sub, ast.List) and len(sub.elts) == 3:
                        point = [tok_index(e) for e in sub.elts]
            elif isinstance(tgt, ast.Name) and tgt.id == "parameters" and isinstance(node.value, ast.List):
                params_list = node.value.elts
        elif isinstance(node, ast.For) and isinstance(node.iter, ast.Subscript) and isinstance(node.iter.value, ast.Name) \
                and node.iter.value.id == tokens and isinstance(node.iter.slice, ast.Slice) \
                and isinstance(node.iter.slice.lower, ast.Constant) and node.iter.slice.upper is None:
            rest = node.iter.slice.lower.value
    if None in (fields.get("resname"), fields.get("start"), fields.get("stop"), point, params_list, rest) \
            or None in point or len(params_list) != 2:
        return None
    inout = tok_index(params_list[0])
    if inout is None or not (isinstance(params_list[1], ast.Name) and params_list[1].id == "point"):
        return None
    return dict(geomResname=fields["resname"], geomStart=fields["start"], geomStop=fields["stop"], geomInOut=inout,
                geomPoint=point, geomRest=rest, geomLayout=["inout", "point", "rest", "type"])


def _extract():
    tree = src(REL)
    cls = _class(tree)
    tab = dict(sectionParsers=_section_parsers(cls), commentChar=_comment_char(cls),
               templateTrigger=_template_trigger(tree), tagKeywords=_tag_keywords(tree))
    if not (isinstance(tab["commentChar"], str) and len(tab["commentChar"]) == 1):
        raise TranslatorError("COMMENT_CHAR is not a one-character string")
    geom = _ast_geometry(tree)
    tab["geomSource"] = "ast"
    if geom is None:
        try:
            geom = probe_geometry()
        except TranslatorError:
            raise
        except Exception as err:  # pylint: disable=broad-except
            raise TranslatorError("anchor not found: token indices of _base_parser_geometry (%s)" % err)
        tab["geomSource"] = "probe"
    tab.update(geom)
    return tab


def extract():
    """never let an unexpected shape of the source take down the checks of OTHER properties: anything that is not
    a TranslatorError becomes one (only the properties importing BuildFileTables.lean are concerned)"""
    try:
        return _extract()
    except TranslatorError:
        raise
    except Exception as err:  # pylint: disable=broad-except
        raise TranslatorError("build_file_parser.py could not be translated: %s: %s" % (type(err).__name__, err))


def emit(tab):
    lines = ["namespace PolyplyVerif.BuildFileTables", ""]
    lines.append("/-- `@SectionLineParser.section_parser` decorators of `BuildDirector`: (section path, method, keyword arguments) -/")
    lines.append("def sectionParsers : List (List String × String × List (String × String)) :=")
    lines.append("  " + lean_value([(p, m, kw) for p, m, kw in tab["sectionParsers"]]))
    lines.append("")
    lines.append("/-- `BuildDirector.COMMENT_CHAR` -/")
    lines.append("def commentChar : Char := %s" % ("'" + tab["commentChar"].replace("\\", "\\\\").replace("'", "\\'") + "'"))
    lines.append("")
    lines.append("/-- the section whose end stores a template (`finalize_section`) -/")
    lines.append("def templateTrigger : List String := " + lean_value(tab["templateTrigger"]))
    lines.append("")
    lines.append("/-- node attributes written by `finalize` through `_tag_nodes`, in call order -/")
    lines.append("def tagKeywords : List String := " + lean_value(tab["tagKeywords"]))
    lines.append("")
    lines.append("/-- `_base_parser_geometry`: token indices (source: %s) -/" % tab["geomSource"])
    for key in ("geomResname", "geomStart", "geomStop", "geomInOut", "geomRest"):
        lines.append("def %s : Nat := %d" % (key, tab[key]))
    lines.append("def geomPoint : Nat × Nat × Nat := " + lean_value(tuple(tab["geomPoint"])))
    lines.append("/-- layout of the `parameters` list -/")
    lines.append("def geomLayout : List String := " + lean_value(tab["geomLayout"]))
    lines.append("")
    lines.append("end PolyplyVerif.BuildFileTables")
    return "\n".join(lines) + "\n"


def validate_live(tab):
    try:
        return _validate_live(tab)
    except Exception as err:  # pylint: disable=broad-except
        return ["live validation of build_file_parser.py failed: %s: %s" % (type(err).__name__, err)]


def _validate_live(tab):
    problems = []
    mod = live_module(REL[:-3])
    director = getattr(mod, CLS)
    live = {}
    for path, (method, kwargs) in director.METH_DICT.items():
        live[tuple(path)] = (getattr(method, "__name__", "?"), sorted(kwargs.items()))
    own = {tuple(p): (m, sorted(kw)) for p, m, kw in tab["sectionParsers"]}
    inherited = {k: v for k, v in live.items() if k not in own}
    if set(inherited) != {("macros",)}:
        problems.append("METH_DICT has entries that are neither decorated in BuildDirector nor ('macros',): %r"
                        % sorted(set(inherited) - {("macros",)}))
    for path, val in own.items():
        if live.get(path) != val:
            problems.append("section %r: decorator says %r, live METH_DICT says %r" % (path, val, live.get(path)))
    if director.COMMENT_CHAR != tab["commentChar"]:
        problems.append("COMMENT_CHAR differs between ast and live class")
    try:
        probe = probe_geometry()
        for key, val in probe.items():
            if tab[key] != val:
                problems.append("_base_parser_geometry %s: source says %r, live probe says %r" % (key, tab[key], val))
    except Exception as err:  # pylint: disable=broad-except
        problems.append("probe of _base_parser_geometry failed: %s" % err)
    return problems
