"""Sequence-input anchors (property C12): the literals of simple_seq_parsers.py / meta_molecule.py / gen_seq.py /
gen_itp.py that the Lean model `Model/Seq.lean` writes out — terminal suffixes, .ig terminators and comment
sign, the fasta marker, the alphabet keywords, the file-suffix dispatch table, the circular edge label, the
separators of the gen_seq command strings, the `seqid` attribute and the degree of a terminal node.

`ast` only (the /repo sources are parsed, not run).  Every anchor accepts the equivalent spellings a harmless
rewrite produces (helper extracted, comprehension instead of loop, keyword argument instead of item assignment,
`!=` instead of `==` ...) and raises TranslatorError only when the literal cannot be located at all.
`validate_live` cross-checks the values against the imported modules by PROBING the real functions.
"""
import ast
from gen_tables import src, find_func, lean_value, lstr, TranslatorError, live_module

LEAN_FILE = "SeqTables.lean"


# ------------------------------------------------------------------------------------------------ helpers

def _func_or_module(tree, name):
    """the named function if it (still) exists, else the whole module (a helper may have been extracted)"""
    try:
        return find_func(tree, name)
    except TranslatorError:
        return tree


def _body_nodes(func):
    """all nodes of a function except its docstring and the arguments of `raise` / logging calls (messages)"""
    skip = set()
    for node in ast.walk(func):
        if isinstance(node, ast.Raise):
            for sub in ast.walk(node):
                skip.add(id(sub))
        if isinstance(node, ast.Call) and isinstance(node.func, ast.Attribute) and \
                node.func.attr in ("warning", "info", "debug", "error", "format"):
            for sub in ast.walk(node):
                skip.add(id(sub))
        if isinstance(node, (ast.FunctionDef, ast.ClassDef, ast.Module)) and node.body and \
                isinstance(node.body[0], ast.Expr) and isinstance(node.body[0].value, ast.Constant) and \
                isinstance(node.body[0].value.value, str):
            skip.add(id(node.body[0].value))
    return [n for n in ast.walk(func) if id(n) not in skip]


def _int_const(node):
    if isinstance(node, ast.Constant) and isinstance(node.value, int) and not isinstance(node.value, bool):
        return node.value
    if isinstance(node, ast.UnaryOp) and isinstance(node.op, ast.USub) and isinstance(node.operand, ast.Constant) \
            and isinstance(node.operand.value, int):
        return -node.operand.value
    return None


def _str_consts(node):
    """string constants of an expression; a tuple/list/set of strings gives its elements"""
    out = []
    for sub in ast.walk(node):
        if isinstance(sub, ast.Constant) and isinstance(sub.value, str):
            out.append(sub.value)
    return out


def _split_constants(tree):
    """constants `c` of every `<expr>.split(c)` call"""
    out = []
    for node in ast.walk(tree):
        if isinstance(node, ast.Call) and isinstance(node.func, ast.Attribute) and node.func.attr == "split" \
                and node.args and isinstance(node.args[0], ast.Constant) and isinstance(node.args[0].value, str):
            out.append(node.args[0].value)
    return out


# ------------------------------------------------------------------------------------------------ anchors

def _suffixes(tree):
    """`monomers[0] = monomers[0] + "5"` / `monomers[-1] += "3"` / f-string forms in `_parse_plain`"""
    found = {}
    for node in ast.walk(_func_or_module(tree, "_parse_plain")):
        target, value = None, None
        if isinstance(node, ast.Assign) and len(node.targets) == 1:
            target, value = node.targets[0], node.value
        elif isinstance(node, ast.AugAssign) and isinstance(node.op, ast.Add):
            target, value = node.target, node.value
        if not isinstance(target, ast.Subscript):
            continue
        idx = _int_const(target.slice)
        if idx not in (0, -1):
            continue
        strings = []
        if isinstance(value, ast.Constant) and isinstance(value.value, str):          # x[0] += "5"
            strings = [value.value]
        elif isinstance(value, ast.BinOp) and isinstance(value.op, ast.Add) and \
                isinstance(value.right, ast.Constant) and isinstance(value.right.value, str):
            strings = [value.right.value]                                              # x[0] = x[0] + "5"
        elif isinstance(value, ast.JoinedStr):                                         # x[0] = f"{x[0]}5"
            parts = value.values
            if len(parts) == 2 and isinstance(parts[0], ast.FormattedValue) and isinstance(parts[1], ast.Constant):
                strings = [parts[1].value]
        if len(strings) == 1:
            found.setdefault(idx, set()).add(strings[0])
    if set(found) != {0, -1} or any(len(v) != 1 for v in found.values()):
        raise TranslatorError("anchor not found: terminal suffixes `monomers[0] + \"5\"` / `monomers[-1] + \"3\"` "
                              "in simple_seq_parsers._parse_plain (found %r)" % (found,))
    return next(iter(found[0])), next(iter(found[-1]))


def _one_char_consts(node):
    out = []
    for text in _str_consts(node):
        if len(text) == 1:
            out.append(text)
        elif 1 < len(text) <= 4 and text.isdigit():     # `in "12"`
            out += list(text)
    return out


def _ig_terminators(tree):
    func = find_func(tree, "parse_ig")
    body = _body_nodes(func)
    chars = []
    for node in body:
        if isinstance(node, ast.Compare):
            for part in [node.left] + list(node.comparators):
                chars += _one_char_consts(part)
    terms = sorted(set(chars))
    if len(terms) != 2:
        raise TranslatorError("anchor not found: the two terminator characters compared in parse_ig (found %r)" % terms)
    circular = set()
    for node in body:
        if isinstance(node, ast.If) and isinstance(node.test, ast.Compare) and len(node.test.ops) == 1:
            closes = any(isinstance(c, ast.Call) and isinstance(c.func, ast.Attribute) and
                         c.func.attr in ("add_edge", "add_edges_from", "add_cycle")
                         for stmt in node.body for c in ast.walk(stmt))
            if not closes:
                continue
            named = _one_char_consts(node.test)
            if len(named) != 1 or named[0] not in terms:
                continue
            if isinstance(node.test.ops[0], ast.Eq):
                circular.add(named[0])
            elif isinstance(node.test.ops[0], ast.NotEq):
                circular.add([t for t in terms if t != named[0]][0])
    if len(circular) != 1:
        raise TranslatorError("anchor not found: `if ter_char == '2':` guarding the closing add_edge in parse_ig "
                              "(found %r)" % sorted(circular))
    return terms, next(iter(circular))


def _circle_label(tree):
    func = find_func(tree, "parse_ig")
    pairs = set()
    for node in ast.walk(func):
        if isinstance(node, ast.Assign) and len(node.targets) == 1 and isinstance(node.targets[0], ast.Subscript) \
                and isinstance(node.targets[0].slice, ast.Constant) and isinstance(node.targets[0].slice.value, str) \
                and isinstance(node.value, ast.Constant) and isinstance(node.value.value, str):
            pairs.add((node.targets[0].slice.value, node.value.value))          # edges[(a, b)]["linktype"] = "circle"
        if isinstance(node, ast.Call) and isinstance(node.func, ast.Attribute) and node.func.attr == "add_edge":
            for kw in node.keywords:
                if kw.arg is not None and isinstance(kw.value, ast.Constant) and isinstance(kw.value.value, str):
                    pairs.add((kw.arg, kw.value.value))                            # add_edge(a, b, linktype="circle")
                if kw.arg is None and isinstance(kw.value, ast.Dict):              # add_edge(a, b, **{"linktype": "circle"})
                    for k, v in zip(kw.value.keys, kw.value.values):
                        if isinstance(k, ast.Constant) and isinstance(v, ast.Constant):
                            pairs.add((str(k.value), str(v.value)))
    if len(pairs) != 1:
        raise TranslatorError("anchor not found: the edge label set on the closing edge in parse_ig (found %r)"
                              % sorted(pairs))
    return next(iter(pairs))


def _fasta_marker(tree):
    func = find_func(tree, "parse_fasta")
    chars = []
    for node in _body_nodes(func):
        if isinstance(node, ast.Compare):
            for part in [node.left] + list(node.comparators):
                chars += [c for c in _str_consts(part) if len(c) == 1]
        if isinstance(node, ast.Call) and isinstance(node.func, ast.Attribute) and \
                node.func.attr in ("startswith", "find", "count", "__contains__"):
            for arg in node.args:
                chars += [c for c in _str_consts(arg) if len(c) == 1]
    marks = sorted(set(chars))
    if len(marks) != 1:
        raise TranslatorError("anchor not found: the `'>' in line` test of parse_fasta (found %r)" % marks)
    return marks[0]


def _keywords(tree):
    """the three keywords `_identify_residues` looks for, as (DNA, RNA, AA) — the order of its return value.
    Accepted: `if "DNA" in comment: DNA = True` (any order), `DNA = any("DNA" in c ...)`, and the tuple form
    `DNA, RNA, AA = (... for keyword in ("DNA", "RNA", "PROTEIN"))`.  None = mapping to be probed live."""
    func = find_func(tree, "_identify_residues")
    body = _body_nodes(func)
    words = []
    for node in body:
        if isinstance(node, ast.Constant) and isinstance(node.value, str) and node.value not in words:
            words.append(node.value)
    if len(words) != 3:
        raise TranslatorError("anchor not found: exactly three keyword literals in _identify_residues (found %r)" % words)
    ret = None
    for node in body:
        if isinstance(node, ast.Return) and isinstance(node.value, ast.Tuple) and \
                all(isinstance(e, ast.Name) for e in node.value.elts) and len(node.value.elts) == 3:
            ret = [e.id for e in node.value.elts]
    mapping = {}
    for node in body:
        # if "DNA" in comment: DNA = True
        if isinstance(node, ast.If) and isinstance(node.test, ast.Compare) and \
                isinstance(node.test.left, ast.Constant) and isinstance(node.test.left.value, str) and \
                len(node.test.ops) == 1 and isinstance(node.test.ops[0], ast.In):
            for stmt in node.body:
                if isinstance(stmt, ast.Assign) and len(stmt.targets) == 1 and isinstance(stmt.targets[0], ast.Name) \
                        and isinstance(stmt.value, ast.Constant) and stmt.value.value is True:
                    mapping[stmt.targets[0].id] = node.test.left.value
        # DNA = any("DNA" in c for c in comments)   /   DNA = DNA or "DNA" in comment
        if isinstance(node, (ast.Assign, ast.AugAssign)):
            target = node.targets[0] if isinstance(node, ast.Assign) and len(node.targets) == 1 else \
                getattr(node, "target", None)
            if isinstance(target, ast.Name):
                inside = [c.left.value for c in ast.walk(node.value) if isinstance(c, ast.Compare) and
                          isinstance(c.left, ast.Constant) and isinstance(c.left.value, str) and
                          any(isinstance(o, ast.In) for o in c.ops)]
                if len(inside) == 1:
                    mapping[target.id] = inside[0]
            # DNA, RNA, AA = (<...> for keyword in ("DNA", "RNA", "PROTEIN"))
            if isinstance(target, ast.Tuple) and all(isinstance(e, ast.Name) for e in target.elts) and \
                    isinstance(node.value, (ast.GeneratorExp, ast.ListComp)) and len(node.value.generators) == 1:
                it = node.value.generators[0].iter
                if isinstance(it, (ast.Tuple, ast.List)) and len(it.elts) == len(target.elts) and \
                        all(isinstance(e, ast.Constant) and isinstance(e.value, str) for e in it.elts):
                    for name, elt in zip(target.elts, it.elts):
                        mapping[name.id] = elt.value
    if ret is not None and all(r in mapping for r in ret) and sorted(mapping[r] for r in ret) == sorted(words):
        return [mapping[r] for r in ret], False
    return words, True      # literals found, association unknown: probed on the live function


def _probe_keywords(words):
    """which flag (DNA, RNA, AA) each keyword switches on, asked of the live `_identify_residues`"""
    mod = live_module("simple_seq_parsers")
    out = [None, None, None]
    for word in words:
        try:
            flags = tuple(bool(f) for f in mod._identify_residues([word]))  # pylint: disable=protected-access
        except Exception as err:  # pylint: disable=broad-except
            raise TranslatorError("keyword %r alone is refused by _identify_residues: %s" % (word, err))
        if sum(flags) != 1 or out[flags.index(True)] is not None:
            raise TranslatorError("keyword %r does not switch on exactly one unused flag: %r" % (word, flags))
        out[flags.index(True)] = word
    return out


def _parsers(meta_tree):
    """MetaMolecule.parsers: suffix -> name of the parser function"""
    for node in ast.walk(meta_tree):
        if isinstance(node, ast.ClassDef) and node.name == "MetaMolecule":
            for stmt in node.body:
                if isinstance(stmt, ast.Assign) and any(isinstance(t, ast.Name) and t.id == "parsers" for t in stmt.targets) \
                        and isinstance(stmt.value, ast.Dict):
                    out = []
                    for key, val in zip(stmt.value.keys, stmt.value.values):
                        if not (isinstance(key, ast.Constant) and isinstance(key.value, str)):
                            break
                        if isinstance(val, ast.Name):
                            out.append((key.value, val.id))
                        elif isinstance(val, ast.Attribute):
                            out.append((key.value, val.attr))
                        else:
                            break
                    else:
                        return out
    # not a literal any more (e.g. built from a smaller table): the live class attribute
    try:
        meta = live_module("meta_molecule").MetaMolecule
        parsers_mod = live_module("simple_seq_parsers")
        out = []
        for key, func in meta.parsers.items():
            names = sorted(n for n in dir(parsers_mod) if getattr(parsers_mod, n) is func and n.startswith("parse_"))
            if not names:
                raise TranslatorError("parser of suffix %r is not a parse_* function of simple_seq_parsers" % key)
            out.append((str(key), names[0]))
        return out
    except TranslatorError:
        raise
    except Exception as err:  # pylint: disable=broad-except
        raise TranslatorError("anchor not found: MetaMolecule.parsers (neither a dict literal nor a live attribute: %s)" % err)


def _comment_char(tree):
    """the comment sign of the .ig reader: argument of the `split_comments` call in parse_ig, else the default of
    vermouth.parser_utils.split_comments (library default, read from the installed library)"""
    func = find_func(tree, "parse_ig")
    for node in ast.walk(func):
        if isinstance(node, ast.Call) and (getattr(node.func, "id", None) == "split_comments" or
                                            getattr(node.func, "attr", None) == "split_comments"):
            for kw in node.keywords:
                if kw.arg == "comment_char" and isinstance(kw.value, ast.Constant):
                    return str(kw.value.value)
            if len(node.args) >= 2 and isinstance(node.args[1], ast.Constant):
                return str(node.args[1].value)
            import inspect
            from vermouth.parser_utils import split_comments
            default = inspect.signature(split_comments).parameters["comment_char"].default
            if isinstance(default, str) and len(default) == 1:
                return default
    raise TranslatorError("anchor not found: split_comments(line) call in parse_ig")


def _gen_seq(tree):
    seps = sorted(set(_split_constants(tree)))
    if not seps:
        raise TranslatorError("anchor not found: `.split(<literal>)` calls in gen_seq.py")
    seqid = set()
    for node in ast.walk(tree):
        if isinstance(node, ast.Call):
            name = getattr(node.func, "id", None) or getattr(node.func, "attr", None)
            if name == "find_atoms" and len(node.args) >= 2 and isinstance(node.args[1], ast.Constant):
                seqid.add(node.args[1].value)
    gsg = find_func(tree, "generate_seq_graph")
    for node in ast.walk(gsg):
        if isinstance(node, ast.Call) and getattr(node.func, "attr", None) == "set_node_attributes":
            if len(node.args) >= 3 and isinstance(node.args[2], ast.Constant):
                seqid.add(node.args[2].value)
            for kw in node.keywords:
                if kw.arg == "name" and isinstance(kw.value, ast.Constant):
                    seqid.add(kw.value.value)
    if len(seqid) != 1:
        raise TranslatorError("anchor not found: one attribute name shared by find_atoms(graph, \"seqid\", …) and "
                              "generate_seq_graph's set_node_attributes (found %r)" % sorted(map(str, seqid)))
    degrees = set()
    for node in ast.walk(_func_or_module(tree, "_find_terminal_nodes")):
        if isinstance(node, ast.Compare) and len(node.ops) == 1 and isinstance(node.ops[0], ast.Eq):
            for part in [node.left] + list(node.comparators):
                val = _int_const(part)
                if val is not None:
                    degrees.add(val)
    if isinstance(_func_or_module(tree, "_find_terminal_nodes"), ast.Module) or len(degrees) != 1:
        raise TranslatorError("anchor not found: `degree == 1` in gen_seq._find_terminal_nodes (found %r)" % sorted(degrees))
    return seps, next(iter(seqid)), next(iter(degrees))


def extract():
    tab = {}
    parsers = src("simple_seq_parsers.py")
    tab["suffix5"], tab["suffix3"] = _suffixes(parsers)
    tab["igTerminators"], tab["igCircular"] = _ig_terminators(parsers)
    tab["igCommentChar"] = _comment_char(parsers)
    tab["fastaMarker"] = _fasta_marker(parsers)
    words, probe = _keywords(parsers)
    if probe:
        words = _probe_keywords(words)
    tab["keywords"] = list(words)
    tab["circleKey"], tab["circleValue"] = _circle_label(parsers)
    tab["parsers"] = _parsers(src("meta_molecule.py"))
    tab["genSeqSeparators"], tab["seqidAttr"], tab["terminalDegree"] = _gen_seq(src("gen_seq.py"))
    seps = sorted(set(_split_constants(find_func(src("gen_itp.py"), "split_seq_string"))))
    if len(seps) != 1 or len(seps[0]) != 1:
        raise TranslatorError("anchor not found: `monomer.split(\":\")` in gen_itp.split_seq_string (found %r)" % seps)
    tab["seqItemSep"] = seps[0]
    for key in ("igCircular", "igCommentChar", "fastaMarker"):
        if not (isinstance(tab[key], str) and len(tab[key]) == 1):
            raise TranslatorError("%s is not a single character: %r" % (key, tab[key]))
    return tab


def lchar(c):
    if c == "'":
        return "'\\''"
    if c == "\\":
        return "'\\\\'"
    if not (32 <= ord(c) < 127):
        raise TranslatorError("cannot emit character %r" % c)
    return "'" + c + "'"


def emit(tab):
    lines = ["namespace PolyplyVerif.SeqTables", ""]

    def put(doc, name, typ, val):
        lines.append("/-- %s -/" % doc)
        lines.append("def %s : %s := %s" % (name, typ, val))
        lines.append("")

    put("simple_seq_parsers._parse_plain: suffix appended to monomers[0]", "suffix5", "String", lstr(tab["suffix5"]))
    put("simple_seq_parsers._parse_plain: suffix appended to monomers[-1]", "suffix3", "String", lstr(tab["suffix3"]))
    put("simple_seq_parsers.parse_ig: the characters that end a sequence (sorted)", "igTerminators", "List Char",
        "[" + ", ".join(lchar(c) for c in tab["igTerminators"]) + "]")
    put("simple_seq_parsers.parse_ig: the terminator of a circular sequence", "igCircular", "Char", lchar(tab["igCircular"]))
    put("simple_seq_parsers.parse_ig: comment sign of split_comments(line)", "igCommentChar", "Char", lchar(tab["igCommentChar"]))
    put("simple_seq_parsers.parse_fasta: a line containing this character starts the next sequence", "fastaMarker",
        "Char", lchar(tab["fastaMarker"]))
    put("simple_seq_parsers._identify_residues: keyword switching on DNA", "kwDNA", "String", lstr(tab["keywords"][0]))
    put("simple_seq_parsers._identify_residues: keyword switching on RNA", "kwRNA", "String", lstr(tab["keywords"][1]))
    put("simple_seq_parsers._identify_residues: keyword switching on AA", "kwAA", "String", lstr(tab["keywords"][2]))
    put("simple_seq_parsers.parse_ig: attribute set on the closing edge", "circleKey", "String", lstr(tab["circleKey"]))
    put("simple_seq_parsers.parse_ig: its value", "circleValue", "String", lstr(tab["circleValue"]))
    put("meta_molecule.MetaMolecule.parsers: file suffix -> parser function, in source order", "parsers",
        "List (String × String)", lean_value([(k, v) for k, v in tab["parsers"]]))
    put("gen_seq.py: every literal separator given to str.split (sorted)", "genSeqSeparators", "List String",
        lean_value(list(tab["genSeqSeparators"])))
    put("gen_seq.py: node attribute holding the block index", "seqidAttr", "String", lstr(tab["seqidAttr"]))
    put("gen_seq._find_terminal_nodes: degree of a terminal node", "terminalDegree", "Nat", str(tab["terminalDegree"]))
    put("gen_itp.split_seq_string: separator of `resname:n_blocks`", "seqItemSep", "Char", lchar(tab["seqItemSep"]))
    lines.append("end PolyplyVerif.SeqTables")
    return "\n".join(lines) + "\n"


def validate_live(tab):
    """probe the imported modules: the values read from the source must be what the running code uses"""
    problems = []
    try:
        ssp = live_module("simple_seq_parsers")
        meta = live_module("meta_molecule").MetaMolecule
        want = [(True, False, False), (False, True, False), (False, False, True)]
        for word, flags in zip(tab["keywords"], want):
            got = tuple(bool(f) for f in ssp._identify_residues(["x " + word + " y"]))  # pylint: disable=protected-access
            if got != flags:
                problems.append("keyword %r gives flags %r in the live _identify_residues, the source anchor says %r"
                                % (word, got, flags))
        live_keys = sorted(str(k) for k in meta.parsers)
        if live_keys != sorted(k for k, _ in tab["parsers"]):
            problems.append("MetaMolecule.parsers keys differ between ast %r and live class %r"
                            % (sorted(k for k, _ in tab["parsers"]), live_keys))
        for key, name in tab["parsers"]:
            if key in meta.parsers and getattr(ssp, name, None) is not meta.parsers[key]:
                problems.append("MetaMolecule.parsers[%r] is not simple_seq_parsers.%s in the live class" % (key, name))
        graph = ssp._parse_plain(["AC"], DNA=True)  # pylint: disable=protected-access
        names = [graph.nodes[k]["resname"] for k in sorted(graph.nodes)]
        table = ssp.ONE_LETTER_DNA
        if names != [table["A"] + tab["suffix5"], table["C"] + tab["suffix3"]]:
            problems.append("live _parse_plain(['AC'], DNA=True) gives %r, the suffix anchors say %r / %r"
                            % (names, tab["suffix5"], tab["suffix3"]))
    except Exception as err:  # pylint: disable=broad-except
        problems.append("live validation of the sequence anchors failed: %s: %s" % (type(err).__name__, err))
    return problems
