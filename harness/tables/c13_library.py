"""Translator provider for C13 (order of definitions / input files): the literals of polyply/src/load_library.py
that decide WHICH parser reads a file and in WHICH order files are read.

  FORCE_FIELD_PARSERS / BUILD_FILE_PARSERS   suffix -> parser function (dict literals of names)
  read_options_from_files                    the iteration `for path in user_files + lib_files or []`
                                             (which group of files is read first)
  get_parser                                 `file_extension = file_path.suffix[1:]` (the suffix without its dot)

Parsed with `ast` from the current /repo sources; written to Generated/LibraryTables.lean.  The module-level
tables fall back to the live module attribute (function `__name__`) when they are no longer dict literals."""
import ast
from gen_tables import src, module_assign, find_func, live_module, lean_value, lstr, TranslatorError

LEAN_FILE = "LibraryTables.lean"


def _parser_table(tree, name):
    """{suffix: parser function name}, in source order"""
    try:
        node = module_assign(tree, name)
        if not isinstance(node, ast.Dict):
            raise TranslatorError("%s is not a dict literal" % name)
        out = []
        for key, val in zip(node.keys, node.values):
            if not (isinstance(key, ast.Constant) and isinstance(key.value, str)):
                raise TranslatorError("%s has a non-string key" % name)
            if isinstance(val, ast.Name):
                out.append((key.value, val.id))
            elif isinstance(val, ast.Attribute):
                out.append((key.value, val.attr))
            else:
                raise TranslatorError("%s[%r] is not a function name" % (name, key.value))
        return out
    except TranslatorError:
        try:
            live = getattr(live_module("load_library"), name)
            return [(str(k), getattr(v, "__name__")) for k, v in live.items()]
        except Exception as err:  # pylint: disable=broad-except
            raise TranslatorError("anchor not found: load_library.%s (neither a dict literal of names nor a live "
                                  "dict of functions: %s)" % (name, err))


def _names_of_sum(node):
    """`a + b` -> ['a', 'b'] (left to right); `x or []` -> names of x"""
    if isinstance(node, ast.BoolOp) and isinstance(node.op, ast.Or):
        return _names_of_sum(node.values[0])
    if isinstance(node, ast.BinOp) and isinstance(node.op, ast.Add):
        return _names_of_sum(node.left) + _names_of_sum(node.right)
    if isinstance(node, ast.Name):
        return [node.id]
    raise TranslatorError("read_options_from_files: the file loop does not iterate over a sum of names: %s"
                          % ast.dump(node)[:120])


def extract():
    tree = src("load_library.py")
    tab = {}
    tab["forceFieldParsers"] = _parser_table(tree, "FORCE_FIELD_PARSERS")
    tab["buildFileParsers"] = _parser_table(tree, "BUILD_FILE_PARSERS")
    func = find_func(tree, "read_options_from_files")
    loops = [n for n in ast.walk(func) if isinstance(n, ast.For) and isinstance(n.target, ast.Name) and n.target.id == "path"]
    if len(loops) != 1:
        raise TranslatorError("anchor not found: `for path in ...` in read_options_from_files")
    order = _names_of_sum(loops[0].iter)
    if sorted(order) != ["lib_files", "user_files"]:
        raise TranslatorError("read_options_from_files iterates over %s, not over lib_files and user_files" % order)
    tab["readOrder"] = order
    # which positions of `paths` are the library / the user files: `lib_files, user_files = paths`
    unpack = [n for n in ast.walk(func) if isinstance(n, ast.Assign) and isinstance(n.targets[0], ast.Tuple)
              and isinstance(n.value, ast.Name) and n.value.id == "paths"]
    if len(unpack) != 1 or [getattr(e, "id", None) for e in unpack[0].targets[0].elts] not in (["lib_files", "user_files"],
                                                                                              ["user_files", "lib_files"]):
        raise TranslatorError("anchor not found: `lib_files, user_files = paths` in read_options_from_files")
    tab["pathsUnpack"] = [e.id for e in unpack[0].targets[0].elts]
    # get_parser: file_extension = file_path.suffix[1:]
    gp = find_func(tree, "get_parser")
    ok = False
    for node in ast.walk(gp):
        if isinstance(node, ast.Assign) and isinstance(node.targets[0], ast.Name) and node.targets[0].id == "file_extension":
            val = node.value
            if isinstance(val, ast.Subscript) and isinstance(val.value, ast.Attribute) and val.value.attr == "suffix" \
                    and isinstance(val.slice, ast.Slice) and isinstance(val.slice.lower, ast.Constant) \
                    and val.slice.upper is None and val.slice.step is None:
                tab["suffixDrop"] = val.slice.lower.value
                ok = True
    if not ok:
        raise TranslatorError("anchor not found: `file_extension = file_path.suffix[<n>:]` in get_parser")
    if not isinstance(tab["suffixDrop"], int) or isinstance(tab["suffixDrop"], bool) or tab["suffixDrop"] < 0:
        raise TranslatorError("suffix slice start is not a natural number literal")
    return tab


def emit(tab):
    lines = ["namespace PolyplyVerif.LibraryTables", ""]
    lines.append("/-- load_library.FORCE_FIELD_PARSERS: file suffix -> name of the parser function, in source order -/")
    lines.append("def forceFieldParsers : List (String × String) :=")
    lines.append("  " + lean_value(list(tab["forceFieldParsers"])))
    lines.append("")
    lines.append("/-- load_library.BUILD_FILE_PARSERS -/")
    lines.append("def buildFileParsers : List (String × String) :=")
    lines.append("  " + lean_value(list(tab["buildFileParsers"])))
    lines.append("")
    lines.append("/-- read_options_from_files: the groups of files in the order the loop `for path in … + …` visits them -/")
    lines.append("def readOrder : List String := " + lean_value(list(tab["readOrder"])))
    lines.append("")
    lines.append("/-- read_options_from_files: `<a>, <b> = paths` -/")
    lines.append("def pathsUnpack : List String := " + lean_value(list(tab["pathsUnpack"])))
    lines.append("")
    lines.append("/-- get_parser: `file_path.suffix[n:]` — number of leading characters of the suffix that are dropped -/")
    lines.append("def suffixDrop : Nat := %d" % tab["suffixDrop"])
    lines.append("")
    lines.append("end PolyplyVerif.LibraryTables")
    return "\n".join(lines) + "\n"


def validate_live(tab):
    problems = []
    from polyply.src import load_library
    for name, key in (("FORCE_FIELD_PARSERS", "forceFieldParsers"), ("BUILD_FILE_PARSERS", "buildFileParsers")):
        live = getattr(load_library, name)
        # order-insensitive: dict order is not observable through `file_parsers[extension]`
        if sorted((str(k), getattr(v, "__name__", "?")) for k, v in live.items()) != sorted(tab[key]):
            problems.append("%s differs between ast and live module" % name)
    return problems
