"""Base tables: string->string dictionaries and small structural anchors shared by several properties."""
import ast
from gen_tables import (src, module_assign, module_value, find_func, local_assign, lit, lean_value, lstr,
                        TranslatorError, Some)

LEAN_FILE = "Tables.lean"


def extract():
    tab = {}
    tab["baseLibrary"] = module_value("gen_dna.py", "BASE_LIBRARY")
    tab["oneLetterDNA"] = module_value("simple_seq_parsers.py", "ONE_LETTER_DNA")
    tab["oneLetterRNA"] = module_value("simple_seq_parsers.py", "ONE_LETTER_RNA")
    tab["oneLetterAA"] = module_value("simple_seq_parsers.py", "ONE_LETTER_AA")
    for key in ("baseLibrary", "oneLetterDNA", "oneLetterRNA", "oneLetterAA"):
        dct = tab[key]
        if not isinstance(dct, dict) or not all(isinstance(k, str) and isinstance(v, str) for k, v in dct.items()):
            raise TranslatorError(key + " is not a str->str dict literal")

    mods = src("apply_modifications.py")
    names = module_value("apply_modifications.py", "protein_resnames")
    if isinstance(names, str):
        names = names.split("|")
    tab["proteinResnames"] = [str(x) for x in names]

    # which tree constructor each branch of MetaMolecule.search_tree calls
    meta = src("meta_molecule.py")
    kinds = None
    for node in ast.walk(meta):
        if isinstance(node, ast.FunctionDef) and node.name == "search_tree":
            for sub in ast.walk(node):
                if isinstance(sub, ast.If) and isinstance(sub.test, ast.Attribute) and sub.test.attr == "dfs":
                    kinds = (_tree_ctor(sub.body), _tree_ctor(sub.orelse))
    if kinds is None:
        raise TranslatorError("anchor not found: `if self.dfs:` in MetaMolecule.search_tree")
    tab["searchTreeIfDfs"], tab["searchTreeElse"] = kinds
    return tab


def _tree_ctor(body):
    for stmt in body:
        for call in ast.walk(stmt):
            if isinstance(call, ast.Call) and isinstance(call.func, ast.Attribute) \
                    and call.func.attr in ("dfs_tree", "bfs_tree"):
                return call.func.attr
    raise TranslatorError("search_tree branch has no dfs_tree/bfs_tree call")


def emit(tab):
    lines = ["namespace PolyplyVerif.Tables", ""]

    def dict_table(name, dct, doc):
        lines.append("/-- %s -/" % doc)
        lines.append("def %s : List (String × String) :=" % name)
        lines.append("  " + lean_value([(k, v) for k, v in dct.items()]))
        lines.append("")

    dict_table("baseLibrary", tab["baseLibrary"], "gen_dna.BASE_LIBRARY, in source order")
    dict_table("oneLetterDNA", tab["oneLetterDNA"], "simple_seq_parsers.ONE_LETTER_DNA")
    dict_table("oneLetterRNA", tab["oneLetterRNA"], "simple_seq_parsers.ONE_LETTER_RNA")
    dict_table("oneLetterAA", tab["oneLetterAA"], "simple_seq_parsers.ONE_LETTER_AA")
    lines.append("/-- apply_modifications.protein_resnames -/")
    lines.append("def proteinResnames : List String :=")
    lines.append("  " + lean_value(tab["proteinResnames"]))
    lines.append("")
    lines.append("/-- MetaMolecule.search_tree: networkx constructor called when `self.dfs` is true / false -/")
    lines.append("def searchTreeIfDfs : String := %s" % lstr(tab["searchTreeIfDfs"]))
    lines.append("def searchTreeElse : String := %s" % lstr(tab["searchTreeElse"]))
    lines.append("")
    lines.append("end PolyplyVerif.Tables")
    return "\n".join(lines) + "\n"


def validate_live(tab):
    problems = []
    from polyply.src import gen_dna, simple_seq_parsers
    if gen_dna.BASE_LIBRARY != tab["baseLibrary"]:
        problems.append("BASE_LIBRARY differs between ast and live module")
    for name, key in (("ONE_LETTER_DNA", "oneLetterDNA"), ("ONE_LETTER_RNA", "oneLetterRNA"),
                      ("ONE_LETTER_AA", "oneLetterAA")):
        if getattr(simple_seq_parsers, name) != tab[key]:
            problems.append(name + " differs between ast and live module")
    return problems
