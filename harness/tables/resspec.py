"""Option-string grammars of C18: the separator literals and dictionary keys of
`annotate_ligands.parse_residue_spec` / `_find_nodes`, `gen_coords.find_starting_node_from_spec` and
`meta_molecule._interpret_residue_mapping` / `MetaMolecule.split_residue` (`ast` only).

`Model/BuildFile.lean` writes these characters out (`'-'`, `'#'`, the `-split` grammar is parsed by the harness);
`Properties/C18.lean` states that the translated literals are the ones the model uses (`decide`), so that a change
of the source breaks a proof obligation.  `validate_live` probes the live `parse_residue_spec`.
"""
import ast
from gen_tables import src, find_func, lean_value, live_module, TranslatorError

LEAN_FILE = "ResSpecTables.lean"


def _split_calls(func):
    """(separator, maxsplit or -1) of every `<x>.split(<literal>[, <literal>])` in source order"""
    out = []
    for node in ast.walk(func):
        if isinstance(node, ast.Call) and isinstance(node.func, ast.Attribute) and node.func.attr == "split" and node.args:
            sep = node.args[0]
            if not (isinstance(sep, ast.Constant) and isinstance(sep.value, str) and len(sep.value) == 1):
                raise TranslatorError("%s: split separator is not a one-character literal" % func.name)
            maxsplit = -1
            if len(node.args) > 1:
                if not (isinstance(node.args[1], ast.Constant) and isinstance(node.args[1].value, int)):
                    raise TranslatorError("%s: maxsplit is not a literal" % func.name)
                maxsplit = node.args[1].value
            out.append((node.lineno, node.col_offset, sep.value, maxsplit))
    return [(s, m) for _, _, s, m in sorted(out)]


def _subscript_keys(func, name):
    """string constants used as `name[...]` subscripts or in `'...' in name` tests"""
    keys = set()
    for node in ast.walk(func):
        if isinstance(node, ast.Subscript) and isinstance(node.value, ast.Name) and node.value.id == name \
                and isinstance(node.slice, ast.Constant) and isinstance(node.slice.value, str):
            keys.add(node.slice.value)
        if isinstance(node, ast.Compare) and len(node.ops) == 1 and isinstance(node.ops[0], (ast.In, ast.NotIn)) \
                and isinstance(node.left, ast.Constant) and isinstance(node.left.value, str) \
                and isinstance(node.comparators[0], ast.Name) and node.comparators[0].id == name:
            keys.add(node.left.value)
    return sorted(keys)


CANDIDATES = "#-:,;/|@%&+=~_.!?*"


def probe_spec():
    """separators and keys of the LIVE `parse_residue_spec` (fallback when the `split` calls are not in its body)"""
    parse = live_module("annotate_ligands").parse_residue_spec

    def try_parse(text):
        try:
            return parse(text)
        except Exception:  # pylint: disable=broad-except
            return None
    idx_seps = [c for c in CANDIDATES if (try_parse("AB%s3" % c) or {}).get("mol_idx") == 3
                and (try_parse("AB%s3" % c) or {}).get("molname") == "AB"]
    if len(idx_seps) != 1:
        raise TranslatorError("probe of parse_residue_spec: index separator not unique: %r" % (idx_seps,))
    idx = idx_seps[0]
    res_seps = [c for c in CANDIDATES if c != idx and (try_parse("AB%sRX" % c) or {}).get("resname") == "RX"
                and (try_parse("AB%sRX" % c) or {}).get("molname") == "AB"]
    if len(res_seps) != 1:
        raise TranslatorError("probe of parse_residue_spec: residue separator not unique: %r" % (res_seps,))
    res = res_seps[0]
    resid_seps = [c for c in CANDIDATES if c != res and (try_parse("AB%sRX%s17" % (res, c)) or {}).get("resid") == 17.0
                  and (try_parse("AB%sRX%s17" % (res, c)) or {}).get("resname") == "RX"]
    if len(resid_seps) != 1:
        raise TranslatorError("probe of parse_residue_spec: resid separator not unique: %r" % (resid_seps,))
    # split once: a second separator stays in the second field
    once = (try_parse("AB%sRX%sRY" % (res, res)) or {}).get("resname") == "RX%sRY" % res
    bad_idx = try_parse("AB%s3%s4" % (idx, idx)) is None            # int('3#4') fails: split once at '#'
    bad_resid = try_parse("AB%sRX%s1%s2" % (res, resid_seps[0], resid_seps[0])) is None
    if not (once and bad_idx and bad_resid):
        raise TranslatorError("probe of parse_residue_spec: the parts are not split exactly once")
    full = try_parse("AB%s3%sRX%s17" % (idx, res, resid_seps[0]))
    if not isinstance(full, dict):
        raise TranslatorError("probe of parse_residue_spec: a full specification is rejected")
    return [(res, 1), (idx, 1), (resid_seps[0], 1)], sorted(str(k) for k in full)


def probe_find_nodes():
    import networkx as nx
    find = live_module("annotate_ligands")._find_nodes          # pylint: disable=protected-access
    graph = nx.Graph()
    graph.add_node(0, resname="RA", resid=1, molname="A", mol_idx=0)
    keys = []
    for key in ("resname", "resid", "molname", "mol_idx"):
        if not list(find(graph, {key: "no-such-value"})):
            keys.append(key)
    if not keys:
        raise TranslatorError("probe of _find_nodes: no attribute is compared")
    return keys


def probe_mapping():
    """separators of the LIVE `_interpret_residue_mapping`: new name / atoms, atom / atom"""
    import networkx as nx
    interpret = live_module("meta_molecule")._interpret_residue_mapping     # pylint: disable=protected-access
    graph = nx.Graph()
    graph.add_node(0, resname="R", atomname="X")
    graph.add_node(1, resname="R", atomname="Y")

    def try_map(text):
        try:
            return dict(interpret(graph, "R", [text]))
        except Exception:  # pylint: disable=broad-except
            return None
    name_seps = [c for c in CANDIDATES if try_map("NX%sX" % c) == {0: "NX"}]
    if len(name_seps) != 1:
        raise TranslatorError("probe of _interpret_residue_mapping: name separator not unique: %r" % (name_seps,))
    atom_seps = [c for c in CANDIDATES if c != name_seps[0] and try_map("NX%sX%sY" % (name_seps[0], c)) == {0: "NX", 1: "NX"}]
    if len(atom_seps) != 1:
        raise TranslatorError("probe of _interpret_residue_mapping: atom separator not unique: %r" % (atom_seps,))
    return [name_seps[0], atom_seps[0]]


def _all_split_seps(tree, wanted):
    """one-character `.split(...)` separators anywhere in the module that are in `wanted` (order of appearance)"""
    found = []
    for node in ast.walk(tree):
        if isinstance(node, ast.Call) and isinstance(node.func, ast.Attribute) and node.func.attr in ("split", "partition") \
                and node.args and isinstance(node.args[0], ast.Constant) and node.args[0].value in wanted:
            found.append((node.lineno, node.col_offset, node.args[0].value))
    return [s for _, _, s in sorted(found)]


def _extract():
    lig = src("annotate_ligands.py")
    spec = find_func(lig, "parse_residue_spec")
    source = {}
    try:
        splits = _split_calls(spec)
        keys = _subscript_keys(spec, "out")
        if len(splits) != 3 or not keys:
            raise TranslatorError("shape not found")
        source["spec"] = "ast"
    except TranslatorError:
        splits, keys = probe_spec()
        source["spec"] = "probe"
    find = find_func(lig, "_find_nodes")
    find_keys = None
    for node in ast.walk(find):
        if isinstance(node, (ast.List, ast.Tuple)) and node.elts and \
                all(isinstance(e, ast.Constant) and isinstance(e.value, str) for e in node.elts):
            find_keys = [e.value for e in node.elts]
    source["find"] = "ast"
    if find_keys is None:
        find_keys = probe_find_nodes()
        source["find"] = "probe"
    start = find_func(src("gen_coords.py"), "find_starting_node_from_spec")
    start_keys = sorted(set(n.value for n in ast.walk(start)
                            if isinstance(n, ast.Constant) and isinstance(n.value, str) and n.value in keys))
    if not start_keys:
        raise TranslatorError("anchor not found: specification fields used by find_starting_node_from_spec")
    meta = src("meta_molecule.py")
    try:
        mapping_seps = [s for s, _ in _split_calls(find_func(meta, "_interpret_residue_mapping"))]
        if len(mapping_seps) != 2:
            raise TranslatorError("shape not found")
        source["mapping"] = "ast"
    except TranslatorError:
        mapping_seps = probe_mapping()
        source["mapping"] = "probe"
    residue_seps = [s for s, _ in _split_calls(find_func(meta, "split_residue", cls="MetaMolecule"))]
    if len(residue_seps) != 1:
        # the residue-name separator: the one split/partition separator of the module that is not a mapping separator
        others = [s for s in _all_split_seps(meta, set(CANDIDATES)) if s not in mapping_seps]
        if len(set(others)) != 1:
            raise TranslatorError("anchor not found: residue-name separator of the -split grammar (%r)" % (others,))
        residue_seps = [others[0]]
    return dict(specSplits=splits, specKeys=keys, findNodesKeys=find_keys, startKeys=start_keys,
                splitSeparators=residue_seps + mapping_seps, source=source)


def extract():
    try:
        return _extract()
    except TranslatorError:
        raise
    except Exception as err:  # pylint: disable=broad-except
        raise TranslatorError("option-string grammars could not be translated: %s: %s" % (type(err).__name__, err))


def _chr(c):
    return "'" + c.replace("\\", "\\\\").replace("'", "\\'") + "'"


def emit(tab):
    lines = ["-- read from: %s" % ", ".join("%s=%s" % kv for kv in sorted(tab["source"].items())),
             "namespace PolyplyVerif.ResSpecTables", ""]
    lines.append("/-- `parse_residue_spec`: the `str.split(sep, maxsplit)` calls in source order (molecule part / residue "
                 "part, name / index, name / resid) -/")
    lines.append("def specSplits : List (Char × Int) := [" + ", ".join("(%s, %d)" % (_chr(s), m) for s, m in tab["specSplits"]) + "]")
    lines.append("/-- keys of the dictionary it returns -/")
    lines.append("def specKeys : List String := " + lean_value(tab["specKeys"]))
    lines.append("/-- `_find_nodes`: the node attributes compared -/")
    lines.append("def findNodesKeys : List String := " + lean_value(tab["findNodesKeys"]))
    lines.append("/-- `find_starting_node_from_spec`: the specification fields looked at -/")
    lines.append("def startKeys : List String := " + lean_value(tab["startKeys"]))
    lines.append("/-- `-split <resname>:<new>-<atom>,<atom>`: separators of `split_residue` and `_interpret_residue_mapping` -/")
    lines.append("def splitSeparators : List Char := [" + ", ".join(_chr(s) for s in tab["splitSeparators"]) + "]")
    lines.append("")
    lines.append("end PolyplyVerif.ResSpecTables")
    return "\n".join(lines) + "\n"


def validate_live(tab):
    problems = []
    for name, probe, key in (("parse_residue_spec", lambda: probe_spec()[0], "specSplits"),
                             ("_find_nodes", probe_find_nodes, "findNodesKeys"),
                             ("_interpret_residue_mapping", probe_mapping, None)):
        try:
            got = probe()
            want = tab[key] if key else tab["splitSeparators"][1:]
            if [tuple(x) if isinstance(x, (list, tuple)) else x for x in got] != \
                    [tuple(x) if isinstance(x, (list, tuple)) else x for x in want]:
                problems.append("%s: source says %r, live probe says %r" % (name, want, got))
        except Exception as err:  # pylint: disable=broad-except
            problems.append("live probe of %s failed: %s: %s" % (name, type(err).__name__, err))
    try:
        parse = live_module("annotate_ligands").parse_residue_spec
        mol_sep, idx_sep = tab["specSplits"][0][0], tab["specSplits"][1][0]
        text = "AB%s3%sRX%s17" % (idx_sep, mol_sep, tab["specSplits"][2][0])
        got = parse(text)
        want = {"molname": "AB", "mol_idx": 3, "resname": "RX", "resid": 17.0}
        if got != want:
            problems.append("parse_residue_spec(%r) = %r, the translated grammar says %r" % (text, got, want))
        if sorted(got) != sorted(tab["specKeys"]):
            problems.append("parse_residue_spec returns keys %r, source says %r" % (sorted(got), tab["specKeys"]))
    except Exception as err:  # pylint: disable=broad-except
        problems.append("live probe of parse_residue_spec failed: %s: %s" % (type(err).__name__, err))
    return problems
