"""Tables of C15 (templates and residue sizes), parsed from the current sources with `ast` only:

* `minimizer.WEIGHTS` and the default `tolerance` of `minimizer.optimize_geometry`,
* `minimizer.INTER_METHODS` (interaction type -> name of the penalty function),
* `virtual_site_builder.VIRTUAL_SITES` ((section, function type) -> name of the constructor function),
* the default `treshold` of `generate_templates.compute_volume`,
* `max_opt` passed to `GenerateTemplates` by `gen_coords`.
"""
import ast
from fractions import Fraction

from gen_tables import src, module_assign, find_func, lit, lstr, TranslatorError, live_module

LEAN_FILE = "TemplateTables.lean"


def _num(node, what):
    val = lit(node)
    if isinstance(val, bool) or not isinstance(val, (int, float)):
        raise TranslatorError("%s is not a number literal" % what)
    return Fraction(repr(val))


def _live_dict(module, name):
    """fallback when a module-level table is no longer a dict literal (e.g. built by a comprehension from
    smaller tables): the attribute of the live module"""
    try:
        val = getattr(live_module(module), name)
    except Exception as err:  # pylint: disable=broad-except
        raise TranslatorError("%s.%s is neither a dict literal nor a live attribute: %s" % (module, name, err))
    if not isinstance(val, dict):
        raise TranslatorError("%s.%s is not a dict" % (module, name))
    return val


def _live_num(val, what):
    if isinstance(val, bool) or not isinstance(val, (int, float)):
        raise TranslatorError("%s is not a number" % what)
    return Fraction(repr(val))


def _default_node(func, name):
    args = func.args
    pos = args.args
    off = len(pos) - len(args.defaults)
    for i, arg in enumerate(pos):
        if arg.arg == name and i >= off:
            return args.defaults[i - off]
    for arg, dflt in zip(args.kwonlyargs, args.kw_defaults):
        if arg.arg == name and dflt is not None:
            return dflt
    raise TranslatorError("anchor not found: default of %s in %s" % (name, func.name))


def extract():
    tab = {}
    mini = src("minimizer.py")
    weights = module_assign(mini, "WEIGHTS")
    if isinstance(weights, ast.Dict):
        tab["weights"] = [(lit(k), _num(v, "WEIGHTS value")) for k, v in zip(weights.keys, weights.values)]
    else:
        tab["weights"] = [(k, _live_num(v, "WEIGHTS value")) for k, v in _live_dict("minimizer", "WEIGHTS").items()]
    tol = _default_node(find_func(mini, "optimize_geometry"), "tolerance")
    if not isinstance(tol, ast.Dict):
        raise TranslatorError("default tolerance of optimize_geometry is not a dict literal")
    tab["tolerance"] = [(lit(k), _num(v, "tolerance value")) for k, v in zip(tol.keys, tol.values)]
    methods = module_assign(mini, "INTER_METHODS")
    if isinstance(methods, ast.Dict) and all(isinstance(v, ast.Name) for v in methods.values):
        tab["interMethods"] = [(lit(k), v.id) for k, v in zip(methods.keys, methods.values)]
    else:
        live = _live_dict("minimizer", "INTER_METHODS")
        if not all(callable(v) and hasattr(v, "__name__") for v in live.values()):
            raise TranslatorError("minimizer.INTER_METHODS is not a dict of functions")
        tab["interMethods"] = [(k, v.__name__) for k, v in live.items()]
    # which entry of WEIGHTS each penalty function multiplies with (compute_bond serves bonds AND constraints)
    weight_key = []
    for fname in sorted({name for _, name in tab["interMethods"]}):
        keys = []
        for node in ast.walk(find_func(mini, fname)):
            if isinstance(node, ast.Subscript) and isinstance(node.value, ast.Name) and node.value.id == "WEIGHTS":
                keys.append(lit(node.slice))
        if len(set(keys)) != 1 or not isinstance(keys[0], str):
            raise TranslatorError("%s does not use exactly one literal WEIGHTS[...] entry" % fname)
        weight_key.append((fname, keys[0]))
    tab["penaltyWeightKey"] = weight_key

    vsb = src("virtual_site_builder.py")
    try:
        table = module_assign(vsb, "VIRTUAL_SITES")
    except TranslatorError:
        table = None
    if isinstance(table, ast.Dict) and all(isinstance(v, ast.Name) for v in table.values):
        pairs = [(lit(key), val.id) for key, val in zip(table.keys, table.values)]
    else:
        live = _live_dict("virtual_site_builder", "VIRTUAL_SITES")
        if not all(callable(v) and hasattr(v, "__name__") for v in live.values()):
            raise TranslatorError("virtual_site_builder.VIRTUAL_SITES is not a dict of functions")
        # source order of the literal was sorted by section then function type in the original; a table built
        # from smaller tables may come in another insertion order: it is only used for lookup, so sort it
        pairs = sorted(((k, v.__name__) for k, v in live.items()), key=lambda kv: kv[0])
    entries = []
    for k, name in pairs:
        if not (isinstance(k, tuple) and len(k) == 2 and all(isinstance(x, str) for x in k)):
            raise TranslatorError("VIRTUAL_SITES key is not a (str, str) tuple")
        entries.append((k, name))
    tab["vsTable"] = entries
    # construct_vs must look the constructor up by (vs_type, parameters[0])
    cvs = find_func(vsb, "construct_vs")
    if not any(isinstance(n, ast.Subscript) and isinstance(n.value, ast.Name) and n.value.id == "VIRTUAL_SITES"
               for n in ast.walk(cvs)):
        raise TranslatorError("construct_vs no longer indexes VIRTUAL_SITES")

    gen = src("generate_templates.py")
    tab["volThreshold"] = _num(_default_node(find_func(gen, "compute_volume"), "treshold"), "treshold")
    coords = src("gen_coords.py")
    max_opt = None
    for node in ast.walk(coords):
        if isinstance(node, ast.Call) and isinstance(node.func, ast.Name) and node.func.id == "GenerateTemplates":
            for kw in node.keywords:
                if kw.arg == "max_opt":
                    max_opt = lit(kw.value)
    if not isinstance(max_opt, int):
        raise TranslatorError("anchor not found: GenerateTemplates(max_opt=<int>) in gen_coords")
    tab["maxOpt"] = max_opt
    return tab


def _rat(frac):
    return "((%d : Rat) / %d)" % (frac.numerator, frac.denominator)


def emit(tab):
    lines = ["namespace PolyplyVerif.TemplateTables", ""]

    def rat_dict(name, entries, doc):
        lines.append("/-- %s -/" % doc)
        lines.append("def %s : List (String × Rat) :=" % name)
        lines.append("  [" + ", ".join("(%s, %s)" % (lstr(k), _rat(v)) for k, v in entries) + "]")
        lines.append("")

    rat_dict("weights", tab["weights"], "minimizer.WEIGHTS")
    rat_dict("tolerance", tab["tolerance"], "default `tolerance` of minimizer.optimize_geometry")
    lines.append("/-- minimizer.INTER_METHODS: interaction type -> penalty function -/")
    lines.append("def interMethods : List (String × String) :=")
    lines.append("  [" + ", ".join("(%s, %s)" % (lstr(k), lstr(v)) for k, v in tab["interMethods"]) + "]")
    lines.append("")
    lines.append("/-- the WEIGHTS entry each penalty function multiplies with -/")
    lines.append("def penaltyWeightKey : List (String × String) :=")
    lines.append("  [" + ", ".join("(%s, %s)" % (lstr(k), lstr(v)) for k, v in tab["penaltyWeightKey"]) + "]")
    lines.append("")
    lines.append("/-- virtual_site_builder.VIRTUAL_SITES: (section, function type) -> constructor function -/")
    lines.append("def vsTable : List ((String × String) × String) :=")
    lines.append("  [" + ", ".join("((%s, %s), %s)" % (lstr(k[0]), lstr(k[1]), lstr(v)) for k, v in tab["vsTable"]) + "]")
    lines.append("")
    lines.append("/-- default `treshold` of generate_templates.compute_volume -/")
    lines.append("def volThreshold : Rat := %s" % _rat(tab["volThreshold"]))
    lines.append("")
    lines.append("/-- `max_opt` handed to GenerateTemplates by gen_coords -/")
    lines.append("def maxOpt : Nat := %d" % tab["maxOpt"])
    lines.append("")
    lines.append("end PolyplyVerif.TemplateTables")
    return "\n".join(lines) + "\n"


def validate_live(tab):
    problems = []
    from polyply.src import minimizer, virtual_site_builder
    if dict((k, Fraction(repr(v))) for k, v in minimizer.WEIGHTS.items()) != dict(tab["weights"]):
        problems.append("minimizer.WEIGHTS differs between ast and live module")
    if dict((k, v.__name__.lstrip("_")) for k, v in minimizer.INTER_METHODS.items()) != \
            dict((k, v.lstrip("_")) for k, v in tab["interMethods"]):
        problems.append("minimizer.INTER_METHODS differs between ast and live module")
    live = [(k, v.__name__) for k, v in virtual_site_builder.VIRTUAL_SITES.items()]
    if dict(live) != dict(tab["vsTable"]):   # a lookup table: order is irrelevant
        problems.append("virtual_site_builder.VIRTUAL_SITES differs between ast and live module")
    import inspect
    tol = inspect.signature(minimizer.optimize_geometry).parameters["tolerance"].default
    if [(k, Fraction(repr(v))) for k, v in tol.items()] != tab["tolerance"]:
        problems.append("default tolerance of optimize_geometry differs between ast and live module")
    return problems
