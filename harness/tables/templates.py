"""Tables of C15 (templates and residue sizes), parsed from the current sources with `ast` only:

* `minimizer.WEIGHTS` and the default `tolerance` of `minimizer.optimize_geometry`,
* `minimizer.INTER_METHODS` (interaction type -> name of the penalty function),
* `virtual_site_builder.VIRTUAL_SITES` ((section, function type) -> name of the constructor function),
* the default `treshold` of `generate_templates.compute_volume`,
* `max_opt` passed to `GenerateTemplates` by `gen_coords`,
* (block extraction) the literal interaction-type list looped over by `find_interaction_involving` and the one
  `extract_block` makes edges from, the two type tests of `find_interaction_involving`
  (`inter_type in ["bonds", "constraints"]` -> not a virtual site, `inter_type.split("_")[0] == "virtual"` ->
  virtual site) evaluated on every entry of the looped list, the improper function string `"2"` of
  `_good_impropers` and of `minimizer.compute_improper_dih`, the `vs_types` list of `minimizer.renew_vs`, the
  default `max_count` of `_expand_inital_coords`.  A list that is no longer a literal but a (module level or
  imported) name is read from the live module.
"""
import ast
from fractions import Fraction

from gen_tables import src, module_assign, find_func, lit, lstr, TranslatorError, live_module

LEAN_FILE = "TemplateTables.lean"


def _num(node, what):
    val = lit(node)
    if isinstance(val, bool) or not isinstance(val, (int, float)):
        raise TranslatorError("%s is not a number literal" % what)
    return Fraction(repr(val))


def _live_dict(module, name):
    """fallback when a module-level table is no longer a dict literal (e.g. built by a comprehension from
    smaller tables): the attribute of the live module"""
    try:
        val = getattr(live_module(module), name)
    except Exception as err:  # pylint: disable=broad-except
        raise TranslatorError("%s.%s is neither a dict literal nor a live attribute: %s" % (module, name, err))
    if not isinstance(val, dict):
        raise TranslatorError("%s.%s is not a dict" % (module, name))
    return val


def _live_num(val, what):
    if isinstance(val, bool) or not isinstance(val, (int, float)):
        raise TranslatorError("%s is not a number" % what)
    return Fraction(repr(val))


def _default_node(func, name):
    args = func.args
    pos = args.args
    off = len(pos) - len(args.defaults)
    for i, arg in enumerate(pos):
        if arg.arg == name and i >= off:
            return args.defaults[i - off]
    for arg, dflt in zip(args.kwonlyargs, args.kw_defaults):
        if arg.arg == name and dflt is not None:
            return dflt
    raise TranslatorError("anchor not found: default of %s in %s" % (name, func.name))


def extract():
    tab = {}
    mini = src("minimizer.py")
    weights = module_assign(mini, "WEIGHTS")
    if isinstance(weights, ast.Dict):
        tab["weights"] = [(lit(k), _num(v, "WEIGHTS value")) for k, v in zip(weights.keys, weights.values)]
    else:
        tab["weights"] = [(k, _live_num(v, "WEIGHTS value")) for k, v in _live_dict("minimizer", "WEIGHTS").items()]
    tol = _default_node(find_func(mini, "optimize_geometry"), "tolerance")
    if not isinstance(tol, ast.Dict):
        raise TranslatorError("default tolerance of optimize_geometry is not a dict literal")
    tab["tolerance"] = [(lit(k), _num(v, "tolerance value")) for k, v in zip(tol.keys, tol.values)]
    methods = module_assign(mini, "INTER_METHODS")
    if isinstance(methods, ast.Dict) and all(isinstance(v, ast.Name) for v in methods.values):
        tab["interMethods"] = [(lit(k), v.id) for k, v in zip(methods.keys, methods.values)]
    else:
        live = _live_dict("minimizer", "INTER_METHODS")
        if not all(callable(v) and hasattr(v, "__name__") for v in live.values()):
            raise TranslatorError("minimizer.INTER_METHODS is not a dict of functions")
        tab["interMethods"] = [(k, v.__name__) for k, v in live.items()]
    # which entry of WEIGHTS each penalty function multiplies with (compute_bond serves bonds AND constraints)
    weight_key = []
    for fname in sorted({name for _, name in tab["interMethods"]}):
        keys = []
        for node in ast.walk(find_func(mini, fname)):
            if isinstance(node, ast.Subscript) and isinstance(node.value, ast.Name) and node.value.id == "WEIGHTS":
                keys.append(lit(node.slice))
        if len(set(keys)) != 1 or not isinstance(keys[0], str):
            raise TranslatorError("%s does not use exactly one literal WEIGHTS[...] entry" % fname)
        weight_key.append((fname, keys[0]))
    tab["penaltyWeightKey"] = weight_key

    vsb = src("virtual_site_builder.py")
    try:
        table = module_assign(vsb, "VIRTUAL_SITES")
    except TranslatorError:
        table = None
    if isinstance(table, ast.Dict) and all(isinstance(v, ast.Name) for v in table.values):
        pairs = [(lit(key), val.id) for key, val in zip(table.keys, table.values)]
    else:
        live = _live_dict("virtual_site_builder", "VIRTUAL_SITES")
        if not all(callable(v) and hasattr(v, "__name__") for v in live.values()):
            raise TranslatorError("virtual_site_builder.VIRTUAL_SITES is not a dict of functions")
        # source order of the literal was sorted by section then function type in the original; a table built
        # from smaller tables may come in another insertion order: it is only used for lookup, so sort it
        pairs = sorted(((k, v.__name__) for k, v in live.items()), key=lambda kv: kv[0])
    entries = []
    for k, name in pairs:
        if not (isinstance(k, tuple) and len(k) == 2 and all(isinstance(x, str) for x in k)):
            raise TranslatorError("VIRTUAL_SITES key is not a (str, str) tuple")
        entries.append((k, name))
    tab["vsTable"] = entries
    # construct_vs must look the constructor up by (vs_type, parameters[0])
    cvs = find_func(vsb, "construct_vs")
    if not any(isinstance(n, ast.Subscript) and isinstance(n.value, ast.Name) and n.value.id == "VIRTUAL_SITES"
               for n in ast.walk(cvs)):
        raise TranslatorError("construct_vs no longer indexes VIRTUAL_SITES")

    gen = src("generate_templates.py")
    tab["volThreshold"] = _num(_default_node(find_func(gen, "compute_volume"), "treshold"), "treshold")
    coords = src("gen_coords.py")
    max_opt = None
    for node in ast.walk(coords):
        if isinstance(node, ast.Call) and isinstance(node.func, ast.Name) and node.func.id == "GenerateTemplates":
            for kw in node.keywords:
                if kw.arg == "max_opt":
                    max_opt = lit(kw.value)
    if not isinstance(max_opt, int):
        raise TranslatorError("anchor not found: GenerateTemplates(max_opt=<int>) in gen_coords")
    tab["maxOpt"] = max_opt
    extract_block_tables(tab)
    return tab


# ----------------------------------------------------------------------------- block extraction anchors

def _str_seq(node, module, what):
    """a list/tuple of strings: the literal, or - for a Name (module constant / imported name) or any other
    expression without free local names - the value in the live module"""
    if isinstance(node, (ast.List, ast.Tuple)):
        val = lit(node)
    else:
        names = {n.id for n in ast.walk(node) if isinstance(n, ast.Name)}
        live = live_module(module)
        if not names or not all(hasattr(live, n) for n in names):
            raise TranslatorError("%s is neither a literal nor built from module-level names" % what)
        try:
            val = eval(compile(ast.Expression(node), "<anchor>", "eval"), dict(vars(live)))  # pylint: disable=eval-used
        except Exception as err:  # pylint: disable=broad-except
            raise TranslatorError("%s cannot be evaluated in the live module: %s" % (what, err))
    if not isinstance(val, (list, tuple)) or not all(isinstance(x, str) for x in val):
        raise TranslatorError("%s is not a sequence of strings" % what)
    return list(val)


def _type_loop(func, what):
    """the first `for <name> in <sequence of strings>` of `func` (source order)"""
    loops = [n for n in ast.walk(func) if isinstance(n, ast.For) and isinstance(n.target, ast.Name)]
    loops.sort(key=lambda n: (n.lineno, n.col_offset))
    return loops


def _mentions(node, name):
    return any(isinstance(n, ast.Name) and n.id == name for n in ast.walk(node))


def _eval_type_test(test, var, value, module):
    """evaluate the conjuncts of `test` that speak about the loop variable `var` only, for var = value.
    Supported: `var in <str sequence>`, `var == "lit"`, `var.split(sep)[i] == "lit"`, `var.startswith("lit")`."""
    conjuncts = test.values if isinstance(test, ast.BoolOp) and isinstance(test.op, ast.And) else [test]
    mine = [c for c in conjuncts if _mentions(c, var)]
    if not mine:
        raise TranslatorError("branch test of find_interaction_involving does not mention the interaction type")
    result = True
    for conj in mine:
        result = result and _eval_atom(conj, var, value, module)
    return result


def _eval_str(node, var, value):
    if isinstance(node, ast.Name) and node.id == var:
        return value
    if isinstance(node, ast.Constant) and isinstance(node.value, str):
        return node.value
    if isinstance(node, ast.Subscript) and isinstance(node.value, ast.Call) and \
            isinstance(node.value.func, ast.Attribute) and node.value.func.attr == "split":
        base = _eval_str(node.value.func.value, var, value)
        args = [lit(a) for a in node.value.args]
        idx = lit(node.slice)
        if not isinstance(idx, int) or not all(isinstance(a, str) for a in args):
            raise TranslatorError("unsupported split(...)[...] in a type test")
        parts = base.split(*args)
        if not -len(parts) <= idx < len(parts):
            return None
        return parts[idx]
    raise TranslatorError("unsupported expression in a type test: %s" % ast.dump(node)[:160])


def _eval_atom(node, var, value, module):
    if isinstance(node, ast.Compare) and len(node.ops) == 1:
        op, right = node.ops[0], node.comparators[0]
        if isinstance(op, (ast.In, ast.NotIn)):
            seq = _str_seq(right, module, "right-hand side of `in`")
            res = _eval_str(node.left, var, value) in seq
            return res if isinstance(op, ast.In) else not res
        if isinstance(op, (ast.Eq, ast.NotEq)):
            res = _eval_str(node.left, var, value) == _eval_str(right, var, value)
            return res if isinstance(op, ast.Eq) else not res
    if isinstance(node, ast.Call) and isinstance(node.func, ast.Attribute) and node.func.attr == "startswith" \
            and len(node.args) == 1:
        return _eval_str(node.func.value, var, value).startswith(_eval_str(node.args[0], var, value))
    raise TranslatorError("unsupported type test: %s" % ast.dump(node)[:160])


def _return_flag(stmts):
    """the constant first element of a `return <flag>, interaction, inter_type` directly in `stmts`"""
    for stmt in stmts:
        if isinstance(stmt, ast.Return) and isinstance(stmt.value, ast.Tuple) and stmt.value.elts and \
                isinstance(stmt.value.elts[0], ast.Constant) and isinstance(stmt.value.elts[0].value, bool):
            return stmt.value.elts[0].value
    return None


def _branch_chain(node, out):
    """the if/elif chain whose bodies return (flag, …): [(test, flag)] in order"""
    flag = _return_flag(node.body)
    if flag is not None:
        out.append((node.test, flag))
    if len(node.orelse) == 1 and isinstance(node.orelse[0], ast.If):
        _branch_chain(node.orelse[0], out)
    return out


def _func_string_test(func, what):
    """the string literal S of a test `<x>.parameters[0] == S` / `params[0] == S` in `func`"""
    found = []
    for node in ast.walk(func):
        if isinstance(node, ast.Compare) and len(node.ops) == 1 and isinstance(node.ops[0], ast.Eq) and \
                isinstance(node.left, ast.Subscript) and isinstance(node.comparators[0], ast.Constant) and \
                isinstance(node.comparators[0].value, str):
            try:
                idx = lit(node.left.slice)
            except TranslatorError:
                continue
            if idx == 0:
                found.append(node.comparators[0].value)
    if len(set(found)) != 1:
        raise TranslatorError("anchor not found: exactly one `parameters[0] == \"<function type>\"` in %s" % what)
    return found[0]


def extract_block_tables(tab):
    gen = src("generate_templates.py")
    module = "generate_templates"
    # find_interaction_involving: the looped type list and the classification by the two tests
    fii = find_func(gen, "find_interaction_involving")
    loops = _type_loop(fii, "find_interaction_involving")
    if not loops:
        raise TranslatorError("anchor not found: `for inter_type in [...]` in find_interaction_involving")
    outer = loops[0]
    var = outer.target.id
    search = _str_seq(outer.iter, module, "type list of find_interaction_involving")
    chain = None
    for node in ast.walk(outer):
        if isinstance(node, ast.If) and _return_flag(node.body) is not None and _mentions(node.test, var):
            chain = _branch_chain(node, [])
            break
    if not chain:
        raise TranslatorError("anchor not found: `if … inter_type …: return <bool>, interaction, inter_type` "
                              "in find_interaction_involving")
    cls = []
    for entry in search:
        for test, flag in chain:
            if _eval_type_test(test, var, entry, module):
                cls.append((entry, flag))
                break
    tab["findSearchTypes"] = search
    tab["findClass"] = cls
    # extract_block: the list edges are made from
    ext = find_func(gen, "extract_block")
    edge_types = None
    for loop in _type_loop(ext, "extract_block"):
        if any(isinstance(n, ast.Attribute) and n.attr == "make_edges_from_interaction_type" for n in ast.walk(loop)):
            edge_types = _str_seq(loop.iter, module, "type list of extract_block")
    if edge_types is None:
        raise TranslatorError("anchor not found: `for inter_type in [...]: block.make_edges_from_interaction_type` "
                              "in extract_block")
    tab["edgeTypes"] = edge_types
    # the improper function type
    tab["improperFunc"] = _func_string_test(find_func(gen, "_good_impropers"), "_good_impropers")
    mini = src("minimizer.py")
    tab["improperFuncMinimizer"] = _func_string_test(find_func(mini, "compute_improper_dih"), "compute_improper_dih")
    # renew_vs: the virtual-site sections in construction order
    renew = find_func(mini, "renew_vs")
    vs_types = None
    for loop in _type_loop(renew, "renew_vs"):
        if any(isinstance(n, ast.Name) and n.id == "construct_vs" for n in ast.walk(loop)):
            it = loop.iter
            if isinstance(it, ast.Name):
                try:
                    it = [n for n in ast.walk(renew) if isinstance(n, ast.Assign) and
                          any(isinstance(t, ast.Name) and t.id == loop.iter.id for t in n.targets)][0].value
                except IndexError:
                    it = loop.iter
            vs_types = _str_seq(it, "minimizer", "vs_types of renew_vs")
            break
    if vs_types is None:
        raise TranslatorError("anchor not found: `for vs_type in …: … construct_vs` in renew_vs")
    tab["renewVsTypes"] = vs_types
    max_count = lit(_default_node(find_func(gen, "_expand_inital_coords"), "max_count"))
    if isinstance(max_count, bool) or not isinstance(max_count, int) or max_count < 0:
        raise TranslatorError("default max_count of _expand_inital_coords is not a natural number")
    tab["expandMaxCount"] = max_count
    return tab


def emit_block_tables(tab, lines):
    def str_list(name, entries, doc):
        lines.append("/-- %s -/" % doc)
        lines.append("def %s : List String :=" % name)
        lines.append("  [" + ", ".join(lstr(e) for e in entries) + "]")
        lines.append("")

    str_list("findSearchTypes", tab["findSearchTypes"],
             "generate_templates.find_interaction_involving: the interaction types searched, in order")
    lines.append("/-- find_interaction_involving: for every searched type the flag returned by the first branch whose type "
                 "test holds (false = bond-like, true = virtual site) -/")
    lines.append("def findClass : List (String × Bool) :=")
    lines.append("  [" + ", ".join("(%s, %s)" % (lstr(k), "true" if v else "false") for k, v in tab["findClass"]) + "]")
    lines.append("")
    str_list("edgeTypes", tab["edgeTypes"], "generate_templates.extract_block: the interaction types edges are made from")
    lines.append("/-- the function type `_good_impropers` tests (`improper.parameters[0] == …`) -/")
    lines.append("def improperFunc : String := %s" % lstr(tab["improperFunc"]))
    lines.append("")
    lines.append("/-- the function type `minimizer.compute_improper_dih` penalises -/")
    lines.append("def improperFuncMinimizer : String := %s" % lstr(tab["improperFuncMinimizer"]))
    lines.append("")
    str_list("renewVsTypes", tab["renewVsTypes"], "minimizer.renew_vs: virtual-site sections in construction order")
    lines.append("/-- default `max_count` of generate_templates._expand_inital_coords -/")
    lines.append("def expandMaxCount : Nat := %d" % tab["expandMaxCount"])
    lines.append("")


def _rat(frac):
    return "((%d : Rat) / %d)" % (frac.numerator, frac.denominator)


def emit(tab):
    lines = ["namespace PolyplyVerif.TemplateTables", ""]

    def rat_dict(name, entries, doc):
        lines.append("/-- %s -/" % doc)
        lines.append("def %s : List (String × Rat) :=" % name)
        lines.append("  [" + ", ".join("(%s, %s)" % (lstr(k), _rat(v)) for k, v in entries) + "]")
        lines.append("")

    rat_dict("weights", tab["weights"], "minimizer.WEIGHTS")
    rat_dict("tolerance", tab["tolerance"], "default `tolerance` of minimizer.optimize_geometry")
    lines.append("/-- minimizer.INTER_METHODS: interaction type -> penalty function -/")
    lines.append("def interMethods : List (String × String) :=")
    lines.append("  [" + ", ".join("(%s, %s)" % (lstr(k), lstr(v)) for k, v in tab["interMethods"]) + "]")
    lines.append("")
    lines.append("/-- the WEIGHTS entry each penalty function multiplies with -/")
    lines.append("def penaltyWeightKey : List (String × String) :=")
    lines.append("  [" + ", ".join("(%s, %s)" % (lstr(k), lstr(v)) for k, v in tab["penaltyWeightKey"]) + "]")
    lines.append("")
    lines.append("/-- virtual_site_builder.VIRTUAL_SITES: (section, function type) -> constructor function -/")
    lines.append("def vsTable : List ((String × String) × String) :=")
    lines.append("  [" + ", ".join("((%s, %s), %s)" % (lstr(k[0]), lstr(k[1]), lstr(v)) for k, v in tab["vsTable"]) + "]")
    lines.append("")
    lines.append("/-- default `treshold` of generate_templates.compute_volume -/")
    lines.append("def volThreshold : Rat := %s" % _rat(tab["volThreshold"]))
    lines.append("")
    lines.append("/-- `max_opt` handed to GenerateTemplates by gen_coords -/")
    lines.append("def maxOpt : Nat := %d" % tab["maxOpt"])
    lines.append("")
    emit_block_tables(tab, lines)
    lines.append("end PolyplyVerif.TemplateTables")
    return "\n".join(lines) + "\n"


def validate_live(tab):
    problems = []
    from polyply.src import minimizer, virtual_site_builder
    if dict((k, Fraction(repr(v))) for k, v in minimizer.WEIGHTS.items()) != dict(tab["weights"]):
        problems.append("minimizer.WEIGHTS differs between ast and live module")
    if dict((k, v.__name__.lstrip("_")) for k, v in minimizer.INTER_METHODS.items()) != \
            dict((k, v.lstrip("_")) for k, v in tab["interMethods"]):
        problems.append("minimizer.INTER_METHODS differs between ast and live module")
    live = [(k, v.__name__) for k, v in virtual_site_builder.VIRTUAL_SITES.items()]
    if dict(live) != dict(tab["vsTable"]):   # a lookup table: order is irrelevant
        problems.append("virtual_site_builder.VIRTUAL_SITES differs between ast and live module")
    import inspect
    tol = inspect.signature(minimizer.optimize_geometry).parameters["tolerance"].default
    if [(k, Fraction(repr(v))) for k, v in tol.items()] != tab["tolerance"]:
        problems.append("default tolerance of optimize_geometry differs between ast and live module")
    return problems


# ----------------------------------------------------------------------------- live validation of the block anchors

_validate_live_tables = validate_live


def validate_live(tab):  # pylint: disable=function-redefined
    """the tables above, plus: the classification read from the two type tests of find_interaction_involving is
    what the live function returns on a one-interaction probe block per searched type; a type outside the list is
    not found; the improper function string is the one _good_impropers reacts to; default max_count"""
    problems = _validate_live_tables(tab)
    try:
        import inspect
        import numpy as np
        import vermouth
        from vermouth.molecule import Interaction
        from polyply.src import generate_templates as gt
        from polyply.src import minimizer

        def probe(inter_type):
            block = vermouth.molecule.Block()
            for name in ("A", "B", "C"):
                block.add_node(name, atomname=name, resname="X")
            block.interactions[inter_type] = [Interaction(atoms=("A", "B", "C"), parameters=["1"], meta={})]
            try:
                flag, _, found = gt.find_interaction_involving(block, "A", "B")
                return (bool(flag), found)
            except Exception:  # pylint: disable=broad-except
                return None
        cls = dict(tab["findClass"])
        for inter_type in tab["findSearchTypes"]:
            want = (cls[inter_type], inter_type) if inter_type in cls else None
            if probe(inter_type) != want:
                problems.append("find_interaction_involving: live result for %s differs from the translated tests" % inter_type)
        for inter_type in ("angles", "dihedrals", "virtual_sites", "pairs"):
            if inter_type not in tab["findSearchTypes"] and probe(inter_type) is not None:
                problems.append("find_interaction_involving finds %s, which is not in the translated type list" % inter_type)
        # _good_impropers reacts to the translated function string only (wrong-handed quadruple, reference +35)
        coords = {"A": np.array([1.0, 0, 0]), "B": np.array([0.0, 0, 0]), "C": np.array([0, 1.0, 0]),
                  "D": np.array([-0.5, 1.0, 0.5])}
        for func in sorted({"1", "2", "4", "9", tab["improperFunc"]}):
            block = vermouth.molecule.Block()
            for name in coords:
                block.add_node(name, atomname=name, resname="X")
            block.interactions["dihedrals"] = [Interaction(atoms=("A", "B", "C", "D"), parameters=[func, "35", "10"], meta={})]
            both = [bool(gt._good_impropers(coords, block))]  # pylint: disable=protected-access
            block.interactions["dihedrals"] = [Interaction(atoms=("A", "B", "C", "D"), parameters=[func, "-35", "10"], meta={})]
            both.append(bool(gt._good_impropers(coords, block)))  # pylint: disable=protected-access
            reacts = not all(both)
            if reacts != (func == tab["improperFunc"]):
                problems.append("_good_impropers: live reaction to function type %s differs from the translated string" % func)
            pen = minimizer.compute_improper_dih([func, "35", "10"], [coords[k] for k in "ABCD"])
            if (float(pen) != 0.0) != (func == tab["improperFuncMinimizer"]):
                problems.append("compute_improper_dih: live reaction to function type %s differs from the translated string" % func)
        default = inspect.signature(gt._expand_inital_coords).parameters["max_count"].default  # pylint: disable=protected-access
        if default != tab["expandMaxCount"]:
            problems.append("default max_count of _expand_inital_coords differs between ast and live module")
    except Exception as err:  # pylint: disable=broad-except
        problems.append("live validation of the block anchors failed: %s: %s" % (type(err).__name__, err))
    return problems
