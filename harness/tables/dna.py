"""dsDNA anchors (property C19): literals of gen_dna.py that `Model/Dna.lean` writes out besides BASE_LIBRARY (which is
in tables/base.py): the resid step of the descending traversal (`diff == 1`) and the node attributes the code reads.
`ast` only; the whole module is searched (helpers may be extracted); both spellings `diff = a - b; if diff == 1` and
`if a - b == 1` are accepted.  TranslatorError if the literal cannot be located."""
import ast
from gen_tables import src, lean_value, TranslatorError

LEAN_FILE = "DnaTables.lean"


def _int(node):
    if isinstance(node, ast.Constant) and isinstance(node.value, int) and not isinstance(node.value, bool):
        return node.value
    if isinstance(node, ast.UnaryOp) and isinstance(node.op, ast.USub) and isinstance(node.operand, ast.Constant) \
            and isinstance(node.operand.value, int):
        return -node.operand.value
    return None


def extract():
    tree = src("gen_dna.py")
    scope = tree
    for node in ast.walk(tree):
        if isinstance(node, ast.FunctionDef) and node.name == "_dna_edge_iterator":
            scope = node
    diffs = set()       # names bound to a difference of two values
    for node in ast.walk(scope):
        if isinstance(node, ast.Assign) and isinstance(node.value, ast.BinOp) and isinstance(node.value.op, ast.Sub):
            for target in node.targets:
                if isinstance(target, ast.Name):
                    diffs.add(target.id)
    steps = set()
    for node in ast.walk(scope):
        if isinstance(node, ast.Compare) and len(node.ops) == 1 and isinstance(node.ops[0], ast.Eq):
            left, right = node.left, node.comparators[0]
            for a, b in ((left, right), (right, left)):
                is_diff = (isinstance(a, ast.Name) and a.id in diffs) or \
                          (isinstance(a, ast.BinOp) and isinstance(a.op, ast.Sub))
                if is_diff and _int(b) is not None:
                    steps.add(_int(b))
    if len(steps) != 1:
        raise TranslatorError("anchor not found: `src_resid - next_resid == 1` in gen_dna._dna_edge_iterator (found %r)"
                              % sorted(steps))
    attrs = set()
    for node in ast.walk(tree):
        if isinstance(node, ast.Subscript) and isinstance(node.slice, ast.Constant) and isinstance(node.slice.value, str):
            attrs.add(node.slice.value)
        if isinstance(node, ast.Call) and isinstance(node.func, ast.Attribute) and node.func.attr == "get" and node.args \
                and isinstance(node.args[0], ast.Constant) and isinstance(node.args[0].value, str):
            attrs.add(node.args[0].value)
    if not attrs:
        raise TranslatorError("anchor not found: node attributes read by gen_dna.py (`…[\"resid\"]`, `…[\"resname\"]`)")
    step = next(iter(steps))
    if step < 0:
        raise TranslatorError("resid step of _dna_edge_iterator is negative: %d" % step)
    return dict(iteratorStep=step, nodeAttrs=sorted(attrs))


def emit(tab):
    return "\n".join([
        "namespace PolyplyVerif.DnaTables", "",
        "/-- gen_dna._dna_edge_iterator: the walk continues with the neighbour whose resid is this much lower -/",
        "def iteratorStep : Nat := %d" % tab["iteratorStep"], "",
        "/-- gen_dna.py: the node attributes the code reads (sorted) -/",
        "def nodeAttrs : List String := %s" % lean_value(list(tab["nodeAttrs"])), "",
        "end PolyplyVerif.DnaTables"]) + "\n"
