"""C09: the literals of `polyply/src/topology.py` that the model of `Topology.preprocess` depends on.  Parsed from
the CURRENT source with `ast` only; every anchor is looked up by SHAPE (not by position / variable name), so the
recorded behaviour-preserving rewrites (list hoisted into a local tuple or a module-level frozenset, OPLS test hoisted
into a local, `len(..) == 1` turned into a `!= 1: continue` guard, lookup moved into a helper method) keep the tie.

  the list of sections without bonded types (`inter_type in [...]`)        -> Tables.C09Preprocess.untyped
  the macro names tested with `in self.defines` (OPLS bond-type route)     -> Tables.C09Preprocess.oplsDefines
  the string on the right of `inter_type in "dihedrals"` (SUBSTRING test)  -> Tables.C09Preprocess.dihedralHaystack
  the value `defaults["gen-pairs"]` is compared with                       -> Tables.C09Preprocess.genPairsYes
  the number `len(interaction.parameters)` is compared with                -> Tables.C09Preprocess.paramlessLen
  the number `defaults['comb-rule']` is compared with in preprocess        -> Tables.C09Preprocess.convertCombRule
"""
import ast
from gen_tables import src, find_func, lstr, TranslatorError

LEAN_FILE = "C09Preprocess.lean"

UNTYPED_PROBE = "pairs"       # a member every version of the list has (it is how the list is recognised)


def _str_const(node):
    return isinstance(node, ast.Constant) and isinstance(node.value, str)


def _string_collections(tree):
    """every list / tuple / set display in the module whose elements are all string constants"""
    out = []
    for node in ast.walk(tree):
        if isinstance(node, (ast.List, ast.Tuple, ast.Set)) and node.elts and all(_str_const(e) for e in node.elts):
            out.append([e.value for e in node.elts])
    return out


def _untyped(tree):
    cands = [c for c in _string_collections(tree) if UNTYPED_PROBE in c and "exclusions" in c]
    distinct = []
    for cand in cands:
        if sorted(cand) not in [sorted(d) for d in distinct]:
            distinct.append(cand)
    if len(distinct) != 1:
        raise TranslatorError("anchor not found: the list of type-less interaction sections in topology.py "
                              "(%d candidate string collections containing 'pairs' and 'exclusions')" % len(distinct))
    if len(set(distinct[0])) != len(distinct[0]):
        raise TranslatorError("the list of type-less sections has duplicates")
    return distinct[0]


def _compares(tree):
    return [n for n in ast.walk(tree) if isinstance(n, ast.Compare) and len(n.ops) == 1 and len(n.comparators) == 1]


def _is_attr(node, attr):
    return isinstance(node, ast.Attribute) and node.attr == attr


def _opls_defines(cls):
    out = []
    for cmp_ in _compares(cls):
        if isinstance(cmp_.ops[0], ast.In) and _str_const(cmp_.left) and _is_attr(cmp_.comparators[0], "defines"):
            if cmp_.left.value not in out:
                out.append(cmp_.left.value)
    if not out:
        raise TranslatorError("anchor not found: `\"<macro>\" in self.defines` in class Topology")
    return out


def _dihedral_haystack(cls):
    found = []
    for cmp_ in _compares(cls):
        if isinstance(cmp_.ops[0], ast.In) and isinstance(cmp_.left, ast.Name) and _str_const(cmp_.comparators[0]):
            found.append(("in", cmp_.comparators[0].value))
        elif isinstance(cmp_.ops[0], ast.Eq) and isinstance(cmp_.left, ast.Name) and _str_const(cmp_.comparators[0]) \
                and "dihedral" in cmp_.comparators[0].value:
            found.append(("eq", cmp_.comparators[0].value))
    distinct = sorted(set(found))
    if len(distinct) != 1:
        raise TranslatorError("anchor not found: the test that sends an interaction type to the wildcard search "
                              "(`inter_type in \"dihedrals\"`): %d candidates" % len(distinct))
    if distinct[0][0] != "in":
        raise TranslatorError("the dihedral test is no longer a substring test (`==`): the model's `dihLike` must "
                              "be changed with it")
    return distinct[0][1]


def _subscript_key(node):
    """the constant key of `x[<key>]`, else None"""
    if isinstance(node, ast.Subscript):
        key = node.slice
        if isinstance(key, ast.Constant):
            return key.value
    return None


def _compared_with_key(cls, key, want_type):
    found = []
    for cmp_ in _compares(cls):
        if not isinstance(cmp_.ops[0], ast.Eq):
            continue
        for lhs, rhs in ((cmp_.left, cmp_.comparators[0]), (cmp_.comparators[0], cmp_.left)):
            if _subscript_key(lhs) == key and isinstance(rhs, ast.Constant) and isinstance(rhs.value, want_type) \
                    and not isinstance(rhs.value, bool):
                found.append(rhs.value)
    if len(set(found)) != 1:
        raise TranslatorError("anchor not found: `defaults[%r] == <constant>` in class Topology (%d candidates)"
                              % (key, len(set(found))))
    return found[0]


def _paramless_len(cls):
    found = []
    for cmp_ in _compares(cls):
        if not isinstance(cmp_.ops[0], (ast.Eq, ast.NotEq)):
            continue
        lhs, rhs = cmp_.left, cmp_.comparators[0]
        if isinstance(lhs, ast.Call) and isinstance(lhs.func, ast.Name) and lhs.func.id == "len" and len(lhs.args) == 1 \
                and _is_attr(lhs.args[0], "parameters") and isinstance(rhs, ast.Constant) and type(rhs.value) is int:
            found.append(rhs.value)
    if len(set(found)) != 1 or found[0] < 0:
        raise TranslatorError("anchor not found: `len(interaction.parameters) ==/!= <int>` in class Topology "
                              "(%d candidates)" % len(set(found)))
    return found[0]


def _topology_class(tree):
    for node in ast.walk(tree):
        if isinstance(node, ast.ClassDef) and node.name == "Topology":
            return node
    raise TranslatorError("anchor not found: class Topology")


def extract():
    tree = src("topology.py")
    cls = _topology_class(tree)
    tab = {}
    tab["untyped"] = _untyped(tree)
    tab["oplsDefines"] = _opls_defines(cls)
    tab["dihedralHaystack"] = _dihedral_haystack(cls)
    tab["genPairsYes"] = _compared_with_key(cls, "gen-pairs", str)
    tab["paramlessLen"] = _paramless_len(cls)
    rule = _compared_with_key(find_func(tree, "preprocess", cls="Topology"), "comb-rule", (int, float))
    if float(rule) != int(rule) or rule < 0:
        raise TranslatorError("the comb-rule that triggers the sigma/epsilon conversion is not a natural number")
    tab["convertCombRule"] = int(rule)
    return tab


def emit(tab):
    lines = ["namespace PolyplyVerif.Tables.C09Preprocess", ""]
    lines.append("/-- sections `gen_bonded_interactions` skips (\"these interactions have no types associated\") -/")
    lines.append("def untyped : List String :=")
    lines.append("  [" + ", ".join(lstr(s) for s in tab["untyped"]) + "]")
    lines.append("")
    lines.append("/-- macro names whose presence in `self.defines` selects the OPLS bond-type route -/")
    lines.append("def oplsDefines : List String :=")
    lines.append("  [" + ", ".join(lstr(s) for s in tab["oplsDefines"]) + "]")
    lines.append("")
    lines.append("/-- right operand of `inter_type in \"...\"`: a SUBSTRING test on the section name -/")
    lines.append("def dihedralHaystack : String := " + lstr(tab["dihedralHaystack"]))
    lines.append("")
    lines.append("/-- `self.defaults[\"gen-pairs\"] == ...` -/")
    lines.append("def genPairsYes : String := " + lstr(tab["genPairsYes"]))
    lines.append("")
    lines.append("/-- an interaction is \"written without parameters\" when `len(interaction.parameters)` is this "
                 "(the function type alone) -/")
    lines.append("def paramlessLen : Nat := %d" % tab["paramlessLen"])
    lines.append("")
    lines.append("/-- `if self.defaults['comb-rule'] == ...: self.convert_nonbond_to_sig_eps()` -/")
    lines.append("def convertCombRule : Nat := %d" % tab["convertCombRule"])
    lines.append("")
    lines.append("end PolyplyVerif.Tables.C09Preprocess")
    return "\n".join(lines) + "\n"


def _probe_topology(section, nparams, defines=(), bond_type="BT"):
    """a one-molecule topology with one interaction of `nparams` parameter tokens in `section` and NO type tables"""
    import vermouth.forcefield
    from vermouth.molecule import Block, Interaction
    from polyply.src.topology import Topology
    top = Topology(vermouth.forcefield.ForceField("probe"), name="probe")
    top.defaults = {"nbfunc": 1.0, "comb-rule": 2.0, "gen-pairs": "no"}
    for name in defines:
        top.defines[name] = True
    top.atom_types["A"] = {"nb1": 1.0, "nb2": 1.0, "bond_type": bond_type}
    block = Block(force_field=top.force_field)
    block.name = "M"
    for idx in range(4):
        block.add_node(idx, atype="A", atomname="a%d" % idx, resname="R", resid=1, charge_group=idx)
    block.interactions[section] = [Interaction(atoms=(0, 1, 2, 3), parameters=["1"] * nparams, meta={})]
    top.force_field.blocks["M"] = block
    return top


def validate_live(tab):
    """behavioural probes of the live `gen_bonded_interactions` / `gen_pairs` / `preprocess` (the literals are
    function locals, there is no live object to compare with)"""
    problems = []

    def resolves(section, nparams, defines=(), types=None, bond_type="BT"):
        top = _probe_topology(section, nparams, defines, bond_type)
        for key, val in (types or {}).items():
            top.types[section][key] = val
        try:
            top.gen_bonded_interactions()
            return True
        except OSError:
            return False
    try:
        for section in tab["untyped"]:
            if not resolves(section, tab["paramlessLen"]):
                problems.append("section %r is in the translated type-less list but the live code looks for a type" % section)
        if resolves("bonds", tab["paramlessLen"]):
            problems.append("live gen_bonded_interactions does not look for a type of a parameterless 'bonds' interaction")
        for other in (0, tab["paramlessLen"] + 1):
            if not resolves("bonds", other):
                problems.append("live code looks for a type of an interaction with %d parameter tokens" % other)
        # the wildcard search is reached exactly for substrings of the haystack
        wild = {("X", "X", "X", "X"): [(["9", "0", "1", "1"], None)]}
        hay = tab["dihedralHaystack"]
        if not resolves(hay, tab["paramlessLen"], types=wild):
            problems.append("live code does not use the wildcard search for section %r" % hay)
        if len(hay) > 2 and not resolves(hay[1:-1], tab["paramlessLen"], types=wild):
            problems.append("live code does not treat the section name %r (a substring of %r) like dihedrals" % (hay[1:-1], hay))
        if resolves("angles", tab["paramlessLen"], types=wild):
            problems.append("live code uses the wildcard search for 'angles'")
        # OPLS: with the macro the BOND type is the key
        bt_types = {("BT", "BT", "BT", "BT"): [(["1", "2"], None)]}
        for name in tab["oplsDefines"]:
            if not resolves("bonds", tab["paramlessLen"], defines=[name], types=bt_types):
                problems.append("macro %r does not select the bond-type route in the live code" % name)
        if resolves("bonds", tab["paramlessLen"], defines=["_FF_SOMETHING_ELSE"], types=bt_types):
            problems.append("an unrelated macro selects the bond-type route in the live code")
        # gen-pairs / conversion gate
        for value, expect in ((tab["genPairsYes"], True), (tab["genPairsYes"] + "_", False)):
            top = _probe_topology("exclusions", 0)
            top.atom_types["B"] = {"nb1": 1.0, "nb2": 1.0, "bond_type": "BT"}
            top.defaults["gen-pairs"] = value
            top.gen_pairs()
            if (frozenset(["A", "B"]) in top.nonbond_params) != expect:
                problems.append("gen-pairs = %r: cross terms %sgenerated by the live code" % (value, "not " if expect else ""))
        for rule in (1, 2, 3):
            top = _probe_topology("exclusions", 0)
            top.defaults["comb-rule"] = float(rule)
            top.atom_types["A"] = {"nb1": 1.0, "nb2": 64.0, "bond_type": "BT"}
            top.preprocess()
            after = top.nonbond_params[frozenset(["A"])]
            converted = (after["nb1"], after["nb2"]) != (1.0, 64.0)
            if converted != (rule == tab["convertCombRule"]):
                problems.append("comb-rule %d: live preprocess %s the table" % (rule, "converts" if converted else "does not convert"))
    except Exception as err:  # pylint: disable=broad-except
        problems.append("live probe of topology.py failed: %s: %s" % (type(err).__name__, err))
    return problems
