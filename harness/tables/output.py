"""C20 tables: the sequence of calls made by the three programs `gen_itp.gen_params`,
`gen_coords.gen_coords`, `gen_seq.gen_seq`, read from the CURRENT sources with `ast`.

For every program the function body is walked in source order (statements in order, nested `if` / `for` /
`with` / `try` bodies in place, arguments before the call they belong to).  Every call becomes one row

    (depth, name, benign, aliases)

* `name`  — dotted callee with call parentheses dropped: `MapToMolecule(ff).run_molecule(m)` is
  `MapToMolecule.run_molecule`, `DeferredFileWriter().write()` is `DeferredFileWriter.write`; a local variable
  that was bound to `X(...)` / `X.classmethod(...)` (X a capitalised module-level name) is replaced by `X`
  (`topology.preprocess()` -> `Topology.preprocess`); any other local variable is `?` (`?.split_residue`);
* `depth` — 0 for the program's own body; a call of a function DEFINED IN THE SAME MODULE is followed by the
  rows of that function's body at depth + 1 (so that splitting a program into private helpers leaves the
  flattened sequence as it was); such a call is itself marked benign (transparent: its body carries the stages);
* `aliases` — the name and its dotted suffixes (so that the Lean side compares with string equality only);
* `benign` — calls that are not stages: python builtins other than `open`, methods of literals, logging
  (`LOGGER.*`), and container / string housekeeping methods (`append`, `items`, `format`, `split`, ...).

Generated/OutputTables.lean holds the three tables; `Properties/C20.lean` proves by `decide` that the model's
stage lists are ordered like the source and that nothing but benign calls follows the flush
(`DeferredFileWriter.write`) resp. `json.dump`.  `harness/c20.py` uses the same tables (through `extract()`) to
put a crash point on every non-benign call the model's stage list does not name.
"""
import ast
import builtins

from gen_tables import src, find_func, TranslatorError, lean_value

LEAN_FILE = "OutputTables.lean"

PROGRAMS = (("genParams", "gen_itp.py", "gen_params"), ("genCoords", "gen_coords.py", "gen_coords"),
            ("genSeq", "gen_seq.py", "gen_seq"))

# housekeeping methods of containers / strings / paths: never a stage
BENIGN_METHODS = {"append", "extend", "items", "keys", "values", "get", "format", "split", "join", "update",
                  "strip", "casefold", "lower", "upper", "copy", "add", "setdefault", "startswith", "endswith",
                  "pop", "index", "count", "sort", "reverse", "insert", "replace"}
BENIGN_BUILTINS = set(dir(builtins)) - {"open", "exec", "eval", "compile", "__import__", "input"}
MAX_DEPTH = 3


def _module_functions(tree):
    return {node.name: node for node in tree.body if isinstance(node, ast.FunctionDef)}


class _Walker:
    """collects the rows of one function body"""

    def __init__(self, functions, rows, depth, stack):
        self.functions = functions
        self.rows = rows
        self.depth = depth
        self.stack = stack
        self.types = {}          # local variable -> capitalised class name
        self.locals = set()

    # ---- names
    def name_of(self, expr):
        if isinstance(expr, ast.Name):
            if expr.id in self.types:
                return self.types[expr.id]
            if expr.id in self.locals:
                return "?"
            return expr.id
        if isinstance(expr, ast.Attribute):
            return self.name_of(expr.value) + "." + expr.attr
        if isinstance(expr, ast.Call):
            inner = self.name_of(expr.func)
            # X(...) is an instance of X; the result of any other call is unknown
            return inner if inner[:1].isupper() and "." not in inner else "?"
        if isinstance(expr, ast.Constant):
            return "<const>"
        if isinstance(expr, ast.Subscript):
            return "?"
        return "?"

    @staticmethod
    def benign(name):
        parts = name.split(".")
        if parts[0] == "<const>":
            return True
        if len(parts) == 1:
            return parts[0] in BENIGN_BUILTINS
        if parts[0] == "LOGGER":
            return True
        return parts[-1] in BENIGN_METHODS

    # ---- expressions
    def expr(self, node):
        if node is None:
            return
        if isinstance(node, ast.Call):
            self.expr(node.func.value if isinstance(node.func, ast.Attribute) else None)
            for arg in node.args:
                self.expr(arg.value if isinstance(arg, ast.Starred) else arg)
            for kw in node.keywords:
                self.expr(kw.value)
            name = self.name_of(node.func)
            expand = isinstance(node.func, ast.Name) and node.func.id in self.functions \
                and node.func.id not in self.locals \
                and node.func.id not in self.stack and self.depth < MAX_DEPTH
            # a helper of the same module whose body follows is transparent: what can fail are its own calls
            self.rows.append((self.depth, name, True if expand else self.benign(name)))
            if expand:
                callee = self.functions[node.func.id]
                sub = _Walker(self.functions, self.rows, self.depth + 1, self.stack + [node.func.id])
                sub.locals |= {a.arg for a in callee.args.args + callee.args.kwonlyargs}
                sub.body(callee.body)
            return
        if isinstance(node, (ast.Lambda, ast.FunctionDef, ast.ClassDef)):
            return
        if isinstance(node, (ast.ListComp, ast.SetComp, ast.GeneratorExp, ast.DictComp)):
            for gen in node.generators:
                self.expr(gen.iter)
                self.bind(gen.target)
                for cond in gen.ifs:
                    self.expr(cond)
            if isinstance(node, ast.DictComp):
                self.expr(node.key)
                self.expr(node.value)
            else:
                self.expr(node.elt)
            return
        for child in ast.iter_child_nodes(node):
            if isinstance(child, ast.expr):
                self.expr(child)
            elif isinstance(child, (ast.keyword,)):
                self.expr(child.value)

    def bind(self, target, value=None):
        for node in ast.walk(target):
            if isinstance(node, ast.Name):
                self.locals.add(node.id)
        if isinstance(target, ast.Name) and target.id not in self.types and isinstance(value, ast.Call):
            callee = self.name_of(value.func)
            head = callee.split(".")[0]
            if head[:1].isupper() and head != "?" and len(callee.split(".")) <= 2:
                self.types[target.id] = head

    # ---- statements
    def body(self, stmts):
        for stmt in stmts:
            self.stmt(stmt)

    def stmt(self, node):
        if isinstance(node, (ast.FunctionDef, ast.ClassDef, ast.Import, ast.ImportFrom, ast.Pass)):
            return
        if isinstance(node, ast.Assign):
            self.expr(node.value)
            for target in node.targets:
                self.bind(target, node.value)
        elif isinstance(node, (ast.AugAssign, ast.AnnAssign)):
            self.expr(node.value)
            self.bind(node.target)
        elif isinstance(node, (ast.Expr, ast.Return)):
            self.expr(node.value)
        elif isinstance(node, ast.If):
            self.expr(node.test)
            self.body(node.body)
            self.body(node.orelse)
        elif isinstance(node, (ast.For, ast.AsyncFor)):
            self.expr(node.iter)
            self.bind(node.target)
            self.body(node.body)
            self.body(node.orelse)
        elif isinstance(node, ast.While):
            self.expr(node.test)
            self.body(node.body)
            self.body(node.orelse)
        elif isinstance(node, (ast.With, ast.AsyncWith)):
            for item in node.items:
                self.expr(item.context_expr)
                if item.optional_vars is not None:
                    self.bind(item.optional_vars)
            self.body(node.body)
        elif isinstance(node, ast.Try):
            self.body(node.body)
            for handler in node.handlers:
                self.body(handler.body)
            self.body(node.orelse)
            self.body(node.finalbody)
        elif isinstance(node, ast.Raise):
            self.expr(node.exc)
        else:
            for child in ast.iter_child_nodes(node):
                if isinstance(child, ast.expr):
                    self.expr(child)
                elif isinstance(child, ast.stmt):
                    self.stmt(child)


def call_rows(rel, fname):
    tree = src(rel)
    functions = _module_functions(tree)
    if fname not in functions:
        raise TranslatorError("anchor not found: function %s in %s" % (fname, rel))
    func = functions[fname]
    rows = []
    walker = _Walker(functions, rows, 0, [fname])
    walker.locals |= {a.arg for a in func.args.args + func.args.kwonlyargs}
    walker.body(func.body)
    if not rows:
        raise TranslatorError("%s.%s makes no call" % (rel, fname))
    return rows


def extract():
    tab = {}
    for key, rel, fname in PROGRAMS:
        tab[key] = [list(r) for r in call_rows(rel, fname)]
    # the anchors the theorems look for must be there (never guess): the flush of the two deferred programs,
    # builtin open + json.dump in gen_seq
    for key, needle in (("genParams", "DeferredFileWriter.write"), ("genCoords", "DeferredFileWriter.write"),
                        ("genSeq", "json.dump"), ("genSeq", "open")):
        if not any(name == needle or name.endswith("." + needle) for _, name, _ in tab[key]):
            raise TranslatorError("anchor not found: a call of %s in %s" % (needle, key))
    return tab


def aliases(name):
    """the callee and its dotted suffixes; a callee with an unknown receiver (`?.m`) only as itself"""
    parts = name.split(".")
    if parts[0] in ("?", "<const>"):
        return [name]
    return [".".join(parts[i:]) for i in range(len(parts))]


def emit(tab):
    lines = ["namespace PolyplyVerif.OutputTables", "",
             "/-! call sequences of the three programs in source order: (depth, callee, benign, aliases) -/", ""]
    docs = dict(genParams="gen_itp.gen_params", genCoords="gen_coords.gen_coords", genSeq="gen_seq.gen_seq")
    for key, _, _ in PROGRAMS:
        lines.append("/-- `%s` -/" % docs[key])
        lines.append("def %sCalls : List (Nat × String × Bool × List String) :=" % key)
        rows = [(int(d), str(n), bool(b), aliases(str(n))) for d, n, b in tab[key]]
        lines.append("  [" + ",\n   ".join(lean_value(r) for r in rows) + "]")
        lines.append("")
    lines.append("end PolyplyVerif.OutputTables")
    return "\n".join(lines) + "\n"


def validate_live(tab):
    """every depth-0, non-benign callee whose head is a module-level name must resolve in the live module"""
    import importlib
    problems = []
    for key, rel, fname in PROGRAMS:
        mod = importlib.import_module("polyply.src." + rel[:-3])
        if not callable(getattr(mod, fname, None)):
            problems.append("%s.%s is not a live function" % (rel, fname))
            continue
        for depth, name, benign in tab[key]:
            head = name.split(".")[0]
            if benign or head in ("?", "<const>"):
                continue
            if not hasattr(mod, head) and not hasattr(builtins, head):
                problems.append("%s: callee %s of the ast does not resolve in the live module" % (key, name))
    return problems
