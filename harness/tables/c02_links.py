"""Translator provider for C02: literals of the link machinery that the Lean model (Model/Links.lean) would
otherwise repeat by hand.

  apply_links.match_link_and_residue_atoms   ignore = ['order', 'charge_group', 'replace', 'resid']
                                             (attributes of a link atom that are NOT compared with the residue atom)
  apply_links.ApplyLinks._update_interactions_dict
                                             new_interaction.meta.get("version", 1)   (default version of the
                                             `applied_links` key: same atoms + same version = same interaction)
  ff_parser_sub._parse_edges_new             for key in ["atomname", "order", "resname"]: attributes.pop(key, None)
                                             (what is left of the second atom's attributes labels the edge)

Parsed with `ast` from the current /repo sources; written to Generated/LinkTables.lean.  The anchors are the
places where the values are USED (the `ignore=` argument of `find_atoms`, the second argument of
`.get("version", …)`, the iterable of the popping loop); a name there is resolved through the function's own
assignments, the module-level assignments and finally the live module attribute."""
import ast
from gen_tables import src, find_func, local_assign, module_assign, live_module, lit, lean_value, TranslatorError

LEAN_FILE = "LinkTables.lean"


def _str_list(value, what):
    if not isinstance(value, (list, tuple)) or not all(isinstance(v, str) for v in value):
        raise TranslatorError("%s is not a list of string literals: %r" % (what, value))
    return list(value)


def _resolve(tree, func, node, module):
    """value of an expression used inside `func`: a literal, or a name bound by an assignment in the function,
    at module level (ast), or — last — an attribute of the live module (so that moving a literal into a named
    constant does not break the tie)"""
    if isinstance(node, ast.Name):
        for scope in (func, None):
            try:
                bound = local_assign(func, node.id) if scope is not None else module_assign(tree, node.id)
                return _resolve(tree, func, bound, module)
            except TranslatorError:
                continue
        try:
            return getattr(live_module(module), node.id)
        except Exception as err:  # pylint: disable=broad-except
            raise TranslatorError("cannot resolve the name %s used in %s: %s" % (node.id, func.name, err))
    return lit(node)


def extract():
    tab = {}
    links = src("apply_links.py")
    func = find_func(links, "match_link_and_residue_atoms")
    # the ignore list as it is USED: the `ignore=` / `ignore_keys=` keyword of a call inside the function
    # (find_atoms(block, ignore=…) or attributes_match(…, ignore_keys=…)); all uses must agree
    used = [kw.value for node in ast.walk(func) if isinstance(node, ast.Call)
            for kw in node.keywords if kw.arg in ("ignore", "ignore_keys")]
    values = []
    for expr in used:
        value = _str_list(list(_resolve(links, func, expr, "apply_links")), "the ignore list of match_link_and_residue_atoms")
        if value not in values:
            values.append(value)
    if len(values) != 1:
        raise TranslatorError("anchor not found: one `ignore=` / `ignore_keys=` list used in match_link_and_residue_atoms "
                              "(found %d)" % len(values))
    tab["matchIgnore"] = values[0]
    # default version of the applied_links key
    upd = find_func(links, "_update_interactions_dict", cls="ApplyLinks")
    hits = []
    for node in ast.walk(upd):
        if isinstance(node, ast.Call) and isinstance(node.func, ast.Attribute) and node.func.attr == "get" \
                and len(node.args) == 2 and isinstance(node.args[0], ast.Constant) and node.args[0].value == "version":
            hits.append(_resolve(links, upd, node.args[1], "apply_links"))
    if len(hits) != 1 or isinstance(hits[0], bool) or not isinstance(hits[0], int) or hits[0] < 0:
        raise TranslatorError("anchor not found: `.meta.get(\"version\", <n>)` in ApplyLinks._update_interactions_dict")
    tab["versionDefault"] = hits[0]
    # [ edges ]: attribute keys that never label an edge
    parser = src("ff_parser_sub.py")
    edges = find_func(parser, "_parse_edges_new")
    popped = None
    for node in ast.walk(edges):
        if isinstance(node, ast.For) and isinstance(node.target, ast.Name) \
                and any(isinstance(c, ast.Call) and isinstance(c.func, ast.Attribute) and c.func.attr == "pop"
                        for c in ast.walk(node)):
            popped = _str_list(list(_resolve(parser, edges, node.iter, "ff_parser_sub")), "_parse_edges_new popped keys")
    if popped is None:
        raise TranslatorError("anchor not found: `for key in [...]: attributes.pop(key, None)` in _parse_edges_new")
    tab["edgePoppedKeys"] = popped
    return tab


def emit(tab):
    lines = ["namespace PolyplyVerif.LinkTables", ""]
    lines.append("/-- apply_links.match_link_and_residue_atoms: `ignore = [...]` -/")
    lines.append("def matchIgnore : List String := " + lean_value(tab["matchIgnore"]))
    lines.append("")
    lines.append("/-- ApplyLinks._update_interactions_dict: `meta.get(\"version\", n)` -/")
    lines.append("def versionDefault : Nat := %d" % tab["versionDefault"])
    lines.append("")
    lines.append("/-- ff_parser_sub._parse_edges_new: attribute keys popped before the rest labels the edge -/")
    lines.append("def edgePoppedKeys : List String := " + lean_value(tab["edgePoppedKeys"]))
    lines.append("")
    lines.append("end PolyplyVerif.LinkTables")
    return "\n".join(lines) + "\n"
