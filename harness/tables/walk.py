"""Translator provider for C17/C04: keyword defaults of `RandomWalk.__init__` and `gen_coords` that the
placement state machine reads (`nrewind`, `maxiter`), and the retry bound `BuildSystem.maxiter`.
Parsed with `ast` from the current /repo sources; written to Generated/WalkTables.lean."""
from gen_tables import src, find_func, kw_default, TranslatorError

LEAN_FILE = "WalkTables.lean"


def extract():
    tab = {}
    walk = src("random_walk.py")
    init = find_func(walk, "__init__", cls="RandomWalk")
    tab["rwNrewind"] = kw_default(init, "nrewind")
    tab["rwMaxiter"] = kw_default(init, "maxiter")
    build = src("build_system.py")
    binit = find_func(build, "__init__", cls="BuildSystem")
    tab["bsMaxiter"] = kw_default(binit, "maxiter")
    gen = src("gen_coords.py")
    gfun = find_func(gen, "gen_coords")
    tab["gcNrewind"] = kw_default(gfun, "nrewind")
    tab["gcMaxiter"] = kw_default(gfun, "maxiter")
    # the tree-opening threshold of NonBondEngine.add_positions: `start and self.position_trees[-1].n > 5000`
    import ast
    eng = src("nonbond_engine.py")
    addp = find_func(eng, "add_positions", cls="NonBondEngine")
    hits = [node.comparators[0].value for node in ast.walk(addp)
            if isinstance(node, ast.Compare) and len(node.ops) == 1 and isinstance(node.ops[0], ast.Gt)
            and isinstance(node.left, ast.Attribute) and node.left.attr == "n"
            and isinstance(node.comparators[0], ast.Constant)]
    if len(hits) != 1:
        raise TranslatorError("anchor not found: `<tree>.n > <literal>` in NonBondEngine.add_positions")
    tab["engTreeThreshold"] = hits[0]
    for key, val in tab.items():
        if isinstance(val, bool) or not isinstance(val, int) or val < 0:
            raise TranslatorError("%s is not a natural number literal: %r" % (key, val))
    return tab


def emit(tab):
    lines = ["namespace PolyplyVerif.WalkTables", ""]
    docs = dict(rwNrewind="RandomWalk.__init__(nrewind=…)", rwMaxiter="RandomWalk.__init__(maxiter=…)",
                bsMaxiter="BuildSystem.__init__(maxiter=…)", gcNrewind="gen_coords(nrewind=…)",
                gcMaxiter="gen_coords(maxiter=…)",
                engTreeThreshold="NonBondEngine.add_positions: a new position tree is opened above this size")
    for key in ("rwNrewind", "rwMaxiter", "bsMaxiter", "gcNrewind", "gcMaxiter", "engTreeThreshold"):
        lines.append("/-- %s -/" % docs[key])
        lines.append("def %s : Nat := %d" % (key, tab[key]))
        lines.append("")
    lines.append("end PolyplyVerif.WalkTables")
    return "\n".join(lines) + "\n"


def validate_live(tab):
    import inspect
    problems = []
    from polyply.src.random_walk import RandomWalk
    from polyply.src.build_system import BuildSystem
    from polyply.src.gen_coords import gen_coords
    sig = inspect.signature(RandomWalk.__init__).parameters
    if sig["nrewind"].default != tab["rwNrewind"] or sig["maxiter"].default != tab["rwMaxiter"]:
        problems.append("RandomWalk defaults differ between ast and live class")
    if inspect.signature(BuildSystem.__init__).parameters["maxiter"].default != tab["bsMaxiter"]:
        problems.append("BuildSystem.maxiter default differs between ast and live class")
    gsig = inspect.signature(gen_coords).parameters
    if gsig["nrewind"].default != tab["gcNrewind"] or gsig["maxiter"].default != tab["gcMaxiter"]:
        problems.append("gen_coords defaults differ between ast and live function")
    return problems
