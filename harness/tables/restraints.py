"""Comparison operators of the restraint predicates of `polyply/src/random_walk.py` (C07), read from the source.

Every restraint test of the random walk is one ordering comparison between a measured quantity and a declared
length; whether it is strict decides what happens to a point EXACTLY on the boundary.  These operators are
literals of the source, so the translator reads them (with `ast`) and the Lean model takes them from the
generated table `Generated/RestraintTables.lean`:

  key           function                      test in the current source                       ACCEPTED iff
  sphereIn      in_sphere, 'in'               `r > parameters[2]` -> return False                r <= R
  sphereOut     in_sphere, 'out'              `r < parameters[2]` -> return False                r >= R
  cylInRadius   in_cylinder, "in"             `radius < parameters[2]` (conjunct of True)        radius < R
  cylInHeight   in_cylinder, "in"             `np.abs(half_heigth) < parameters[3]`              |dz| < h
  cylOutRadius  in_cylinder, "out"            `radius > parameters[2]` (disjunct of True)        radius > R
  cylOutHeight  in_cylinder, "out"            `half_heigth > np.abs(parameters[3])`              dz > |h|
  rectInside    in_rectangle                  `np.abs(dim) < max_dim` (the per-axis inside test) |d_i| < a_i
  msUpper       RandomWalk.checks_milestones  `current_distance > upper_bound` -> return False   dist <= ub
  msLower       RandomWalk.checks_milestones  `current_distance < lower_bound` -> return False   dist >= lb
  dirAngle      is_restricted                 `angle > np.abs(ref_angle)` -> return False        angle <= |ref|

What is emitted is the NORMALISED relation "accepted iff <quantity> <rel> <length>" (one of lt, le, gt, ge), so
equivalent ways of writing the same test (`if r > R: return False`, `return not r > R`, `return r <= R`,
`R < r` instead of `r > R`, all()/any() forms) give the same table.  The reader follows a small fixed set of shapes
(if-test with a constant boolean return, returned boolean expression, `not`, and/or, bool()/all()/any()
over a generator, a named or list-valued intermediate).  If the source leaves these shapes, the reader does NOT
guess: it falls back to probing the live function on exact boundary points (below / on / above the boundary,
dyadic numbers), which determines the relation uniquely; if that is ambiguous as well, TranslatorError.
`validate_live` always probes the live functions and compares with the table that was emitted.
"""
import ast
import os

from gen_tables import REPO, find_func, TranslatorError

LEAN_FILE = "RestraintTables.lean"

KEYS = ["sphereIn", "sphereOut", "cylInRadius", "cylInHeight", "cylOutRadius", "cylOutHeight", "rectInside",
        "msUpper", "msLower", "dirAngle"]

OPS = {ast.Lt: "lt", ast.LtE: "le", ast.Gt: "gt", ast.GtE: "ge"}
NEGATE = {"lt": "ge", "le": "gt", "gt": "le", "ge": "lt"}
FLIP = {"lt": "gt", "le": "ge", "gt": "lt", "ge": "le"}


def _parse(rel):
    path = os.path.join(REPO, "polyply", "src", rel)
    with open(path) as handle:
        return ast.parse(handle.read(), filename=path)


# ------------------------------------------------------------------------------------------ the reader

def _token_of(test):
    """the string an `x == '<str>'` comparison inside `test` names (the in/out keyword), or None"""
    found = []
    for node in ast.walk(test):
        if isinstance(node, ast.Compare) and len(node.ops) == 1 and isinstance(node.ops[0], ast.Eq):
            for side in (node.left, node.comparators[0]):
                if isinstance(side, ast.Constant) and isinstance(side.value, str):
                    found.append(side.value)
    if len(found) > 1:
        raise TranslatorError("two keyword tests in one condition")
    return found[0] if found else None


def _const_bool_return(body):
    if len(body) == 1 and isinstance(body[0], ast.Return) and isinstance(body[0].value, ast.Constant) \
            and isinstance(body[0].value.value, bool):
        return body[0].value.value
    return None


class _Reader:
    """collects (compare node, accepted-relation or None for a neutral intermediate, keyword) in source order"""

    def __init__(self):
        self.found = []

    def stmts(self, body, token):
        for stmt in body:
            self.stmt(stmt, token)

    def stmt(self, stmt, token):
        if isinstance(stmt, ast.If):
            tok = _token_of(stmt.test) or token
            verdict = _const_bool_return(stmt.body)
            role = None if verdict is None else ("accept" if verdict else "reject")
            if role is None and self._has_ordering(stmt.test):
                raise TranslatorError("ordering comparison in a condition whose branch is not `return True/False`")
            self.expr(stmt.test, tok, 0, role)
            self.stmts(stmt.body, tok)
            self.stmts(stmt.orelse, token)
        elif isinstance(stmt, ast.Return):
            if stmt.value is not None and not isinstance(stmt.value, ast.Constant):
                self.expr(stmt.value, token, 0, "accept")
        elif isinstance(stmt, (ast.Assign, ast.AnnAssign, ast.AugAssign, ast.Expr)):
            value = stmt.value
            if value is not None:
                self.expr(value, token, 0, "neutral")
        elif isinstance(stmt, (ast.For, ast.While)):
            if isinstance(stmt, ast.While) and self._has_ordering(stmt.test):
                raise TranslatorError("ordering comparison in a loop condition")
            self.stmts(stmt.body, token)
            self.stmts(stmt.orelse, token)
        elif isinstance(stmt, (ast.Pass, ast.Continue, ast.Break, ast.Import, ast.ImportFrom)):
            pass
        elif any(self._has_ordering(sub) for sub in ast.walk(stmt) if isinstance(sub, ast.expr)):
            raise TranslatorError("ordering comparison in an unsupported statement %s" % type(stmt).__name__)

    @staticmethod
    def _has_ordering(node):
        return any(isinstance(sub, ast.Compare) and any(type(op) in OPS for op in sub.ops) for sub in ast.walk(node))

    def expr(self, node, token, parity, role):
        if isinstance(node, ast.Compare):
            if any(type(op) in OPS for op in node.ops):
                if len(node.ops) != 1:
                    raise TranslatorError("chained ordering comparison")
                rel = OPS[type(node.ops[0])]
                if role == "neutral":
                    verdict = ("neutral", NEGATE[rel] if parity else rel)
                else:
                    flip = parity ^ (1 if role == "reject" else 0)
                    verdict = ("accept", NEGATE[rel] if flip else rel)
                self.found.append((node, verdict, token))
            return
        if isinstance(node, ast.UnaryOp) and isinstance(node.op, ast.Not):
            self.expr(node.operand, token, parity ^ 1, role)
        elif isinstance(node, ast.BoolOp):
            for value in node.values:
                self.expr(value, token, parity, role)
        elif isinstance(node, ast.Call) and isinstance(node.func, ast.Name) and node.func.id in ("bool", "all", "any") \
                and len(node.args) == 1 and not node.keywords:
            self.expr(node.args[0], token, parity, role)
        elif isinstance(node, (ast.GeneratorExp, ast.ListComp)):
            self.expr(node.elt, token, parity, role)
        elif isinstance(node, ast.Tuple) and role == "neutral":
            for elt in node.elts:
                self.expr(elt, token, parity, role)
        elif self._has_ordering(node):
            raise TranslatorError("ordering comparison inside an unsupported expression %s" % type(node).__name__)


def _read(func):
    reader = _Reader()
    reader.stmts(func.body, None)
    return reader.found


def _subscript_index(node):
    """k if the expression mentions `<name>[k]` for exactly one integer constant k"""
    ks = set()
    for sub in ast.walk(node):
        if isinstance(sub, ast.Subscript) and isinstance(sub.slice, ast.Constant) and isinstance(sub.slice.value, int) \
                and not isinstance(sub.slice.value, bool):
            ks.add(sub.slice.value)
    return ks.pop() if len(ks) == 1 else None


def _oriented(node, rel, is_param):
    """the relation read as `<quantity> rel <parameter>`: flipped when the parameter stands on the left"""
    left, right = is_param(node.left), is_param(node.comparators[0])
    if left == right:
        raise TranslatorError("cannot tell the parameter side of a comparison")
    return FLIP[rel] if left else rel


def _by_param_index(found, wanted):
    """{(token, k): relation} for the comparisons against `parameters[k]`"""
    out = {}
    for node, (kind, rel), token in found:
        if kind != "accept":
            raise TranslatorError("unexpected intermediate comparison")
        sides = [_subscript_index(node.left), _subscript_index(node.comparators[0])]
        ks = [k for k in sides if k is not None]
        if len(ks) != 1:
            raise TranslatorError("comparison is not against exactly one parameters[k]")
        rel = FLIP[rel] if sides[0] is not None else rel
        key = (token, ks[0])
        if key in out:
            raise TranslatorError("two comparisons for %r" % (key,))
        out[key] = rel
    if set(out) != set(wanted):
        raise TranslatorError("comparisons found for %s, expected %s" % (sorted(map(str, out)), sorted(map(str, wanted))))
    return out


def _ast_table():
    tab = {}
    tree = _parse("random_walk.py")
    got = _by_param_index(_read(find_func(tree, "in_sphere")), [("in", 2), ("out", 2)])
    tab["sphereIn"], tab["sphereOut"] = got[("in", 2)], got[("out", 2)]
    got = _by_param_index(_read(find_func(tree, "in_cylinder")), [("in", 2), ("in", 3), ("out", 2), ("out", 3)])
    tab["cylInRadius"], tab["cylInHeight"] = got[("in", 2)], got[("in", 3)]
    tab["cylOutRadius"], tab["cylOutHeight"] = got[("out", 2)], got[("out", 3)]

    # in_rectangle: one per-axis inside test `|dim| < max_dim` (an intermediate), or the same test written
    # once per keyword (accepted for 'in', negated for 'out')
    func = find_func(tree, "in_rectangle")
    found = _read(func)

    def is_len(side):
        # the declared length is the loop variable bound to parameters[2:], or a parameters[k] itself
        names = set()
        for sub in ast.walk(func):
            if isinstance(sub, ast.comprehension) and isinstance(sub.target, ast.Tuple) and len(sub.target.elts) == 2 \
                    and all(isinstance(e, ast.Name) for e in sub.target.elts) \
                    and any(isinstance(s, ast.Subscript) and isinstance(s.slice, ast.Slice) for s in ast.walk(sub.iter)):
                names.add(sub.target.elts[1].id)
        return any((isinstance(s, ast.Name) and s.id in names) or
                   (isinstance(s, ast.Subscript) and isinstance(s.slice, ast.Constant)) for s in ast.walk(side))

    neutral = [_oriented(n, rel, is_len) for n, (kind, rel), _ in found if kind == "neutral"]
    by_tok = {}
    for node, (kind, rel), token in found:
        if kind == "accept":
            by_tok.setdefault(token, set()).add(_oriented(node, rel, is_len))
    if len(set(neutral)) == 1 and not by_tok:
        tab["rectInside"] = neutral[0]
    elif not neutral and set(by_tok) == {"in", "out"} and len(by_tok["in"]) == 1 \
            and by_tok["out"] == {NEGATE[next(iter(by_tok["in"]))]}:
        tab["rectInside"] = next(iter(by_tok["in"]))
    else:
        raise TranslatorError("in_rectangle: the per-axis inside test is not recognisable")

    # checks_milestones: `ref_node, upper_bound, lower_bound = restraint`
    func = find_func(tree, "checks_milestones", cls="RandomWalk")
    triples = [t for t in ast.walk(func) if isinstance(t, ast.Tuple) and isinstance(t.ctx, ast.Store)
               and len(t.elts) == 3 and all(isinstance(e, ast.Name) for e in t.elts)]
    uppers = set(t.elts[1].id for t in triples)
    lowers = set(t.elts[2].id for t in triples)
    if len(uppers) != 1 or len(lowers) != 1:
        raise TranslatorError("checks_milestones: the (ref, upper, lower) unpacking is not recognisable")
    upper, lower = uppers.pop(), lowers.pop()
    rels = {}
    for node, (kind, rel), _ in _read(func):
        if kind != "accept":
            raise TranslatorError("checks_milestones: unexpected intermediate comparison")
        for name, key in ((upper, "msUpper"), (lower, "msLower")):
            def is_bound(side, name=name):
                return any(isinstance(s, ast.Name) and s.id == name for s in ast.walk(side))
            if is_bound(node.left) or is_bound(node.comparators[0]):
                if key in rels:
                    raise TranslatorError("checks_milestones: two comparisons with " + name)
                rels[key] = _oriented(node, rel, is_bound)
    if set(rels) != {"msUpper", "msLower"}:
        raise TranslatorError("checks_milestones: comparisons with the two bounds not found")
    tab.update(rels)

    # is_restricted: `normal, ref_angle = node_dict["rw_options"][0]`; the ordering comparison with ref_angle
    func = find_func(tree, "is_restricted")
    pairs = [t for t in ast.walk(func) if isinstance(t, ast.Tuple) and isinstance(t.ctx, ast.Store)
             and len(t.elts) == 2 and all(isinstance(e, ast.Name) for e in t.elts)]
    if len(pairs) != 1:
        raise TranslatorError("is_restricted: the (normal, ref_angle) unpacking is not recognisable")
    ref = pairs[0].elts[1].id

    def is_ref(side):
        return any(isinstance(s, ast.Name) and s.id == ref for s in ast.walk(side))
    rels = [_oriented(n, rel, is_ref) for n, (kind, rel), _ in _read(func) if kind == "accept"]
    if len(rels) != 1 or any(kind != "accept" for _, (kind, _), _ in _read(func)):
        raise TranslatorError("is_restricted: exactly one ordering comparison with the reference angle expected")
    tab["dirAngle"] = rels[0]
    return tab


# ------------------------------------------------------------------------------------------ the live probe

def _relation(below, on, above, what):
    pattern = (bool(below), bool(on), bool(above))
    table = {(True, True, False): "le", (True, False, False): "lt", (False, True, True): "ge",
             (False, False, True): "gt"}
    if pattern not in table:
        raise TranslatorError("live probe of %s is not a one-sided comparison: %r" % (what, pattern))
    return table[pattern]


def probe_live():
    """the accepted-relations determined on the LIVE functions: each test is evaluated below, exactly on and
    above its boundary (dyadic numbers: every intermediate is exact in double)"""
    import sys
    if REPO not in sys.path:
        sys.path.insert(0, REPO)
    import numpy as np
    import networkx as nx
    from polyply.src import random_walk as rw
    from polyply.src.nonbond_engine import NonBondEngine
    tab = {}
    centre = np.array([4.0, 4.0, 4.0])

    def pt(dx=0.0, dy=0.0, dz=0.0):
        return centre - np.array([dx, dy, dz])      # diff = centre - point = (dx, dy, dz)

    for key, io in (("sphereIn", "in"), ("sphereOut", "out")):
        tab[key] = _relation(*[rw.in_sphere(pt(dx=x), [io, centre, 2.0, "sphere"]) for x in (1.5, 2.0, 2.5)],
                             what="in_sphere " + io)
    # cylinder: radius with the height test settled (in: inside the slab; out: inside the slab so that only the
    # radius decides), height with the radius settled (in: inside the radius; out: inside the radius)
    tab["cylInRadius"] = _relation(*[rw.in_cylinder(pt(dx=x), ["in", centre, 2.0, 1.0, "cylinder"])
                                     for x in (1.5, 2.0, 2.5)], what="in_cylinder in radius")
    tab["cylInHeight"] = _relation(*[rw.in_cylinder(pt(dz=z), ["in", centre, 2.0, 1.0, "cylinder"])
                                     for z in (0.5, 1.0, 1.5)], what="in_cylinder in height")
    tab["cylOutRadius"] = _relation(*[rw.in_cylinder(pt(dx=x), ["out", centre, 2.0, 1.0, "cylinder"])
                                      for x in (1.5, 2.0, 2.5)], what="in_cylinder out radius")
    tab["cylOutHeight"] = _relation(*[rw.in_cylinder(pt(dz=z), ["out", centre, 2.0, 1.0, "cylinder"])
                                      for z in (0.5, 1.0, 1.5)], what="in_cylinder out height")
    rels = set()
    for axis in range(3):
        ins, outs = [], []
        for x in (0.5, 1.0, 1.5):
            d = [0.0, 0.0, 0.0]
            d[axis] = x
            ins.append(rw.in_rectangle(pt(*d), ["in", centre, 1.0, 1.0, 1.0, "rectangle"]))
            outs.append(rw.in_rectangle(pt(*d), ["out", centre, 1.0, 1.0, 1.0, "rectangle"]))
        rel = _relation(*ins, what="in_rectangle in")
        if _relation(*outs, what="in_rectangle out") != NEGATE[rel]:
            raise TranslatorError("live probe: in_rectangle 'out' is not the negation of 'in'")
        rels.add(rel)
    if len(rels) != 1:
        raise TranslatorError("live probe: in_rectangle treats the axes differently")
    tab["rectInside"] = rels.pop()

    box = np.array([16.0, 16.0, 16.0])
    positions = np.ones((2, 3)) * np.inf
    positions[0] = [4.0, 4.0, 4.0]
    engine = NonBondEngine(positions, {(0, 0): 0, (0, 1): 1}, ["A", "A"], {}, {}, None, cut_off=1.0, boxsize=box)
    mol = nx.Graph()
    mol.add_nodes_from([0, 1])
    walker = rw.RandomWalk(0, engine)
    walker.molecule = mol
    res = []
    for dist in (1.5, 2.0, 2.5):
        mol.nodes[1]["distance_restraints"] = [(0, 2.0, 0.0)]
        res.append(walker.checks_milestones(1, np.array([4.0 + dist, 4.0, 4.0])))
    tab["msUpper"] = _relation(*res, what="checks_milestones upper bound")
    res = []
    for dist in (1.5, 2.0, 2.5):
        mol.nodes[1]["distance_restraints"] = [(0, 8.0, 2.0)]
        res.append(walker.checks_milestones(1, np.array([4.0 + dist, 4.0, 4.0])))
    tab["msLower"] = _relation(*res, what="checks_milestones lower bound")

    # is_restricted: exactly antiparallel step, angle = degrees(arccos(-1.0)) = 180.0 exactly
    old = np.array([1.0, 1.0, 1.0])
    new = np.array([1.0, 1.0, 0.0])
    normal = np.array([0.0, 0.0, 1.0])
    with np.errstate(invalid="ignore"):
        res = [rw.is_restricted(new, old, {"rw_options": [[normal, -ref]]}) for ref in (180.5, 180.0, 179.5)]
    tab["dirAngle"] = _relation(*res, what="is_restricted angle")
    return tab


# ------------------------------------------------------------------------------------------ provider interface

def extract():
    try:
        tab = _ast_table()
        tab["_source"] = "ast"
    except TranslatorError as err:
        # the source left the shapes the reader follows: determine the relations on the live functions
        try:
            tab = probe_live()
        except TranslatorError:
            raise
        except Exception as exc:  # pylint: disable=broad-except
            raise TranslatorError("restraint comparisons: %s; live probe failed: %s: %s"
                                  % (err, type(exc).__name__, exc))
        tab["_source"] = "live probe (ast reader: %s)" % err
    if set(k for k in tab if not k.startswith("_")) != set(KEYS) or any(tab[k] not in NEGATE for k in KEYS):
        raise TranslatorError("restraint comparisons incomplete: %r" % (tab,))
    return tab


DOC = dict(sphereIn="in_sphere 'in': accepted iff ‖centre − point‖ REL radius",
           sphereOut="in_sphere 'out': accepted iff ‖centre − point‖ REL radius",
           cylInRadius="in_cylinder 'in': radial distance REL radius (conjunct)",
           cylInHeight="in_cylinder 'in': |Δz| REL half height (conjunct)",
           cylOutRadius="in_cylinder 'out': radial distance REL radius (disjunct)",
           cylOutHeight="in_cylinder 'out': Δz REL |half height| (disjunct)",
           rectInside="in_rectangle: per-axis inside test |Δᵢ| REL aᵢ ('in': all axes; 'out': not all axes)",
           msUpper="checks_milestones: accepted iff distance REL upper_bound",
           msLower="checks_milestones: accepted iff distance REL lower_bound",
           dirAngle="is_restricted: accepted iff angle(normal, step) REL |ref_angle|")


def emit(tab):
    lines = ["namespace PolyplyVerif.RestraintTables", "",
             "/-- an ordering relation `quantity REL length`, as it decides ACCEPTANCE of a trial point -/",
             "inductive Cmp where", "  | lt", "  | le", "  | gt", "  | ge", "deriving DecidableEq, Repr", ""]
    for key in KEYS:
        lines.append("/-- %s -/" % DOC[key])
        lines.append("def %s : Cmp := .%s" % (key, tab[key]))
        lines.append("")
    lines.append("end PolyplyVerif.RestraintTables")
    return "\n".join(lines) + "\n"


def validate_live(tab):
    problems = []
    try:
        live = probe_live()
    except Exception as err:  # pylint: disable=broad-except
        return ["restraint comparisons: live probe failed: %s: %s" % (type(err).__name__, err)]
    for key in KEYS:
        if live[key] != tab[key]:
            problems.append("restraint comparison %s: table %s, live function behaves as %s" % (key, tab[key], live[key]))
    return problems
