"""Topology tables (C08/C09): the dihedral wildcard pattern list, the combination-rule map and the
atoms-vs-parameters split per section.  Parsed from the CURRENT sources with `ast` only.

  topology.match_dihedral_interaction_types.patterns   -> Tables.Top.patterns  : List (List (Option Nat))
  topology.Topology.gen_pairs.comb_funcs               -> Tables.Top.combFuncs : List (Nat x String)
  top_parser.TOPDirector.atom_idxs                     -> Tables.Top.atomIdxs  : List (String x List AtomIdx)
"""
import ast
from gen_tables import src, find_func, local_assign, lstr, TranslatorError, live_module

LEAN_FILE = "Top.lean"


def _patterns(node):
    if not isinstance(node, (ast.List, ast.Tuple)):
        raise TranslatorError("patterns is not a list literal")
    out = []
    for pat in node.elts:
        if not isinstance(pat, (ast.Tuple, ast.List)):
            raise TranslatorError("pattern is not a tuple literal: %s" % ast.dump(pat)[:120])
        row = []
        for elt in pat.elts:
            if isinstance(elt, ast.Constant) and type(elt.value) is int and elt.value >= 0:
                row.append(elt.value)
            elif isinstance(elt, ast.Constant) and elt.value == "X":
                row.append("X")
            else:
                raise TranslatorError("pattern entry is neither a non-negative int nor 'X': %s" % ast.dump(elt)[:120])
        out.append(row)
    return out


def _comb_funcs(node):
    if not isinstance(node, ast.Dict):
        raise TranslatorError("comb_funcs is not a dict literal")
    out = []
    for key, val in zip(node.keys, node.values):
        if not (isinstance(key, ast.Constant) and isinstance(key.value, (int, float))
                and not isinstance(key.value, bool) and float(key.value) == int(key.value) and key.value >= 0):
            raise TranslatorError("comb_funcs key is not a non-negative integral number")
        if not isinstance(val, ast.Name):
            raise TranslatorError("comb_funcs value is not a function name")
        out.append((int(key.value), val.id))
    return out


def _const_or_none(node):
    if node is None:
        return None
    if isinstance(node, ast.Constant) and node.value is None:
        return None
    if isinstance(node, ast.Constant) and type(node.value) is int and node.value >= 0:
        return node.value
    raise TranslatorError("slice bound is neither None nor a non-negative int: %s" % ast.dump(node)[:120])


def _atom_idxs(node):
    if not isinstance(node, ast.Dict):
        raise TranslatorError("atom_idxs is not a dict literal")
    out = []
    for key, val in zip(node.keys, node.values):
        if not (isinstance(key, ast.Constant) and isinstance(key.value, str)):
            raise TranslatorError("atom_idxs key is not a string")
        if not isinstance(val, ast.List):
            raise TranslatorError("atom_idxs[%s] is not a list literal" % key.value)
        row = []
        for elt in val.elts:
            if isinstance(elt, ast.Constant) and type(elt.value) is int and elt.value >= 0:
                row.append(("idx", elt.value))
            elif isinstance(elt, ast.Call) and isinstance(elt.func, ast.Name) and elt.func.id == "slice" \
                    and not elt.keywords and 1 <= len(elt.args) <= 2:
                if len(elt.args) == 1:
                    row.append(("slice", None, _const_or_none(elt.args[0])))
                else:
                    row.append(("slice", _const_or_none(elt.args[0]), _const_or_none(elt.args[1])))
            elif isinstance(elt, ast.Slice) or isinstance(elt, ast.Call):
                raise TranslatorError("atom_idxs[%s]: unsupported slice form %s" % (key.value, ast.dump(elt)[:120]))
            else:
                raise TranslatorError("atom_idxs[%s]: entry is neither int nor slice(..)" % key.value)
        out.append((key.value, row))
    return out


def _class_assign(tree, cls, name):
    for node in ast.walk(tree):
        if isinstance(node, ast.ClassDef) and node.name == cls:
            for sub in node.body:
                if isinstance(sub, ast.Assign):
                    for target in sub.targets:
                        if isinstance(target, ast.Name) and target.id == name:
                            return sub.value
    raise TranslatorError("anchor not found: class attribute %s.%s" % (cls, name))


def _sections(tree, cls):
    """every `@SectionLineParser.section_parser(*names)` decorator in class `cls`: (names, handler)"""
    out = []
    for node in ast.walk(tree):
        if isinstance(node, ast.ClassDef) and node.name == cls:
            for sub in node.body:
                if not isinstance(sub, ast.FunctionDef):
                    continue
                for dec in sub.decorator_list:
                    if isinstance(dec, ast.Call) and isinstance(dec.func, ast.Attribute) \
                            and dec.func.attr == "section_parser":
                        names = []
                        for arg in dec.args:
                            if not (isinstance(arg, ast.Constant) and isinstance(arg.value, str)):
                                raise TranslatorError("section_parser argument is not a string literal")
                            names.append(arg.value)
                        if dec.keywords:
                            raise TranslatorError("section_parser with keyword arguments is not modelled")
                        out.append((names, sub.name))
            if not out:
                raise TranslatorError("no section_parser decorators found in %s" % cls)
            return out
    raise TranslatorError("anchor not found: class %s" % cls)


def _find_patterns(topo):
    """The wildcard pattern table: the local `patterns` of match_dihedral_interaction_types; if the table has
    been moved (module constant, other name) the unique assignment anywhere in topology.py whose value is a
    list of at least four 4-tuples of non-negative ints / 'X' is taken instead."""
    try:
        return _patterns(local_assign(find_func(topo, "match_dihedral_interaction_types"), "patterns"))
    except TranslatorError:
        found = []
        for node in ast.walk(topo):
            if isinstance(node, ast.Assign):
                try:
                    rows = _patterns(node.value)
                except TranslatorError:
                    continue
                if len(rows) >= 4 and all(len(row) == 4 for row in rows):
                    found.append(rows)
        if len(found) != 1:
            raise TranslatorError("anchor not found: dihedral wildcard pattern table in topology.py "
                                  "(%d candidate assignments)" % len(found))
        return found[0]


def _atom_idxs_live():
    """fallback when TOPDirector.atom_idxs is no longer a dict literal (e.g. built by a comprehension from a
    smaller table): the live class attribute; the table is only used for lookup, so it is emitted sorted"""
    try:
        live = live_module("top_parser").TOPDirector.atom_idxs
    except Exception as err:  # pylint: disable=broad-except
        raise TranslatorError("TOPDirector.atom_idxs is neither a dict literal nor a live attribute: %s" % err)
    out = []
    for key in sorted(live):
        row = []
        for elt in live[key]:
            if isinstance(elt, int) and not isinstance(elt, bool) and elt >= 0:
                row.append(("idx", elt))
            elif isinstance(elt, slice) and elt.step is None and all(
                    b is None or (isinstance(b, int) and b >= 0) for b in (elt.start, elt.stop)):
                row.append(("slice", elt.start, elt.stop))
            else:
                raise TranslatorError("atom_idxs[%s]: entry %r is neither int nor slice" % (key, elt))
        out.append((key, row))
    return out


def extract():
    tab = {}
    topo = src("topology.py")
    tab["patterns"] = _find_patterns(topo)
    tab["combFuncs"] = _comb_funcs(local_assign(find_func(topo, "gen_pairs", cls="Topology"), "comb_funcs"))
    parser = src("top_parser.py")
    try:
        tab["atomIdxs"] = _atom_idxs(_class_assign(parser, "TOPDirector", "atom_idxs"))
    except TranslatorError:
        tab["atomIdxs"] = _atom_idxs_live()
    tab["sections"] = _sections(parser, "TOPDirector")
    return tab


def _opt(val):
    return "none" if val is None else "(some %d)" % val


def emit(tab):
    lines = ["namespace PolyplyVerif.Tables.Top", ""]
    lines.append("/-- one entry of an `atom_idxs` list: a plain index or `slice(start, stop)` -/")
    lines.append("inductive AtomIdx where")
    lines.append("  | idx (i : Nat)")
    lines.append("  | slice (start stop : Option Nat)")
    lines.append("deriving Repr, DecidableEq")
    lines.append("")
    lines.append("/-- `patterns` of topology.match_dihedral_interaction_types, in source order; "
                 "`some i` = atoms[i], `none` = 'X' -/")
    lines.append("def patterns : List (List (Option Nat)) :=")
    lines.append("  [" + ", ".join("[" + ", ".join("none" if e == "X" else "some %d" % e for e in row) + "]"
                                   for row in tab["patterns"]) + "]")
    lines.append("")
    lines.append("/-- `comb_funcs` of Topology.gen_pairs: combination rule number -> function name -/")
    lines.append("def combFuncs : List (Nat × String) :=")
    lines.append("  [" + ", ".join("(%d, %s)" % (k, lstr(v)) for k, v in tab["combFuncs"]) + "]")
    lines.append("")
    lines.append("/-- `TOPDirector.atom_idxs`, in source order -/")
    lines.append("def atomIdxs : List (String × List AtomIdx) :=")
    rows = []
    for name, row in tab["atomIdxs"]:
        ents = []
        for ent in row:
            if ent[0] == "idx":
                ents.append(".idx %d" % ent[1])
            else:
                ents.append(".slice %s %s" % (_opt(ent[1]), _opt(ent[2])))
        rows.append("(%s, [%s])" % (lstr(name), ", ".join(ents)))
    lines.append("  [" + ",\n   ".join(rows) + "]")
    lines.append("")
    lines.append("/-- every `@SectionLineParser.section_parser(...)` of class TOPDirector: section path -> handler "
                 "(the inherited `('macros',)` entry of vermouth's SectionLineParser is added by the model) -/")
    lines.append("def sections : List (List String × String) :=")
    lines.append("  [" + ",\n   ".join("([%s], %s)" % (", ".join(lstr(n) for n in names), lstr(func))
                                        for names, func in tab["sections"]) + "]")
    lines.append("")
    lines.append("end PolyplyVerif.Tables.Top")
    return "\n".join(lines) + "\n"


def validate_live(tab):
    """compare with the live objects: atom_idxs directly, patterns/comb_funcs behaviourally (they are
    function locals): probe match_dihedral_interaction_types with one single-entry table per pattern."""
    problems = []
    from polyply.src import top_parser, topology
    live = []
    for name, row in top_parser.TOPDirector.atom_idxs.items():
        ents = []
        for ent in row:
            if isinstance(ent, slice):
                if ent.step is not None:
                    problems.append("atom_idxs[%s] has a slice with a step" % name)
                ents.append(("slice", ent.start, ent.stop))
            else:
                ents.append(("idx", ent))
        live.append((name, ents))
    if dict(live) != dict((n, list(r)) for n, r in tab["atomIdxs"]):   # a lookup table: order is irrelevant
        problems.append("TOPDirector.atom_idxs differs between ast and live class")
    live_keys = set(top_parser.TOPDirector.METH_DICT.keys())
    mine = set(tuple(names) for names, _ in tab["sections"]) | {("macros",)}
    if live_keys != mine:
        problems.append("TOPDirector.METH_DICT keys differ from the translated decorators: %s"
                        % sorted(live_keys ^ mine))
    for names, func in tab["sections"]:
        entry = top_parser.TOPDirector.METH_DICT.get(tuple(names))
        if entry is not None and entry[0].__name__ != func:
            problems.append("section %s is handled by %s, translated %s" % (names, entry[0].__name__, func))
    # every translated pattern, applied to distinct atoms, must be found by the live function when it is
    # the only entry of the table
    atoms = ("a0", "a1", "a2", "a3", "a4", "a5", "a6", "a7")
    for row in tab["patterns"]:
        if any(e != "X" and e >= len(atoms) for e in row):
            problems.append("pattern index out of the probe range: %r" % (row,))
            continue
        key = tuple("X" if e == "X" else atoms[e] for e in row)
        try:
            got = topology.match_dihedral_interaction_types(atoms[:max(4, 1 + max([e for e in row if e != "X"] or [0]))],
                                                            {key: []})
        except Exception as err:  # pylint: disable=broad-except
            got = "raised %s" % type(err).__name__
        if got != key:
            problems.append("live match_dihedral_interaction_types does not find the translated pattern %r" % (row,))
    return problems
