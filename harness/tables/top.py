"""Topology tables (C08/C09): the dihedral wildcard pattern list, the combination-rule map and the
atoms-vs-parameters split per section.  Parsed from the CURRENT sources with `ast` only.

  topology.match_dihedral_interaction_types.patterns   -> Tables.Top.patterns  : List (List (Option Nat))
  topology.Topology.gen_pairs.comb_funcs               -> Tables.Top.combFuncs : List (Nat x String)
  top_parser.TOPDirector.atom_idxs                     -> Tables.Top.atomIdxs  : List (String x List AtomIdx)

C08 anchors (literals of top_parser.py the model `Model/TopParse.lean` and `Properties/C08.lean` depend on):

  TOPDirector._defaults: locals `defaults`, `numbered_terms`   -> defaultNames, defaultNumbered : List String
  TOPDirector._defaults: `...defaults["gen-pairs"] = "no"`      -> genPairsDefault : String x String
  TOPDirector._atomtypes: names given to zip_longest, `floats`  -> atomTypeFields, atomTypeFloats : List String
  TOPDirector.__init__: self.pragma_actions / header_actions    -> pragmaActions : List (String x String),
                                                                    headerActions : List (List String x String)
  TOPDirector.parse_top_pragma: local dict `inverse`            -> inverseCond : List (String x String)
  TOPDirector.COMMENT_CHAR                                      -> commentChar : Char

Class-level / instance-level tables fall back to the live object when they are no longer literals; the
function-local `inverse` has a tolerant anchor (the unique str->str dict literal assigned anywhere in
top_parser.py, e.g. after it has been moved to a class constant).
"""
import ast
from gen_tables import src, find_func, local_assign, lstr, TranslatorError, live_module

LEAN_FILE = "Top.lean"


def _patterns(node):
    if not isinstance(node, (ast.List, ast.Tuple)):
        raise TranslatorError("patterns is not a list literal")
    out = []
    for pat in node.elts:
        if not isinstance(pat, (ast.Tuple, ast.List)):
            raise TranslatorError("pattern is not a tuple literal: %s" % ast.dump(pat)[:120])
        row = []
        for elt in pat.elts:
            if isinstance(elt, ast.Constant) and type(elt.value) is int and elt.value >= 0:
                row.append(elt.value)
            elif isinstance(elt, ast.Constant) and elt.value == "X":
                row.append("X")
            else:
                raise TranslatorError("pattern entry is neither a non-negative int nor 'X': %s" % ast.dump(elt)[:120])
        out.append(row)
    return out


def _comb_funcs(node):
    if not isinstance(node, ast.Dict):
        raise TranslatorError("comb_funcs is not a dict literal")
    out = []
    for key, val in zip(node.keys, node.values):
        if not (isinstance(key, ast.Constant) and isinstance(key.value, (int, float))
                and not isinstance(key.value, bool) and float(key.value) == int(key.value) and key.value >= 0):
            raise TranslatorError("comb_funcs key is not a non-negative integral number")
        if not isinstance(val, ast.Name):
            raise TranslatorError("comb_funcs value is not a function name")
        out.append((int(key.value), val.id))
    return out


def _const_or_none(node):
    if node is None:
        return None
    if isinstance(node, ast.Constant) and node.value is None:
        return None
    if isinstance(node, ast.Constant) and type(node.value) is int and node.value >= 0:
        return node.value
    raise TranslatorError("slice bound is neither None nor a non-negative int: %s" % ast.dump(node)[:120])


def _atom_idxs(node):
    if not isinstance(node, ast.Dict):
        raise TranslatorError("atom_idxs is not a dict literal")
    out = []
    for key, val in zip(node.keys, node.values):
        if not (isinstance(key, ast.Constant) and isinstance(key.value, str)):
            raise TranslatorError("atom_idxs key is not a string")
        if not isinstance(val, ast.List):
            raise TranslatorError("atom_idxs[%s] is not a list literal" % key.value)
        row = []
        for elt in val.elts:
            if isinstance(elt, ast.Constant) and type(elt.value) is int and elt.value >= 0:
                row.append(("idx", elt.value))
            elif isinstance(elt, ast.Call) and isinstance(elt.func, ast.Name) and elt.func.id == "slice" \
                    and not elt.keywords and 1 <= len(elt.args) <= 2:
                if len(elt.args) == 1:
                    row.append(("slice", None, _const_or_none(elt.args[0])))
                else:
                    row.append(("slice", _const_or_none(elt.args[0]), _const_or_none(elt.args[1])))
            elif isinstance(elt, ast.Slice) or isinstance(elt, ast.Call):
                raise TranslatorError("atom_idxs[%s]: unsupported slice form %s" % (key.value, ast.dump(elt)[:120]))
            else:
                raise TranslatorError("atom_idxs[%s]: entry is neither int nor slice(..)" % key.value)
        out.append((key.value, row))
    return out


def _class_assign(tree, cls, name):
    for node in ast.walk(tree):
        if isinstance(node, ast.ClassDef) and node.name == cls:
            for sub in node.body:
                if isinstance(sub, ast.Assign):
                    for target in sub.targets:
                        if isinstance(target, ast.Name) and target.id == name:
                            return sub.value
    raise TranslatorError("anchor not found: class attribute %s.%s" % (cls, name))


def _sections(tree, cls):
    """every `@SectionLineParser.section_parser(*names)` decorator in class `cls`: (names, handler)"""
    out = []
    for node in ast.walk(tree):
        if isinstance(node, ast.ClassDef) and node.name == cls:
            for sub in node.body:
                if not isinstance(sub, ast.FunctionDef):
                    continue
                for dec in sub.decorator_list:
                    if isinstance(dec, ast.Call) and isinstance(dec.func, ast.Attribute) \
                            and dec.func.attr == "section_parser":
                        names = []
                        for arg in dec.args:
                            if not (isinstance(arg, ast.Constant) and isinstance(arg.value, str)):
                                raise TranslatorError("section_parser argument is not a string literal")
                            names.append(arg.value)
                        if dec.keywords:
                            raise TranslatorError("section_parser with keyword arguments is not modelled")
                        out.append((names, sub.name))
            if not out:
                raise TranslatorError("no section_parser decorators found in %s" % cls)
            return out
    raise TranslatorError("anchor not found: class %s" % cls)


def _find_patterns(topo):
    """The wildcard pattern table: the local `patterns` of match_dihedral_interaction_types; if the table has
    been moved (module constant, other name) the unique assignment anywhere in topology.py whose value is a
    list of at least four 4-tuples of non-negative ints / 'X' is taken instead."""
    try:
        return _patterns(local_assign(find_func(topo, "match_dihedral_interaction_types"), "patterns"))
    except TranslatorError:
        found = []
        for node in ast.walk(topo):
            if isinstance(node, ast.Assign):
                try:
                    rows = _patterns(node.value)
                except TranslatorError:
                    continue
                if len(rows) >= 4 and all(len(row) == 4 for row in rows):
                    found.append(rows)
        if len(found) != 1:
            raise TranslatorError("anchor not found: dihedral wildcard pattern table in topology.py "
                                  "(%d candidate assignments)" % len(found))
        return found[0]


def _atom_idxs_live():
    """fallback when TOPDirector.atom_idxs is no longer a dict literal (e.g. built by a comprehension from a
    smaller table): the live class attribute; the table is only used for lookup, so it is emitted sorted"""
    try:
        live = live_module("top_parser").TOPDirector.atom_idxs
    except Exception as err:  # pylint: disable=broad-except
        raise TranslatorError("TOPDirector.atom_idxs is neither a dict literal nor a live attribute: %s" % err)
    out = []
    for key in sorted(live):
        row = []
        for elt in live[key]:
            if isinstance(elt, int) and not isinstance(elt, bool) and elt >= 0:
                row.append(("idx", elt))
            elif isinstance(elt, slice) and elt.step is None and all(
                    b is None or (isinstance(b, int) and b >= 0) for b in (elt.start, elt.stop)):
                row.append(("slice", elt.start, elt.stop))
            else:
                raise TranslatorError("atom_idxs[%s]: entry %r is neither int nor slice" % (key, elt))
        out.append((key, row))
    return out


# ------------------------------------------------------------------------------------------------ C08 anchors

def _str_list(node, what):
    if not isinstance(node, (ast.List, ast.Tuple)) or not node.elts:
        raise TranslatorError("%s is not a non-empty list literal" % what)
    out = []
    for elt in node.elts:
        if not (isinstance(elt, ast.Constant) and isinstance(elt.value, str)):
            raise TranslatorError("%s: entry is not a string literal: %s" % (what, ast.dump(elt)[:120]))
        out.append(elt.value)
    if len(set(out)) != len(out):
        raise TranslatorError("%s has a repeated entry: %r" % (what, out))
    return out


def _gen_pairs_default(func):
    """the unique `<...>.defaults[<str literal>] = <str literal>` of `_defaults` (the default inserted for a
    missing gen-pairs)"""
    found = []
    for node in ast.walk(func):
        if isinstance(node, ast.Assign) and len(node.targets) == 1:
            target = node.targets[0]
            if isinstance(target, ast.Subscript) and isinstance(target.value, ast.Attribute) \
                    and target.value.attr == "defaults" and isinstance(target.slice, ast.Constant) \
                    and isinstance(target.slice.value, str) and isinstance(node.value, ast.Constant) \
                    and isinstance(node.value.value, str):
                found.append((target.slice.value, node.value.value))
    if len(found) != 1:
        raise TranslatorError("anchor not found: `self.topology.defaults[<name>] = <string>` in _defaults "
                              "(%d candidates)" % len(found))
    return found[0]


def _atomtype_fields(func):
    """the list literal given as first argument to the (unique) zip_longest call of `_atomtypes`"""
    found = []
    for node in ast.walk(func):
        if isinstance(node, ast.Call) and ((isinstance(node.func, ast.Name) and node.func.id == "zip_longest")
                                           or (isinstance(node.func, ast.Attribute) and node.func.attr == "zip_longest")):
            found.append(node)
    if len(found) != 1:
        raise TranslatorError("anchor not found: the zip_longest call of _atomtypes (%d candidates)" % len(found))
    call = found[0]
    if len(call.args) != 2:
        raise TranslatorError("zip_longest of _atomtypes does not have two positional arguments")
    fill = [kw for kw in call.keywords if kw.arg == "fillvalue"]
    if fill and not (isinstance(fill[0].value, ast.Constant) and fill[0].value.value is None):
        raise TranslatorError("zip_longest of _atomtypes: fillvalue is not None")
    return _str_list(call.args[0], "field names of _atomtypes")


def _self_assign(func, attr):
    for node in ast.walk(func):
        if isinstance(node, ast.Assign):
            for target in node.targets:
                if isinstance(target, ast.Attribute) and target.attr == attr and isinstance(target.value, ast.Name) \
                        and target.value.id == "self":
                    return node.value
    raise TranslatorError("anchor not found: self.%s = ... in %s" % (attr, func.name))


def _method_name(node, what):
    if isinstance(node, ast.Attribute) and isinstance(node.value, ast.Name) and node.value.id == "self":
        return node.attr
    raise TranslatorError("%s: value is not `self.<method>`: %s" % (what, ast.dump(node)[:120]))


def _live_director():
    try:
        top_parser = live_module("top_parser")
        topology = live_module("topology")
        import vermouth.forcefield
        return top_parser.TOPDirector(topology.Topology(vermouth.forcefield.ForceField("translator")))
    except Exception as err:  # pylint: disable=broad-except
        raise TranslatorError("cannot instantiate the live TOPDirector: %s" % err)


def _pragma_actions(init):
    try:
        node = _self_assign(init, "pragma_actions")
        if not isinstance(node, ast.Dict):
            raise TranslatorError("self.pragma_actions is not a dict literal")
        out = []
        for key, val in zip(node.keys, node.values):
            if not (isinstance(key, ast.Constant) and isinstance(key.value, str)):
                raise TranslatorError("pragma_actions key is not a string literal")
            out.append((key.value, _method_name(val, "pragma_actions[%s]" % key.value)))
        return out
    except TranslatorError:
        live = _live_director().pragma_actions
        if not all(isinstance(k, str) and hasattr(v, "__name__") for k, v in live.items()):
            raise TranslatorError("pragma_actions is neither a dict literal nor a live str -> method dict")
        return sorted((k, v.__name__) for k, v in live.items())


def _header_actions(init):
    try:
        node = _self_assign(init, "header_actions")
        if not isinstance(node, ast.Dict):
            raise TranslatorError("self.header_actions is not a dict literal")
        out = []
        for key, val in zip(node.keys, node.values):
            out.append((_str_list(key, "header_actions key"), _method_name(val, "header_actions value")))
        return out
    except TranslatorError:
        live = _live_director().header_actions
        if not all(isinstance(k, tuple) and all(isinstance(x, str) for x in k) and hasattr(v, "__name__")
                   for k, v in live.items()):
            raise TranslatorError("header_actions is neither a dict literal nor a live tuple -> method dict")
        return sorted((list(k), v.__name__) for k, v in live.items())


def _str_dict(node):
    if not isinstance(node, ast.Dict) or not node.keys:
        raise TranslatorError("not a non-empty dict literal")
    out = []
    for key, val in zip(node.keys, node.values):
        if not (isinstance(key, ast.Constant) and isinstance(key.value, str)
                and isinstance(val, ast.Constant) and isinstance(val.value, str)):
            raise TranslatorError("dict entry is not str -> str")
        out.append((key.value, val.value))
    if len(set(k for k, _ in out)) != len(out):
        raise TranslatorError("dict literal has a repeated key")
    return out


def _inverse_cond(parser):
    """the local `inverse` of parse_top_pragma; if it has been moved (class constant, other name): the unique
    assignment anywhere in top_parser.py whose value is a non-empty str -> str dict literal"""
    try:
        return _str_dict(local_assign(find_func(parser, "parse_top_pragma", cls="TOPDirector"), "inverse"))
    except TranslatorError:
        found = []
        for node in ast.walk(parser):
            if isinstance(node, ast.Assign):
                try:
                    found.append(_str_dict(node.value))
                except TranslatorError:
                    continue
        if len(found) != 1:
            raise TranslatorError("anchor not found: the ifdef/ifndef inversion table of top_parser.py "
                                  "(%d candidate str -> str dict literals)" % len(found))
        return found[0]


def _comment_char(parser):
    try:
        node = _class_assign(parser, "TOPDirector", "COMMENT_CHAR")
        if not (isinstance(node, ast.Constant) and isinstance(node.value, str)):
            raise TranslatorError("COMMENT_CHAR is not a string literal")
        val = node.value
    except TranslatorError:
        try:
            val = live_module("top_parser").TOPDirector.COMMENT_CHAR
        except Exception as err:  # pylint: disable=broad-except
            raise TranslatorError("TOPDirector.COMMENT_CHAR is neither a literal nor a live attribute: %s" % err)
    if not (isinstance(val, str) and len(val) == 1 and 32 < ord(val) < 127 and val not in "\\'\""):
        raise TranslatorError("TOPDirector.COMMENT_CHAR is not a single printable ASCII character: %r" % (val,))
    return val


def _c08_anchors(parser, tab):
    dflt = find_func(parser, "_defaults", cls="TOPDirector")
    tab["defaultNames"] = _str_list(local_assign(dflt, "defaults"), "defaults of _defaults")
    tab["defaultNumbered"] = _str_list(local_assign(dflt, "numbered_terms"), "numbered_terms of _defaults")
    tab["genPairsDefault"] = _gen_pairs_default(dflt)
    atyp = find_func(parser, "_atomtypes", cls="TOPDirector")
    tab["atomTypeFields"] = _atomtype_fields(atyp)
    tab["atomTypeFloats"] = _str_list(local_assign(atyp, "floats"), "floats of _atomtypes")
    init = find_func(parser, "__init__", cls="TOPDirector")
    tab["pragmaActions"] = _pragma_actions(init)
    tab["headerActions"] = _header_actions(init)
    tab["inverseCond"] = _inverse_cond(parser)
    tab["commentChar"] = _comment_char(parser)


def extract():
    tab = {}
    topo = src("topology.py")
    tab["patterns"] = _find_patterns(topo)
    tab["combFuncs"] = _comb_funcs(local_assign(find_func(topo, "gen_pairs", cls="Topology"), "comb_funcs"))
    parser = src("top_parser.py")
    try:
        tab["atomIdxs"] = _atom_idxs(_class_assign(parser, "TOPDirector", "atom_idxs"))
    except TranslatorError:
        tab["atomIdxs"] = _atom_idxs_live()
    tab["sections"] = _sections(parser, "TOPDirector")
    _c08_anchors(parser, tab)
    return tab


def _slist(items):
    return "[" + ", ".join(lstr(i) for i in items) + "]"


def _opt(val):
    return "none" if val is None else "(some %d)" % val


def emit(tab):
    lines = ["namespace PolyplyVerif.Tables.Top", ""]
    lines.append("/-- one entry of an `atom_idxs` list: a plain index or `slice(start, stop)` -/")
    lines.append("inductive AtomIdx where")
    lines.append("  | idx (i : Nat)")
    lines.append("  | slice (start stop : Option Nat)")
    lines.append("deriving Repr, DecidableEq")
    lines.append("")
    lines.append("/-- `patterns` of topology.match_dihedral_interaction_types, in source order; "
                 "`some i` = atoms[i], `none` = 'X' -/")
    lines.append("def patterns : List (List (Option Nat)) :=")
    lines.append("  [" + ", ".join("[" + ", ".join("none" if e == "X" else "some %d" % e for e in row) + "]"
                                   for row in tab["patterns"]) + "]")
    lines.append("")
    lines.append("/-- `comb_funcs` of Topology.gen_pairs: combination rule number -> function name -/")
    lines.append("def combFuncs : List (Nat × String) :=")
    lines.append("  [" + ", ".join("(%d, %s)" % (k, lstr(v)) for k, v in tab["combFuncs"]) + "]")
    lines.append("")
    lines.append("/-- `TOPDirector.atom_idxs`, in source order -/")
    lines.append("def atomIdxs : List (String × List AtomIdx) :=")
    rows = []
    for name, row in tab["atomIdxs"]:
        ents = []
        for ent in row:
            if ent[0] == "idx":
                ents.append(".idx %d" % ent[1])
            else:
                ents.append(".slice %s %s" % (_opt(ent[1]), _opt(ent[2])))
        rows.append("(%s, [%s])" % (lstr(name), ", ".join(ents)))
    lines.append("  [" + ",\n   ".join(rows) + "]")
    lines.append("")
    lines.append("/-- every `@SectionLineParser.section_parser(...)` of class TOPDirector: section path -> handler "
                 "(the inherited `('macros',)` entry of vermouth's SectionLineParser is added by the model) -/")
    lines.append("def sections : List (List String × String) :=")
    lines.append("  [" + ",\n   ".join("([%s], %s)" % (", ".join(lstr(n) for n in names), lstr(func))
                                        for names, func in tab["sections"]) + "]")
    lines.append("")
    lines.append("/-- locals `defaults` / `numbered_terms` of TOPDirector._defaults, in source order -/")
    lines.append("def defaultNames : List String := %s" % _slist(tab["defaultNames"]))
    lines.append("def defaultNumbered : List String := %s" % _slist(tab["defaultNumbered"]))
    lines.append("")
    lines.append("/-- the `self.topology.defaults[name] = value` of TOPDirector._defaults (inserted when the name is "
                 "missing) -/")
    lines.append("def genPairsDefault : String × String := (%s, %s)" % (lstr(tab["genPairsDefault"][0]),
                                                                       lstr(tab["genPairsDefault"][1])))
    lines.append("")
    lines.append("/-- TOPDirector._atomtypes: the field names zipped with the REVERSED tokens, and the local `floats` -/")
    lines.append("def atomTypeFields : List String := %s" % _slist(tab["atomTypeFields"]))
    lines.append("def atomTypeFloats : List String := %s" % _slist(tab["atomTypeFloats"]))
    lines.append("")
    lines.append("/-- `self.pragma_actions` of TOPDirector.__init__: first token -> method name -/")
    lines.append("def pragmaActions : List (String × String) :=")
    lines.append("  [" + ", ".join("(%s, %s)" % (lstr(k), lstr(v)) for k, v in tab["pragmaActions"]) + "]")
    lines.append("")
    lines.append("/-- `self.header_actions` of TOPDirector.__init__: section path -> method name -/")
    lines.append("def headerActions : List (List String × String) :=")
    lines.append("  [" + ", ".join("(%s, %s)" % (_slist(k), lstr(v)) for k, v in tab["headerActions"]) + "]")
    lines.append("")
    lines.append("/-- the dict `inverse` of TOPDirector.parse_top_pragma (`#else`) -/")
    lines.append("def inverseCond : List (String × String) :=")
    lines.append("  [" + ", ".join("(%s, %s)" % (lstr(k), lstr(v)) for k, v in tab["inverseCond"]) + "]")
    lines.append("")
    lines.append("/-- `TOPDirector.COMMENT_CHAR` -/")
    lines.append("def commentChar : Char := '%s'" % tab["commentChar"])
    lines.append("")
    lines.append("end PolyplyVerif.Tables.Top")
    return "\n".join(lines) + "\n"


def validate_live(tab):
    """compare with the live objects: atom_idxs directly, patterns/comb_funcs behaviourally (they are
    function locals): probe match_dihedral_interaction_types with one single-entry table per pattern."""
    problems = []
    from polyply.src import top_parser, topology
    live = []
    for name, row in top_parser.TOPDirector.atom_idxs.items():
        ents = []
        for ent in row:
            if isinstance(ent, slice):
                if ent.step is not None:
                    problems.append("atom_idxs[%s] has a slice with a step" % name)
                ents.append(("slice", ent.start, ent.stop))
            else:
                ents.append(("idx", ent))
        live.append((name, ents))
    if dict(live) != dict((n, list(r)) for n, r in tab["atomIdxs"]):   # a lookup table: order is irrelevant
        problems.append("TOPDirector.atom_idxs differs between ast and live class")
    live_keys = set(top_parser.TOPDirector.METH_DICT.keys())
    mine = set(tuple(names) for names, _ in tab["sections"]) | {("macros",)}
    if live_keys != mine:
        problems.append("TOPDirector.METH_DICT keys differ from the translated decorators: %s"
                        % sorted(live_keys ^ mine))
    for names, func in tab["sections"]:
        entry = top_parser.TOPDirector.METH_DICT.get(tuple(names))
        if entry is not None and entry[0].__name__ != func:
            problems.append("section %s is handled by %s, translated %s" % (names, entry[0].__name__, func))
    # every translated pattern, applied to distinct atoms, must be found by the live function when it is
    # the only entry of the table
    atoms = ("a0", "a1", "a2", "a3", "a4", "a5", "a6", "a7")
    for row in tab["patterns"]:
        if any(e != "X" and e >= len(atoms) for e in row):
            problems.append("pattern index out of the probe range: %r" % (row,))
            continue
        key = tuple("X" if e == "X" else atoms[e] for e in row)
        try:
            got = topology.match_dihedral_interaction_types(atoms[:max(4, 1 + max([e for e in row if e != "X"] or [0]))],
                                                            {key: []})
        except Exception as err:  # pylint: disable=broad-except
            got = "raised %s" % type(err).__name__
        if got != key:
            problems.append("live match_dihedral_interaction_types does not find the translated pattern %r" % (row,))
    problems += _validate_c08(tab, top_parser, topology)
    return problems


def _validate_c08(tab, top_parser, topology):
    """the C08 anchors against the live class: COMMENT_CHAR and the two action dicts directly, the function
    locals behaviourally (one probe line per handler on a fresh director)"""
    problems = []
    import vermouth.forcefield
    cls = top_parser.TOPDirector
    if cls.COMMENT_CHAR != tab["commentChar"]:
        problems.append("TOPDirector.COMMENT_CHAR is %r, translated %r" % (cls.COMMENT_CHAR, tab["commentChar"]))

    def fresh():
        topo = topology.Topology(vermouth.forcefield.ForceField("translator"))
        return topo, cls(topo)
    try:
        topo, director = fresh()
        live = dict((k, getattr(v, "__name__", "?")) for k, v in director.pragma_actions.items())
        if live != dict(tab["pragmaActions"]):
            problems.append("pragma_actions of a live TOPDirector %r differs from the translated %r"
                            % (live, tab["pragmaActions"]))
        live = dict((tuple(k), getattr(v, "__name__", "?")) for k, v in director.header_actions.items())
        if live != dict((tuple(k), v) for k, v in tab["headerActions"]):
            problems.append("header_actions of a live TOPDirector %r differs from the translated %r"
                            % (live, tab["headerActions"]))
        # _defaults: all names given -> keys in the translated order, the numbered ones (and only they) are floats
        names = tab["defaultNames"]
        director._defaults(" ".join("1" for _ in names))                      # pylint: disable=protected-access
        if list(topo.defaults) != names:
            problems.append("live _defaults stores the keys %r, translated %r" % (list(topo.defaults), names))
        numbered = [k for k, v in topo.defaults.items() if isinstance(v, float)]
        if sorted(numbered) != sorted(tab["defaultNumbered"]):
            problems.append("live _defaults converts %r to float, translated %r" % (numbered, tab["defaultNumbered"]))
        key, val = tab["genPairsDefault"]
        if key in names and names.index(key) > 0:
            topo, director = fresh()
            director._defaults(" ".join("1" for _ in names[:names.index(key)]))  # pylint: disable=protected-access
            if topo.defaults.get(key) != val:
                problems.append("live _defaults inserts %s=%r, translated %r" % (key, topo.defaults.get(key), val))
        # _atomtypes: name + one numeric token per field -> keys in the translated order, floats as translated
        fields = tab["atomTypeFields"]
        topo, director = fresh()
        director._atomtypes("NAME " + " ".join(str(i + 1) for i in range(len(fields))))   # pylint: disable=protected-access
        row = topo.atom_types.get("NAME", {})
        if list(row) != fields:
            problems.append("live _atomtypes stores the fields %r, translated %r" % (list(row), fields))
        else:
            want = [str(len(fields) - i) for i in range(len(fields))]        # the tokens are reversed
            got = [("%d" % v) if isinstance(v, float) else v for v in row.values()]
            if got != want:
                problems.append("live _atomtypes assigns %r to %r, expected the reversed tokens %r" % (got, fields, want))
        floats = [k for k, v in row.items() if isinstance(v, float)]
        if sorted(floats) != sorted(tab["atomTypeFloats"]):
            problems.append("live _atomtypes converts %r to float, translated %r" % (floats, tab["atomTypeFloats"]))
        # #else: the translated inversion table
        for cond, inv in tab["inverseCond"]:
            topo, director = fresh()
            director.current_meta = {"tag": "T", "condition": cond}
            director.parse_top_pragma("#else")
            if (director.current_meta or {}).get("condition") != inv:
                problems.append("live parse_top_pragma('#else') turns %r into %r, translated %r"
                                % (cond, (director.current_meta or {}).get("condition"), inv))
    except Exception as err:  # pylint: disable=broad-except
        problems.append("probing the live TOPDirector raised %s: %s" % (type(err).__name__, err))
    return problems
